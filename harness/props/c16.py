"""C16 -- vector-equation rearrangement is equivalence-preserving.

static theorems : Properties/C16.v about Model/Solve.v (solve_reduce, solve_noreduce, solve_is_solution,
                  apply_both_sides, refusals)
tie             : the REAL solve_for_vector is run on generic linear combinations (symbolic coefficients); the Eq it
                  returns is serialised to Coq and `sfv_<i> : forall vectors scalars, k <> 0 -> lhs - rhs = (1/k) expr`
                  (resp. `rhs - lhs = expr`) is proved by `field` per component, expr being serialised from the
                  generator's recipe.  solve_for_scalar: every returned solution is substituted into the recipe of the
                  equation (`sfs_<i>`, field / nsatz).  apply and the refusals are enumerated and compared exactly.
"""
from __future__ import annotations

import itertools
import sys
from fractions import Fraction

import sympy

from vp import coqrun, vx, vtree
from vp.qx import E_TYPE, E_VALUE

STATIC = ["solve_reduce", "solve_noreduce", "solve_is_solution", "apply_both_sides", "refuses_non_vector",
    "refuses_absent_vector", "solves_present_vector"]

PREAMBLE = vtree.TV_PREAMBLE + """
Ltac nz_one :=
  match goal with H : ?h <> 0 |- _ => apply H; v3_goal; first [ assumption | timeout 20 (solve [nsatz]) ] end.
Ltac nz_from P :=
  let Hd := fresh "Hd" in intro Hd;
  first [ nz_one
        | let Hp := fresh "Hp" in assert (Hp : P = 0) by (v3_goal; timeout 30 (solve [nsatz]));
          repeat match goal with
          | H : _ * _ = 0 |- _ => apply Rmult_integral in H; destruct H as [H|H]
          end; first [ contradiction | nz_one ] ].
Ltac side P := repeat split; first [ assumption | nz_from P ].
"""

V = lambda i: ("vsym", i)
S_ = lambda j: ("ssym", j)


# ---------------------------------------------------------------------------------------------
# complex values: evaluators (floats, principal branches) and (re, im) serialisation to Coq over R
# ---------------------------------------------------------------------------------------------
import cmath  # noqa: E402  pylint: disable=wrong-import-position


def cev_recipe(r, env):
    t = r[0]
    g = lambda x: cev_recipe(x, env)
    if t == "vsym":
        return tuple(complex(x) for x in env.vecs[r[1]])
    if t == "vzero":
        return (0j, 0j, 0j)
    if t == "vadd":
        return tuple(x + y for x, y in zip(g(r[1]), g(r[2])))
    if t == "vscale":
        k = g(r[1])
        return tuple(k * x for x in g(r[2]))
    if t == "cross":
        return vx.v_cross(g(r[1]), g(r[2]))
    if t == "int":
        return complex(r[1])
    if t == "rat":
        return complex(r[1]) / r[2]
    if t == "ssym":
        return complex(env.scals[r[1]])
    if t == "sadd":
        return g(r[1]) + g(r[2])
    if t == "smul":
        return g(r[1]) * g(r[2])
    if t == "sdiv":
        return g(r[1]) / g(r[2])
    if t == "dot":
        return vx.v_dot(g(r[1]), g(r[2]))
    if t == "ssqrt":
        return cmath.sqrt(g(r[1]))
    if t == "slog":
        return cmath.log(g(r[1]))
    if t == "imag":
        return 1j
    if t == "cexp":
        return cmath.exp(1j * complex(env.scals[r[1]]))
    if t == "cunit8":
        return (1 + 1j) / cmath.sqrt(2)
    if t == "rsqrt2":
        return 1 / cmath.sqrt(2)
    raise vx.Unsupported(f"complex evaluation of {t}")


def cev_sympy(e, c, env, want):
    from symplyphysics.core.experimental import vectors as VV  # pylint: disable=import-outside-toplevel
    e = sympy.sympify(e)
    g = lambda x, w: cev_sympy(x, c, env, w)
    if want == "v":
        if e == 0:
            return (0j, 0j, 0j)
        if isinstance(e, VV.VectorSymbol):
            return tuple(complex(x) for x in env.vecs[int(c.vec_name[id(e)][1:])])
        if isinstance(e, VV.VectorCross):
            return vx.v_cross(g(e.args[0], "v"), g(e.args[1], "v"))
        if isinstance(e, sympy.Add):
            out = (0j, 0j, 0j)
            for a in e.args:
                out = tuple(x + y for x, y in zip(out, g(a, "v")))
            return out
        if isinstance(e, sympy.Mul):
            vs = [a for a in e.args if c.kind(a) == "v"]
            if len(vs) != 1:
                raise vx.Unsupported(f"product with {len(vs)} vector factors: {e}")
            k = 1 + 0j
            for a in e.args:
                if c.kind(a) != "v":
                    k *= g(a, "s")
            return tuple(k * x for x in g(vs[0], "v"))
        raise vx.Unsupported(f"vector node {type(e).__name__}")
    if isinstance(e, (sympy.Integer, sympy.Rational)):
        return complex(sympy.Rational(e).p) / sympy.Rational(e).q
    if e == sympy.I:
        return 1j
    if isinstance(e, sympy.Symbol):
        return complex(env.scals[int(c.scal_name[e][1:])])
    if isinstance(e, sympy.Add):
        return sum((g(a, "s") for a in e.args), 0j)
    if isinstance(e, sympy.Mul):
        out = 1 + 0j
        for a in e.args:
            out *= g(a, "s")
        return out
    if isinstance(e, sympy.Pow):
        b, x = g(e.args[0], "s"), g(e.args[1], "s")
        if e.args[1] == sympy.Rational(1, 2):
            return cmath.sqrt(b)
        if e.args[1] == sympy.Rational(-1, 2):
            return 1 / cmath.sqrt(b)
        return b**x if x.imag or x.real != int(x.real) else b**int(x.real)
    if isinstance(e, sympy.exp):
        return cmath.exp(g(e.args[0], "s"))
    if isinstance(e, sympy.log):
        return cmath.log(g(e.args[0], "s"))
    if isinstance(e, VV.VectorDot):
        return vx.v_dot(g(e.args[0], "v"), g(e.args[1], "v"))
    if isinstance(e, VV.VectorNorm):
        w = g(e.args[0], "v")
        return cmath.sqrt(sum(x * x for x in w))
    if isinstance(e, sympy.Abs):
        return complex(abs(g(e.args[0], "s")))
    raise vx.Unsupported(f"scalar node {type(e).__name__}: {e}")


def cclose(a, b):
    if isinstance(a, tuple):
        return all(cclose(x, y) for x, y in zip(a, b))
    return abs(complex(a) - complex(b)) <= 1e-8 * max(1.0, abs(complex(a)), abs(complex(b)))


def cshow(v):
    if isinstance(v, tuple):
        return [cshow(x) for x in v]
    v = complex(v)
    return f"{v.real:.6g}" if abs(v.imag) < 1e-12 else f"{v.real:.6g}{v.imag:+.6g}i"


def cmul(a, b):
    (ar, ai), (br, bi) = a, b
    if ai == "0" and bi == "0":
        return (f"({ar} * {br})", "0")
    if ai == "0":
        return (f"({ar} * {br})", f"({ar} * {bi})")
    if bi == "0":
        return (f"({ar} * {br})", f"({ai} * {br})")
    return (f"({ar} * {br} - {ai} * {bi})", f"({ar} * {bi} + {ai} * {br})")


def cadd(a, b):
    return (a[0] if b[0] == "0" else b[0] if a[0] == "0" else f"({a[0]} + {b[0]})",
            a[1] if b[1] == "0" else b[1] if a[1] == "0" else f"({a[1]} + {b[1]})")


def cinv(a):
    ar, ai = a
    if ai == "0":
        return (f"(/ {ar})", "0")
    n2 = f"({ar} * {ar} + {ai} * {ai})"
    return (f"({ar} / {n2})", f"(- ({ai}) / {n2})")


def cvscale(k, v):
    (a, b), (vr, vi) = k, v
    re = f"(vscale {a} {vr})" if b == "0" or vi == "vzero" else f"(vadd (vscale {a} {vr}) (vscale (- ({b})) {vi}))"
    if b == "0":
        im = "vzero" if vi == "vzero" else f"(vscale {a} {vi})"
    elif vi == "vzero":
        im = f"(vscale {b} {vr})"
    else:
        im = f"(vadd (vscale {a} {vi}) (vscale {b} {vr}))"
    return (re, im)


def cvadd(a, b):
    return (f"(vadd {a[0]} {b[0]})", a[1] if b[1] == "vzero" else b[1] if a[1] == "vzero" else f"(vadd {a[1]} {b[1]})")


def cpair_recipe(r):
    t = r[0]
    g = cpair_recipe
    if t == "vsym":
        return (f"v{r[1]}", "vzero")
    if t == "vzero":
        return ("vzero", "vzero")
    if t == "vadd":
        return cvadd(g(r[1]), g(r[2]))
    if t == "vscale":
        return cvscale(g(r[1]), g(r[2]))
    if t == "int":
        return (vx.zlit(r[1]), "0")
    if t == "ssym":
        return (f"s{r[1]}", "0")
    if t == "sadd":
        return cadd(g(r[1]), g(r[2]))
    if t == "smul":
        return cmul(g(r[1]), g(r[2]))
    if t == "imag":
        return ("0", "1")
    if t == "cexp":
        return (f"(cos s{r[1]})", f"(sin s{r[1]})")
    if t == "cunit8":
        return ("(/ sqrt 2)", "(/ sqrt 2)")
    if t == "rsqrt2":
        return ("(/ sqrt 2)", "0")
    raise vx.Unsupported(f"complex serialisation of recipe tag {t}")


def cpair_sympy(e, c, want):
    from symplyphysics.core.experimental import vectors as VV  # pylint: disable=import-outside-toplevel
    e = sympy.sympify(e)
    g = lambda x, w: cpair_sympy(x, c, w)
    if want == "v":
        if e == 0:
            return ("vzero", "vzero")
        if isinstance(e, VV.VectorSymbol):
            return (c.vec_name[id(e)], "vzero")
        if isinstance(e, sympy.Add):
            out = g(e.args[0], "v")
            for a in e.args[1:]:
                out = cvadd(out, g(a, "v"))
            return out
        if isinstance(e, sympy.Mul):
            vs = [a for a in e.args if c.kind(a) == "v"]
            if len(vs) != 1:
                raise vx.Unsupported(f"product with {len(vs)} vector factors: {e}")
            k = ("1", "0")
            for a in e.args:
                if c.kind(a) != "v":
                    k = cmul(k, g(a, "s"))
            return cvscale(k, g(vs[0], "v"))
        raise vx.Unsupported(f"vector node {type(e).__name__} in a complex combination")
    if isinstance(e, sympy.Integer):
        return (vx.zlit(int(e)), "0")
    if isinstance(e, sympy.Rational):
        return (f"({vx.zlit(int(e.p))} / {int(e.q)})", "0")
    if e == sympy.I:
        return ("0", "1")
    if isinstance(e, sympy.Symbol):
        return (c.scal_name[e], "0")
    if isinstance(e, sympy.Add):
        out = g(e.args[0], "s")
        for a in e.args[1:]:
            out = cadd(out, g(a, "s"))
        return out
    if isinstance(e, sympy.Mul):
        out = g(e.args[0], "s")
        for a in e.args[1:]:
            out = cmul(out, g(a, "s"))
        return out
    if isinstance(e, sympy.Pow):
        b, x = e.args
        if b == 2 and x == sympy.Rational(1, 2):
            return ("sqrt 2", "0")
        if b == 2 and x == sympy.Rational(-1, 2):
            return ("(/ sqrt 2)", "0")
        if isinstance(x, sympy.Integer) and 1 <= abs(int(x)) <= 4:
            base = g(b, "s")
            out = base
            for _ in range(abs(int(x)) - 1):
                out = cmul(out, base)
            return out if int(x) > 0 else cinv(out)
        raise vx.Unsupported(f"power {e} in a complex combination")
    if isinstance(e, sympy.exp):
        theta = sympy.expand(e.args[0] / sympy.I)
        if theta.has(sympy.I):
            raise vx.Unsupported(f"exponential {e}")
        if theta.could_extract_minus_sign():
            th = vx.coq_of_sympy(-theta, vx._quiet(c), "s")
            return (f"(cos {th})", f"(- sin {th})")
        th = vx.coq_of_sympy(theta, vx._quiet(c), "s")
        return (f"(cos {th})", f"(sin {th})")
    raise vx.Unsupported(f"scalar node {type(e).__name__}: {e} in a complex combination")


C_PREAMBLE_EXTRA = """
Ltac c_nz :=
  first [ assumption | lra
        | let Hz := fresh "Hz" in intro Hz; match goal with H : _ <> 0 |- _ => apply H; rewrite ?Hz; ring end ].
Ltac c_side := try (repeat split; c_nz).
Ltac unpow :=
  repeat match goal with
  | |- context [?x ^ 2] => replace (x ^ 2) with (x * x) by ring
  | |- context [?x ^ 3] => replace (x ^ 3) with (x * x * x) by ring
  | |- context [?x ^ 4] => replace (x ^ 4) with (x * x * x * x) by ring
  end.
Ltac c_finish := first [ ring | solve [nsatz] | (field_simplify_eq; c_side; unpow; first [ ring | solve [nsatz] ]) ].
"""


def solve_vector_complex_cases(ctx):
    """coefficients of modulus one that are not real (I, -I, exp(I*phi), (1+I)/sqrt(2)) and other complex ones: the identity
    k * (lhs - rhs) = expr is proved componentwise over R for the real and the imaginary part (vectors are real)"""
    from symplyphysics.core.experimental.solvers import solve_for_vector  # pylint: disable=import-outside-toplevel
    rng = ctx.rng
    I_ = ("imag",)
    R2 = ("rsqrt2",)
    # (coefficient as written, the coefficients of the terms expand() makes of it)
    kinds = [(I_, [I_]), (("smul", ("int", -1), I_), [("smul", ("int", -1), I_)]), (("cexp", 2), [("cexp", 2)]),
        (("cunit8",), [R2, ("smul", R2, I_)]), (("smul", ("int", 2), I_), [("smul", ("int", 2), I_)]),
        (("smul", S_(0), I_), [("smul", S_(0), I_)]), (("sadd", ("int", 1), I_), [("int", 1), I_]),
        (("smul", ("int", -1), ("cexp", 2)), [("smul", ("int", -1), ("cexp", 2))])]
    lemmas, info = [], {}
    n = 0
    cap = Capped(ctx, 8)
    for rep_i in range(ctx.pick(2, 8)):
        for K, K_addends in kinds:
            for reduce in (True, False):
                n += 1
                nv, ns = 3, 3
                nterms = rng.choice([2, 3, 3])
                unknown = rng.randrange(nv)
                others = [i for i in range(nv) if i != unknown]
                rng.shuffle(others)
                terms = [(K, V(unknown))]
                for i in range(nterms - 1):
                    coef = rng.choice([S_(0), S_(1), ("int", rng.choice([-2, 2, 3])), ("sadd", S_(0), S_(1)), ("smul", ("int", -1), S_(1)),
                        I_ if rng.random() < 0.2 else S_(1)])
                    terms.append((coef, V(others[i % len(others)])))
                pos = rng.randrange(len(terms))
                terms[0], terms[pos] = terms[pos], terms[0]
                expr_r = comb_recipe(terms)
                o = vx.Objs(nv, ns)
                shown = f"{vx.show_recipe(expr_r)} for {'abcdefgh'[unknown]}" + ("" if reduce else " (reduce_factor=False)")
                base = {"kind": "solve_for_vector", "case": shown, "recipe_lhs": expr_r, "recipe_rhs": None, "nv": nv, "ns": ns,
                    "unknown": unknown, "reduce": reduce, "complex": True}
                try:
                    eq = solve_for_vector(vx.build(expr_r, o), o.vecs[unknown], reduce_factor=reduce)
                except Exception as e:  # pylint: disable=broad-except
                    cap.violation(f"C16:sfv:refused:{shown}", f"solve_for_vector refuses {shown}: {type(e).__name__}: {e}"[:300],
                        {**base, "observed": f"{type(e).__name__}: {e}"[:300], "expected": "an equation"}, True)
                    continue
                base["observed"] = str(eq)
                c = vx.OutCtx(o)
                # numeric check with complex values first
                bad = None
                samples = []
                for _ in range(6):
                    env = vtree.rand_env(rng, nv, ns, small=False)
                    lv, rv = cev_sympy(eq.lhs, c, env, "v"), cev_sympy(eq.rhs, c, env, "v")
                    samples.append((env, tuple(x - y for x, y in zip(lv, rv)), cev_recipe(expr_r, env)))
                Kc = None
                for cand in (K_addends if reduce else [K]):
                    if all((cclose(tuple(cev_recipe(cand, env) * x for x in d), ev) if reduce else cclose(tuple(-x for x in d), ev))
                            for env, d, ev in samples):
                        Kc = cand
                        break
                if Kc is None:
                    env, d, ev = samples[0]
                    bad = (env, d, ev, [cev_recipe(cand, env) for cand in K_addends])
                if bad:
                    env, d, ev, kv = bad
                    cap.violation(f"C16:sfv:{shown}", f"solve_for_vector({shown}) returns {eq}: " + ("k*(lhs - rhs) is not the expression "
                        f"for any coefficient k in {cshow(tuple(kv))} of the unknown" if reduce else "rhs - lhs is not the expression"),
                        {**base, "env": env.to_json(), "lhs_minus_rhs": cshow(d), "expr": cshow(ev), "coefficient": cshow(tuple(kv)),
                         "expected": "lhs - rhs = expr / k" if reduce else "rhs - lhs = expr"}, True)
                    continue
                try:
                    L, Rr = cpair_sympy(eq.lhs, c, "v"), cpair_sympy(eq.rhs, c, "v")
                    E, Kp = cpair_recipe(expr_r), cpair_recipe(Kc)
                except vx.Unsupported as e:
                    ctx.violation(f"C16:sfv:unmodelled:{shown}", f"result of solve_for_vector outside the complex serialiser's vocabulary: {e}",
                        {**base, "kind": "broken-tie", "theorem_or_tie": "c16.cpair_sympy"}, False)
                    continue
                Dr, Di = f"(vsub {L[0]} {Rr[0]})", f"(vsub {L[1]} {Rr[1]})"
                if reduce:
                    re_l, im_l = cvscale(Kp, (Dr, Di))
                    stmt_body = f"{re_l} = {E[0]} /\\ {im_l} = {E[1]}"
                else:
                    stmt_body = f"(vsub {Rr[0]} {L[0]}) = {E[0]} /\\ (vsub {Rr[1]} {L[1]}) = {E[1]}"
                bind = vx.binder({"v": set(range(nv)), "s": set(range(ns)), "f": set(), "par": False})
                if reduce:
                    stmt_body = f"({Kp[0]}) * ({Kp[0]}) + ({Kp[1]}) * ({Kp[1]}) <> 0 -> " + stmt_body
                facts = ["assert (Hq : sqrt 2 * sqrt 2 = 2) by (apply sqrt_sqrt; lra).",
                    "assert (Hq0 : sqrt 2 <> 0) by (intro Eq0; rewrite Eq0 in Hq; lra).",
                    "pose proof (sin2_cos2 s2) as Hcs. unfold Rsqr in Hcs.",
                    "set (q2 := sqrt 2) in *. set (c2 := cos s2) in *. set (z2 := sin s2) in *. clearbody q2 c2 z2."]
                proof = ("intros. " + " ".join(facts) + " " + destruct_vectors(nv) +
                    " timeout 120 (split; apply v3_eq; v3_goal; c_finish).")
                name = f"sfc_{n}"
                lemmas.append(coqrun.Lemma(name, f"forall {bind}, {stmt_body}", proof, shown))
                info[name] = base
    (ctx.build / "sfc_lemmas.txt").write_text("\n".join(f"Lemma {l.name} : {l.statement}.\nProof.\n{l.proof}\nQed.\n" for l in lemmas))
    res = coqrun.prove_lemmas(ctx, "sfc", PREAMBLE + C_PREAMBLE_EXTRA, lemmas, per_file=8, timeout=900) if lemmas else {}
    ok = sum(v == "ok" for v in res.values())
    ctx.obligations(len(lemmas), ok)
    for name, st in res.items():
        if st != "ok":
            b = info[name]
            ctx.violation(f"C16:sfv-proof:{b['case']}", f"could not prove the rearrangement identity (complex coefficients) for {b['case']} -> "
                f"{b['observed']}", {**b, "kind": "broken-proof", "theorem_or_tie": f"generated lemma {name}", "coq_error": st[-400:]}, False)
    ctx.evaluated(n, n)
    ctx.coverage["solve_for_vector_complex"] = {"cases": n, "lemmas": len(lemmas), "proved": ok,
        "coefficients": "I, -I, exp(I*phi), (1+I)/sqrt(2), 2I, k*I, 1+I, -exp(I*phi)"}
    if lemmas:
        ctx.sample({"stream": "solve_for_vector (complex coefficients)", "case": info[lemmas[0].name]["case"],
            "returned": info[lemmas[0].name]["observed"], "lemma": lemmas[0].statement[:300]})


# ---------------------------------------------------------------------------------------------
# generic linear combinations
# ---------------------------------------------------------------------------------------------

def gen_coef(rng, nv, ns, kind=None):
    kind = kind or rng.choice(["sym", "sym", "int", "minus1", "sum", "prod", "intsym", "dot", "inv", "sqrtprod", "logprod"])
    if kind == "sym":
        return S_(rng.randrange(ns))
    if kind == "int":
        return ("int", rng.choice([-3, -2, 2, 3, 1]))
    if kind == "minus1":
        return ("int", -1)
    if kind == "sum":
        a, b = rng.sample(range(ns), 2)
        return ("sadd", S_(a), S_(b))
    if kind == "prod":
        return ("smul", S_(rng.randrange(ns)), S_(rng.randrange(ns)))
    if kind == "intsym":
        return ("smul", ("int", rng.choice([-2, 2, 3])), S_(rng.randrange(ns)))
    if kind == "dot":
        a, b = rng.randrange(nv), rng.randrange(nv)
        return ("dot", V(a), V(b))
    if kind == "inv":
        return ("sdiv", ("int", 1), S_(rng.randrange(ns)))
    if kind == "sqrtprod":
        a, b = sorted(rng.sample(range(ns), 2))           # SymPy's argument order, so that both sides name the same atom
        return ("ssqrt", ("smul", S_(a), S_(b)))          # no positivity assumption: sqrt(x*y) is not sqrt(x)*sqrt(y)
    if kind == "logprod":
        a, b = sorted(rng.sample(range(ns), 2))
        return ("slog", ("smul", S_(a), S_(b)))
    raise ValueError(kind)


def gen_vecterm(rng, nv, unknown, allow_sum=True):
    r = rng.random()
    if r < 0.6:
        return V(rng.randrange(nv))
    if r < 0.8:
        a, b = rng.sample(range(nv), 2) if nv > 1 else (0, 0)
        return ("cross", V(a), V(b))
    if allow_sum and nv > 1:
        a = rng.randrange(nv)
        return ("vadd", V(unknown), V(a))          # the unknown occurs again after expansion
    return V(rng.randrange(nv))


def contributions(terms, unknown):
    """coefficient recipes with which the unknown occurs as a term after expansion (sign: side already applied)"""
    out = []
    for coef, vec in terms:
        k = 0
        if vec == V(unknown):
            k = 1
        elif vec[0] == "vadd":
            k = sum(1 for part in vec[1:] if part == V(unknown))
        for _ in range(k):
            out.extend(addends(coef))
    return out


def addends(coef):
    """expand() distributes a vector over the addends of its coefficient: each addend is a term's coefficient"""
    if coef[0] == "sadd":
        return addends(coef[1]) + addends(coef[2])
    if coef[0] == "smul" and coef[1][0] == "int":
        return [("smul", coef[1], a) for a in addends(coef[2])]
    return [coef]


def sum_recipe(cs):
    out = cs[0]
    for c in cs[1:]:
        out = ("sadd", out, c)
    return out


def comb_recipe(terms):
    out = None
    for coef, vec in terms:
        t = ("vscale", coef, vec)
        out = t if out is None else ("vadd", out, t)
    return out if out is not None else ("vzero",)


def denominators(r, acc=None):
    if acc is None:
        acc = []
    if r[0] == "sdiv":
        acc.append(r[2])
    for x in r[1:]:
        if isinstance(x, tuple):
            denominators(x, acc)
    return acc


def gen_case(rng, n, pos, quick):
    """n terms; the unknown is the vector of term `pos`."""
    nv = rng.randint(max(2, min(n, 3)), 4)
    ns = 3
    unknown = rng.randrange(nv)
    terms = []
    for i in range(n):
        coef = gen_coef(rng, nv, ns)
        if i == pos:
            vec = V(unknown)
            if rng.random() < 0.25:
                coef = ("int", -1)
        else:
            vec = gen_vecterm(rng, nv, unknown)
        terms.append((coef, vec))
    as_eq = rng.random() < 0.4 and n >= 2
    split = rng.randrange(1, n) if as_eq else n
    return {"nv": nv, "ns": ns, "unknown": unknown, "terms": terms, "split": split, "as_eq": as_eq,
        "reduce": rng.random() < 0.7}


def solve_vector_cases(ctx):
    from symplyphysics.core.experimental.solvers import solve_for_vector  # pylint: disable=import-outside-toplevel
    rng = ctx.rng
    per_shape = ctx.pick(14, 80)
    cases = []
    for n in range(1, 6):
        for pos in range(n):
            for _ in range(per_shape):
                cases.append(gen_case(rng, n, pos, ctx.quick))
    lemmas, info = [], {}
    hist = {"solved": 0, "refused": 0}
    nontriv = set()
    cap = Capped(ctx, 8)
    for ci, case in enumerate(cases):
        nv, ns, unknown = case["nv"], case["ns"], case["unknown"]
        o = vx.Objs(nv, ns)
        lhs_terms = case["terms"][:case["split"]]
        rhs_terms = case["terms"][case["split"]:]
        lhs_r, rhs_r = comb_recipe(lhs_terms), comb_recipe(rhs_terms)
        if case["as_eq"]:
            arg = sympy.Eq(vx.build(lhs_r, o), vx.build(rhs_r, o), evaluate=False)
            expr_r = ("vadd", lhs_r, ("vscale", ("int", -1), rhs_r))
            signed = lhs_terms + [(("smul", ("int", -1), c), v) for c, v in rhs_terms]
        else:
            arg = vx.build(lhs_r, o)
            expr_r = lhs_r
            signed = lhs_terms
        shown = (f"Eq({vx.show_recipe(lhs_r)}, {vx.show_recipe(rhs_r)})" if case["as_eq"] else vx.show_recipe(lhs_r)) + \
            f" for {'abcdefgh'[unknown]}" + ("" if case["reduce"] else " (reduce_factor=False)")
        base = {"kind": "solve_for_vector", "case": shown, "recipe_lhs": lhs_r, "recipe_rhs": rhs_r if case["as_eq"] else None,
            "nv": nv, "ns": ns, "unknown": unknown, "reduce": case["reduce"]}
        try:
            eq = solve_for_vector(arg, o.vecs[unknown], reduce_factor=case["reduce"])
        except Exception as e:  # pylint: disable=broad-except
            hist["refused"] += 1
            net = sympy.expand(sum((vx.comps_of_recipe(k) for k in contributions(signed, unknown)), sympy.S.Zero))
            if isinstance(e, ValueError) and net == 0:
                continue            # the terms of the unknown cancel: it is not a term of the expression, refusal is right
            cap.violation(f"C16:sfv:refused:{shown}", f"solve_for_vector refuses {shown} although {'abcdefgh'[unknown]} is a term: "
                f"{type(e).__name__}: {e}"[:300], {**base, "observed": f"{type(e).__name__}: {e}"[:300], "expected": "an equation"}, True)
            continue
        hist["solved"] += 1
        nontriv.add(shown)
        c = vx.OutCtx(o)
        try:
            lhs_c, rhs_c = vx.coq_of_sympy(eq.lhs, c, "v"), vx.coq_of_sympy(eq.rhs, c, "v")
        except vx.Unsupported as e:
            ctx.violation(f"C16:sfv:unmodelled:{shown}", f"result of solve_for_vector outside the serialiser's vocabulary: {e}",
                {**base, "kind": "broken-tie", "theorem_or_tie": "vx.coq_of_sympy", "observed": str(eq)}, False)
            continue
        base["observed"] = str(eq)
        envs = [vtree.rand_env(rng, nv, ns, small=False) for _ in range(8)]
        cands = contributions(signed, unknown)
        subsets = [sum_recipe(list(s)) for k in range(1, len(cands) + 1) for s in itertools.combinations(cands, k)]
        dens = denominators(expr_r)
        hyps = "".join(f"{vx.coq_of_recipe(d)} <> 0 -> " for d in dens)
        atoms = {"v": set(range(nv)), "s": set(range(ns)), "f": set(), "par": False}
        bind = vx.binder(atoms)

        tags = vx.recipe_tags(expr_r)
        cx = "ssqrt" in tags or "slog" in tags          # radicals / logarithms of products: evaluate over C, also at negative values
        if cx:
            ev_out = lambda env, which: cev_sympy(which, c, env, "v")
            ev_rec = lambda r_, env: cev_recipe(r_, env)
            close_ = cclose
            show_ = cshow
        else:
            ev_out = lambda env, which: vx.eval_sympy(which, c, env, "v")
            ev_rec = vx.eval_recipe
            close_ = vx.close
            show_ = vx.show_value
        vsub_ = lambda a_, b_: tuple(x - y for x, y in zip(a_, b_))
        vscale_ = lambda k_, a_: tuple(k_ * x for x in a_)
        ok_env = []
        for env in envs:
            try:
                ok_env.append((env, ev_out(env, eq.lhs), ev_out(env, eq.rhs), ev_rec(expr_r, env)))
            except (ZeroDivisionError, ValueError):
                continue
        if case["reduce"]:
            chosen = None
            for K in subsets:
                good = True
                used = 0
                for env, lv, rv, ev in ok_env:
                    try:
                        kv = ev_rec(K, env)
                        if kv == 0:
                            continue
                        used += 1
                        if not close_(vsub_(lv, rv), vscale_(1 / kv, ev)):
                            good = False
                            break
                    except (ZeroDivisionError, ValueError):
                        continue
                if good and used:
                    chosen = K
                    break
            if chosen is None:
                env, lv, rv, ev = ok_env[0] if ok_env else (None, None, None, None)
                cap.violation(f"C16:sfv:{shown}", f"solve_for_vector({shown}) returns {eq}: its sides do not differ by the expression divided "
                    f"by a coefficient of the unknown", {**base, "env": env.to_json() if env else None,
                    "lhs_minus_rhs": show_(vsub_(lv, rv)) if env else None,
                    "expr": show_(ev) if env else None, "complex": cx,
                    "coefficients": [str(show_(ev_rec(K, env))) for K in subsets] if env else None,
                    "coefficient_recipes": subsets,
                    "expected": "lhs - rhs = expr / k for a coefficient k of the unknown"}, True)
                continue
            Kc = vx.coq_of_recipe(chosen)
            prod = " * ".join([f"({Kc})"] + [f"({vx.coq_of_recipe(d)})" for d in dens])
            stmt = (f"forall {bind}, {Kc} <> 0 -> {hyps}vsub {lhs_c} {rhs_c} = vscale (/ {Kc}) {vx.coq_of_recipe(expr_r)}")
            proof = f"intros. {destruct_vectors(nv)} rewrite ?norm_sq. timeout 120 (apply v3_eq; v3_goal; (field; side ({unfold_vectors(prod)})))."
            base["coefficient"] = vx.show_recipe(chosen)
        else:
            bad = None
            for env, lv, rv, ev in ok_env:
                if not close_(vsub_(rv, lv), ev):
                    bad = (env, lv, rv, ev)
                    break
            if bad:
                env, lv, rv, ev = bad
                cap.violation(f"C16:sfv:{shown}", f"solve_for_vector({shown}) returns {eq}: rhs - lhs is not the expression",
                    {**base, "env": env.to_json(), "rhs_minus_lhs": show_(vsub_(rv, lv)), "complex": cx,
                     "expr": show_(ev), "expected": "rhs - lhs = expr"}, True)
                continue
            prod = " * ".join([f"({vx.coq_of_recipe(d)})" for d in dens]) or "1"
            stmt = f"forall {bind}, {hyps}vsub {rhs_c} {lhs_c} = {vx.coq_of_recipe(expr_r)}"
            proof = (f"intros. {destruct_vectors(nv)} rewrite ?norm_sq. timeout 120 (apply v3_eq; v3_goal; first [ ring | (field; side ({unfold_vectors(prod)})) ]).")
        # "whenever the vector occurs in no other term the right-hand side is its solution": then rhs must not mention it
        if case["reduce"] and len(cands) == 1 and not mentions(signed, unknown, skip_term_of=unknown):
            if eq.lhs != o.vecs[unknown] or eq.rhs.has(o.vecs[unknown]):
                ctx.violation(f"C16:sfv:solution:{shown}", f"solve_for_vector({shown}) returns {eq}, whose right-hand side still contains the unknown",
                    {**base, "expected": "lhs is the unknown, rhs free of it"}, True)
        name = f"sfv_{ci}"
        lemmas.append(coqrun.Lemma(name, stmt, proof, shown))
        info[name] = base
    (ctx.build / "sfv_lemmas.txt").write_text("\n".join(f"Lemma {l.name} : {l.statement}.\nProof.\n{l.proof}\nQed.\n" for l in lemmas))
    res = coqrun.prove_lemmas(ctx, "sfv", PREAMBLE, lemmas, per_file=ctx.pick(8, 20), timeout=900) if lemmas else {}
    ok = sum(v == "ok" for v in res.values())
    ctx.obligations(len(lemmas), ok)
    for name, st in res.items():
        if st != "ok":
            b = info[name]
            ctx.violation(f"C16:sfv-proof:{b['case']}", f"could not prove the rearrangement identity for {b['case']} -> {b['observed']}",
                {**b, "kind": "broken-proof", "theorem_or_tie": f"generated lemma {name}", "coq_error": st[-400:]}, False)
    ctx.evaluated(len(cases), len(nontriv))
    ctx.coverage["solve_for_vector"] = {"cases": len(cases), "lemmas": len(lemmas), "proved": ok, **hist,
        "failing_cases_reported": cap.n, "failing_cases_not_reported_individually": cap.suppressed,
        "shapes": "n = 1..5 terms x every position of the unknown; coefficients: symbol, integer, -1, sum, product, integer*symbol, "
                  "dot product, 1/symbol; vectors: symbols, cross products, sums containing the unknown again; Eq and plain forms; "
                  "reduce_factor on/off"}
    if lemmas:
        ctx.sample({"stream": "solve_for_vector", "case": info[lemmas[0].name]["case"], "returned": info[lemmas[0].name]["observed"],
            "lemma": lemmas[0].statement[:300]})


def destruct_vectors(nv):
    return " ".join(f"destruct v{i} as [v{i}x v{i}y v{i}z]." for i in range(nv))


def unfold_vectors(text):
    import re  # pylint: disable=import-outside-toplevel
    return re.sub(r"\bv(\d)\b", r"(mkV v\1x v\1y v\1z)", text)


class Capped:
    """at most `limit` individually reported failing cases per stream (the rest is counted)"""

    def __init__(self, ctx, limit):
        self.ctx, self.limit, self.n, self.suppressed = ctx, limit, 0, 0

    def violation(self, *a, **k):
        if self.n >= self.limit:
            self.suppressed += 1
            return
        self.n += 1
        self.ctx.violation(*a, **k)


def mentions(signed, unknown, skip_term_of=None):
    """does the unknown occur in a coefficient or inside a composite vector of the combination?"""
    for coef, vec in signed:
        if unknown in vx.recipe_atoms(coef)["v"]:
            return True
        if vec != V(unknown) and unknown in vx.recipe_atoms(vec)["v"]:
            return True
    return False


# ---------------------------------------------------------------------------------------------
# refusals (enumerated) -- compared with the model's outcome class
# ---------------------------------------------------------------------------------------------

def refusal_cases(ctx):
    from symplyphysics.core.experimental.solvers import solve_for_vector  # pylint: disable=import-outside-toplevel
    from symplyphysics.core.experimental.vectors import VectorSymbol, VectorNorm, VectorDot, VectorCross, VectorMixedProduct  # pylint: disable=import-outside-toplevel
    from vp import qx  # pylint: disable=import-outside-toplevel
    a, b, c, d = (VectorSymbol(n) for n in "abcd")
    k, m = sympy.symbols("k m", real=True)
    Eq = sympy.Eq
    table = [
        # (argument, unknown, expected class, why)
        (a + c, b, E_VALUE, "vector absent"), (Eq(a, c), b, E_VALUE, "vector absent from the equation"),
        (k * a + VectorCross(b, c) * m - d, b, E_VALUE, "vector only inside a cross product"),
        (VectorDot(a, b) * c + d, a, E_VALUE, "vector only inside a coefficient"),
        (k * a - k * a + b, a, E_VALUE, "the term cancels"), (sympy.S.Zero, a, E_VALUE, "zero expression"),
        (a - a, a, E_VALUE, "zero expression"), (Eq(a, a, evaluate=False), a, E_VALUE, "trivial equation"),
        (VectorNorm(a), a, E_TYPE, "a norm is not a vector"), (VectorDot(a, b), a, E_TYPE, "a dot product is not a vector"),
        (VectorMixedProduct(a, b, c), a, E_TYPE, "a mixed product is not a vector"), (k, a, E_TYPE, "a scalar symbol"),
        (sympy.Integer(5), a, E_TYPE, "a number"), (k * m + 1, a, E_TYPE, "a scalar expression"),
        (Eq(VectorNorm(a), k), a, E_TYPE, "a scalar equation"), (Eq(VectorDot(a, b), VectorDot(a, c)), a, E_TYPE, "a scalar equation"),
        (k * a + b, a, None, "present"), (Eq(k * a, b), b, None, "present"), (a, a, None, "present alone"),
        (VectorCross(a, b) + c, c, None, "present next to a cross product"),
    ]
    # malformed input: a vector expression in a denominator (bare, scaled, a sum, inside a product, under a power, a product of vectors)
    W = "division by a vector expression"
    table += [(b / a, b, E_TYPE, W), (c + b / a, c, E_TYPE, W), (c + b / (2 * a), c, E_TYPE, W), (c + b / (k * a), c, E_TYPE, W),
        (Eq(k * c, b / (a - 3 * c)), c, E_TYPE, W), (c - b / (a + c), c, E_TYPE, W), (c + k / a, c, E_TYPE, W), (c + 1 / a, c, E_TYPE, W),
        (c + b / (k * (a + b)), c, E_TYPE, W), (c + k * b * a**-1, c, E_TYPE, W), (Eq(c, b / (a + d) + d), c, E_TYPE, W),
        (c + m * b / (2 * k * (a - d)), c, E_TYPE, W), (k * c - (b + d) / (3 * a), c, E_TYPE, W),
        (c + b / a**2, c, E_TYPE, W + " (under a power)"), (c + k * b / (a + b)**2, c, E_TYPE, W + " (a sum under a power)"),
        (c + b / VectorCross(a, b), c, E_TYPE, W + " (a cross product)"), (c + b / VectorCross(a, d + b), c, E_TYPE, W + " (a cross product)"),
        # scalar denominators built from vectors are fine
        (c + b / VectorNorm(a), c, None, "division by a norm"), (c + b / VectorDot(a, b), c, None, "division by a dot product")]
    n = 0
    for arg, unk, want, why in table:
        for red in (True, False):
            n += 1
            try:
                solve_for_vector(arg, unk, reduce_factor=red)
                got = None
                msg = ""
            except Exception as e:  # pylint: disable=broad-except
                got = qx.err_class(e)
                msg = f"{type(e).__name__}: {e}"[:200]
            if got != want and got is not None and want is not None:
                # refused as the property requires, with another exception class than the docstring's: noted only
                ctx.coverage.setdefault("refusal_class_differs", []).append(f"{arg} for {unk}: {msg}")
                continue
            if got != want:
                ctx.violation(f"C16:refusal:{why}" if why.startswith(W + " (") else f"C16:refusal:{arg}:{unk}" + ("" if W in why else f":{red}"),
                    f"solve_for_vector({arg}, {unk}, reduce_factor={red}) [{why}]: outcome "
                    f"{msg or 'an equation'}, the model gives {'an equation' if want is None else ('TypeError' if want == E_TYPE else 'ValueError')}",
                    {"kind": "solve_for_vector-refusal", "argument": str(arg), "unknown": str(unk), "reduce": red, "observed": msg or "solved",
                     "expected_class": want, "theorem_or_tie": "refuses_non_vector / refuses_absent_vector / solves_present_vector"}, True)
    ctx.evaluated(n, n)
    ctx.coverage["refusals_enumerated"] = n


# ---------------------------------------------------------------------------------------------
# call histories: the model is a function of its arguments, so every call of a sequence on the same (or equal) expression
# objects, with changing unknown and reduce_factor, must answer like a first call -- also for symbols that print alike
# ---------------------------------------------------------------------------------------------

def history_setup(spec):
    """the objects of one history: spec = {nv, ns, same_name, terms, split}"""
    o = vx.Objs(spec["nv"], spec["ns"], same_name=spec["same_name"])
    terms = [(vtree.totuple(cf), vtree.totuple(v)) for cf, v in spec["terms"]]
    lhs_r, rhs_r = comb_recipe(terms[:spec["split"]]), comb_recipe(terms[spec["split"]:])
    if spec["split"] < len(terms):
        make = lambda: sympy.Eq(vx.build(lhs_r, o), vx.build(rhs_r, o), evaluate=False)
        expr_r = ("vadd", lhs_r, ("vscale", ("int", -1), rhs_r))
        signed = terms[:spec["split"]] + [(("smul", ("int", -1), cf), v) for cf, v in terms[spec["split"]:]]
    else:
        make = lambda: vx.build(lhs_r, o)
        expr_r, signed = lhs_r, terms
    return o, make, expr_r, signed


def history_step(o, arg, expr_r, signed, target, reduce, envs):
    """one call; returns (outcome text, failure text or None)"""
    from symplyphysics.core.experimental.solvers import solve_for_vector  # pylint: disable=import-outside-toplevel
    cands = contributions(signed, target)
    if cands and sympy.expand(sum((vx.comps_of_recipe(k) for k in cands), sympy.S.Zero)) == 0:
        cands = []                  # the terms of the vector cancel: it is not a term of the expression
    try:
        eq = solve_for_vector(arg, o.vecs[target], reduce_factor=reduce)
    except Exception as e:  # pylint: disable=broad-except
        out = f"{type(e).__name__}"
        return out, (None if not cands else f"refused ({type(e).__name__}: {e}) although the vector is a term"[:200])
    out = str(eq)
    if not cands:
        return out, "an equation is returned although the requested vector is not a term of the expression"
    c = vx.OutCtx(o)
    subsets = [sum_recipe(list(x)) for k in range(1, len(cands) + 1) for x in itertools.combinations(cands, k)]
    try:
        vals = [(env, vx.eval_sympy(eq.lhs, c, env, "v"), vx.eval_sympy(eq.rhs, c, env, "v"), vx.eval_recipe(expr_r, env)) for env in envs]
    except (vx.Unsupported, KeyError) as e:
        return out, f"the answer mentions objects that are not in the expression ({e})"[:200]
    d = lambda lv, rv: vx.v_add(lv, vx.v_scale(Fraction(-1), rv))
    if reduce:
        if eq.lhs is not o.vecs[target]:
            return out, "the left-hand side is not the requested vector object"
        for K in subsets:
            ks = [vx.eval_recipe(K, env) for env, *_ in vals]
            if all(k != 0 and vx.close(d(lv, rv), vx.v_scale(1 / k, ev)) for k, (env, lv, rv, ev) in zip(ks, vals)):
                return out, None
        env, lv, rv, ev = vals[0]
        return out, (f"lhs - rhs = {vx.show_value(d(lv, rv))} is not expr / k (expr = {vx.show_value(ev)}, k in "
            f"{[str(vx.eval_recipe(K, env)) for K in subsets]}) at {env.to_json()['vectors']}, scalars {env.to_json()['scalars']}")
    for env, lv, rv, ev in vals:
        if not vx.close(d(rv, lv), ev):
            return out, (f"rhs - lhs = {vx.show_value(d(rv, lv))} is not expr = {vx.show_value(ev)} at {env.to_json()['vectors']}, "
                f"scalars {env.to_json()['scalars']}")
    return out, None


def run_history(spec, envs):
    """executes the whole sequence; returns [(step, outcome, failure)]"""
    o, make, expr_r, signed = history_setup(spec)
    args = [make(), make()]                     # the same object again and again, and an equal one
    log = []
    for i, (target, reduce, which) in enumerate(spec["calls"]):
        out, fail = history_step(o, args[which], expr_r, signed, target, reduce, envs)
        log.append((i, out, fail))
    return log


def history_cases(ctx):
    rng = ctx.rng
    cap = Capped(ctx, 6)
    nseq = ctx.pick(40, 300)
    ncalls = 0
    kinds = ["sym", "sym", "int", "minus1", "sum", "intsym", "prod"]
    for q in range(nseq):
        nv = rng.randint(3, 5)
        present = rng.sample(range(nv), rng.randint(2, nv - 1))
        terms = [(gen_coef(rng, nv, 3, rng.choice(kinds)), V(i)) for i in present]
        if rng.random() < 0.3:
            terms.append((gen_coef(rng, nv, 3, "sym"), V(rng.choice(present))))          # a vector occurring in two terms
        split = rng.randrange(1, len(terms)) if rng.random() < 0.3 else len(terms)
        absent = [i for i in range(nv) if i not in present]
        calls = []
        for _ in range(rng.randint(3, 7)):
            target = rng.choice(absent) if rng.random() < 0.3 else rng.choice(present)
            calls.append((target, rng.random() < 0.5, rng.randrange(2)))
        spec = {"nv": nv, "ns": 3, "same_name": rng.random() < 0.5, "terms": terms, "split": split, "calls": calls}
        envs = [vtree.rand_env(rng, nv, 3, small=False) for _ in range(3)]
        log = run_history(spec, envs)
        ncalls += len(log)
        for i, out, fail in log:
            if fail:
                names = "abcdefgh"
                shown = vx.show_recipe(comb_recipe([(cf, v) for cf, v in terms]))
                seq = "; ".join(f"solve({names[t]}{'' if r else ', reduce_factor=False'})" for t, r, _w in calls[:i + 1])
                cap.violation(f"C16:history:{shown}:{seq}", f"after the calls [{seq}] on {shown}"
                    + (" (all vector symbols are displayed as 'v')" if spec["same_name"] else "") + f": call {i + 1} returns {out} -- {fail}",
                    {"kind": "history", "spec": spec, "envs": [e.to_json() for e in envs], "failing_call": i, "observed": out, "why": fail,
                     "expected": "the answer of a first call (the model has no state)", "theorem_or_tie": "solve_reduce / solve_noreduce / "
                     "refuses_absent_vector on every call of a sequence"}, True)
                break
    ctx.evaluated(ncalls, nseq)
    ctx.coverage["histories"] = {"sequences": nseq, "calls": ncalls, "reported": cap.n, "not_reported_individually": cap.suppressed,
        "shape": "3-7 calls per expression on the same object and on an equal one, unknown present (70%) or absent, reduce_factor on/off, "
                 "half of the sequences with all vector symbols sharing one display name, a vector in two terms in 30%"}


# ---------------------------------------------------------------------------------------------
# solve_for_scalar
# ---------------------------------------------------------------------------------------------

X, Y = 3, 4      # indices of the unknowns among the scalar symbols s0..s4


def scalar_templates(rng):
    ri = lambda: ("int", rng.choice([-3, -2, 2, 3, 5]))
    k1, k2, k3 = S_(0), S_(1), S_(2)
    x, y = S_(X), S_(Y)
    mul = lambda a, b: ("smul", a, b)
    add = lambda a, b: ("sadd", a, b)
    neg = lambda a: ("smul", ("int", -1), a)
    c1, c3 = rng.sample([-3, -2, 2, 3, 5, 7], 2)
    return [
        # name, equations [(lhs, rhs)], unknowns, hypotheses (Coq), nonzero product for field
        ("linear", [(add(mul(k1, x), k2), ("int", 0))], [X], ["s0 <> 0"], "s0"),
        ("linear_int", [(add(mul(("int", c1), x), mul(ri(), k1)), add(mul(("int", c3), x), k2))], [X], [], "1"),
        ("shifted_ratio", [(("sdiv", add(x, neg(k1)), k2), k3)], [X], ["s1 <> 0"], "s1"),
        ("reciprocal", [(("sdiv", k1, x), k2)], [X], ["s0 <> 0", "s1 <> 0"], "s0 * s1"),
        ("square", [(mul(x, x), k1)], [X], ["0 <= s0"], None),
        ("quadratic", [(add(mul(x, x), neg(mul(mul(("int", 2), k1), x))), k2)], [X], ["0 <= s0 * s0 + s1"], None),
        ("system", [(add(x, y), k1), (add(x, neg(y)), k2)], [X, Y], [], "1"),
        ("system_sym", [(add(mul(k1, x), y), k2), (add(x, neg(y)), k3)], [X, Y], ["s0 + 1 <> 0"], "(s0 + 1)"),
        ("norm_coefficient", [(mul(("norm", V(0)), x), k1)], [X], ["norm v0 <> 0"], "(norm v0)"),
        ("norm_rhs", [(mul(k1, x), add(("norm", V(1)), k2))], [X], ["s0 <> 0"], "s0"),
    ]


def extraneous_templates(rng):
    """equations whose candidate-root set (after squaring / clearing denominators) contains a spurious root that sorts first.
    Integer constants, so that the genuine root is an integer literal.  (name, equations, unknowns, hyps, proof, positive, strict)"""
    x = S_(X)
    I = lambda n: ("int", n)
    add = lambda a, b: ("sadd", a, b)
    mul = lambda a, b: ("smul", a, b)
    out = []
    # sqrt(x + a) = x - b  with genuine root r = b + m (m >= 2) and spurious root b + 1 - m < r
    m = rng.choice([2, 3, 4])
    b = rng.choice([0, 1, 2, 3])
    r = b + m
    a = m * m - r
    for positive in (False, True):
        if positive and b + 1 - m <= 0:
            b2 = m                      # keeps the spurious root positive as well
            r2, a2 = b2 + m, m * m - (b2 + m)
        else:
            b2, r2, a2 = b, r, a
        proof = (f"intros. cbv beta. replace ({r2} + {vx.zlit(a2)}) with ({m} * {m}) by ring. rewrite sqrt_square by lra. ring.")
        out.append(("radical" + ("_positive" if positive else ""), [(("ssqrt", add(x, I(a2))), add(x, I(-b2)))], [X], [], proof, positive, False))
    # sqrt(c x + d) = x   (c x + d = x^2 with roots p > 0 > q):  c = p + q, d = -p q
    pr, q = rng.choice([(3, -1), (4, -1), (5, -2), (6, -2)])
    c, d = pr + q, -pr * q
    proof = f"intros. cbv beta. replace ({c} * {pr} + {d}) with ({pr} * {pr}) by ring. rewrite sqrt_square by lra. ring."
    out.append(("radical_linear", [(("ssqrt", add(mul(I(c), x), I(d))), x)], [X], [], proof, False, False))
    out.append(("radical_linear_positive", [(("ssqrt", add(mul(I(c), x), I(d))), x)], [X], [], proof, True, False))
    # ((x - a)(x - b)) / (x - a) = c : genuine root b + c, spurious root a < b + c (the equation is undefined there)
    a_, b_ = rng.choice([(1, 2), (2, 5), (-1, 3), (0, 4)])
    c_ = rng.choice([1, 3, 4])
    num = mul(add(x, I(-a_)), add(x, I(-b_)))
    proof = "intros. cbv beta. first [ lra | field; lra ]."
    out.append(("rational_removable", [(("sdiv", num, add(x, I(-a_))), I(c_))], [X], [], proof, False, True))
    # x / (x - a) = a / (x - a) + k : clearing the denominator gives x = a + k (x - a), i.e. (1 - k)(x - a) = 0
    out.append(("rational_sum", [(add(("sdiv", I(a_ + 7), add(x, I(-a_))), x), add(("sdiv", I(a_ + 7), add(x, I(-a_))), I(a_ + c_)))], [X], [],
        "intros. cbv beta. first [ lra | field; lra ].", False, True))
    # the same radical with a norm added on both sides, and with a symbolic common coefficient
    proof = (f"intros. cbv beta. replace ({r} + {vx.zlit(a)}) with ({m} * {m}) by ring. rewrite sqrt_square by lra. ring.")
    out.append(("radical_plus_norm", [(add(("ssqrt", add(x, I(a))), ("norm", V(0))), add(add(x, I(-b)), ("norm", V(0))))], [X], [], proof,
        False, False))
    out.append(("radical_scaled", [(mul(S_(0), ("ssqrt", add(x, I(a)))), mul(S_(0), add(x, I(-b))))], [X], ["s0 <> 0"], proof, False, False))
    # sqrt(x + k^2) = x - 2 with a symbolic parameter: sympy cannot verify the candidates
    out.append(("radical_parametric", [(("ssqrt", add(x, mul(S_(0), S_(0)))), add(x, I(-2)))], [X], [],
        "intros. cbv beta. timeout 30 (solve [nsatz]).", False, False))
    return out


def solve_scalar_cases(ctx):
    from symplyphysics.core.experimental.solvers import solve_for_scalar  # pylint: disable=import-outside-toplevel
    rng = ctx.rng
    lemmas, info = [], {}
    n = 0
    for rep in range(ctx.pick(3, 12)):
        templates = [(name, eqs, unknowns, hyps, prod, None, False, False) for name, eqs, unknowns, hyps, prod in scalar_templates(rng)]
        templates += [(name, eqs, unknowns, hyps, "custom", proof, positive, strict)
            for name, eqs, unknowns, hyps, proof, positive, strict in extraneous_templates(rng)]
        for name, eqs, unknowns, hyps, prod, custom_proof, positive, strict in templates:
            n += 1
            nv, ns = 2, 5
            o = vx.Objs(nv, ns)
            if positive:
                for u in unknowns:
                    o.scals[u] = sympy.Symbol(f"s{u}", positive=True)
            objs = [sympy.Eq(vx.build(l, o), vx.build(r, o), evaluate=False) for l, r in eqs]
            shown = "; ".join(f"{vx.show_recipe(l)} = {vx.show_recipe(r)}" for l, r in eqs)
            base = {"kind": "solve_for_scalar", "template": name, "equations": shown}
            arg = objs[0] if len(objs) == 1 else objs
            sym = o.scals[unknowns[0]] if len(unknowns) == 1 else [o.scals[u] for u in unknowns]
            try:
                sols = solve_for_scalar(arg, sym)
            except Exception as e:  # pylint: disable=broad-except
                if name == "radical_parametric":
                    # no equation is returned, so nothing unsound is claimed (sympy cannot verify either candidate)
                    ctx.coverage.setdefault("solve_for_scalar_refused", []).append(f"{shown}: {type(e).__name__}")
                    continue
                ctx.violation(f"C16:sfs:exception:{name}", f"solve_for_scalar({shown}) raises {type(e).__name__}: {e}"[:300],
                    {**base, "observed": f"{type(e).__name__}: {e}"[:300], "expected": "equations"}, True)
                continue
            base["observed"] = str(sols)
            c = vx.OutCtx(o)
            sol = {}
            if any(not isinstance(e, sympy.Eq) for e in sols):
                ctx.violation(f"C16:sfs:{name}", f"solve_for_scalar({shown}) returns {sols}: an answer that contradicts the assumptions on the "
                    "unknown collapses to a truth value instead of an equation", {**base, "expected": "equations satisfied by the solution"}, True)
                continue
            try:
                for e in sols:
                    idx = o.scals.index(e.lhs)
                    sol[idx] = (vx.coq_of_sympy(e.rhs, c, "s"), e.rhs)
            except (vx.Unsupported, ValueError) as e:
                ctx.violation(f"C16:sfs:unmodelled:{name}", f"result of solve_for_scalar outside the vocabulary: {e}",
                    {**base, "kind": "broken-tie", "theorem_or_tie": "vx.coq_of_sympy"}, False)
                continue
            if set(sol) != set(unknowns):
                ctx.violation(f"C16:sfs:{name}", f"solve_for_scalar({shown}) returns {sols}: not one equation per unknown",
                    {**base, "expected": "one equation per requested symbol"}, True)
                continue
            # numeric check first (search): substitute the returned values into the recipe of every equation
            bad = None
            for _ in range(6):
                env = vtree.rand_env(rng, nv, ns)
                env.scals = [abs(s) for s in env.scals]            # keeps the square roots real
                try:
                    for u in unknowns:
                        env.scals[u] = vx.eval_sympy(sol[u][1], c, env, "s")
                    for l, r in eqs:
                        try:
                            lv, rv = vx.eval_recipe(l, env), vx.eval_recipe(r, env)
                        except (ZeroDivisionError, ValueError) as ex:
                            if strict or (custom_proof is not None and isinstance(ex, ValueError)):
                                bad = (env, l, r, f"undefined ({type(ex).__name__}: {ex})", "")      # the equation is undefined there
                                break
                            raise
                        if not vx.close(lv, rv):
                            bad = (env, l, r, lv, rv)
                except (ZeroDivisionError, ValueError):
                    continue
                if bad:
                    break
            if bad:
                env, l, r, lv, rv = bad
                ctx.violation(f"C16:sfs:{name}", f"solve_for_scalar({shown}) returns {sols}, which does not satisfy the equation: "
                    f"{show(lv)} <> {show(rv)}", {**base, "env": env.to_json(), "lhs": show(lv), "rhs": show(rv),
                    "expected": "the returned value satisfies every equation"}, True)
                continue
            params = " ".join(f"s{j}" for j in range(ns) if j not in unknowns)
            sqrts = sorted({t for t in collect_sqrt(" ".join(v[0] for v in sol.values()))})
            for ei, (l, r) in enumerate(eqs):
                body = f"{vx.coq_of_recipe(l)} = {vx.coq_of_recipe(r)}"
                fun = "fun " + " ".join(f"s{u}" for u in unknowns) + f" => {body}"
                app = " ".join(f"({sol[u][0]})" for u in unknowns)
                stmt = f"forall (v0 v1 : V3) ({params} : R), " + "".join(f"{h} -> " for h in hyps) + f"({fun}) {app}"
                if custom_proof is not None:
                    proof = custom_proof
                elif prod is None:
                    steps = ["intros. cbv beta."]
                    for si, sq in enumerate(sqrts):
                        steps.append(f"assert (Hq{si} : sqrt ({sq}) * sqrt ({sq}) = {sq}) by (apply sqrt_sqrt; nra).")
                        steps.append(f"set (q{si} := sqrt ({sq})) in *. clearbody q{si}.")
                    steps.append("timeout 60 (solve [nsatz]).")
                    proof = "\n".join(steps)
                else:
                    proof = f"intros. cbv beta. v3_goal. timeout 60 (first [ ring | (field; side ({prod})) ])."
                lname = f"sfs_{n}_{ei}"
                lemmas.append(coqrun.Lemma(lname, stmt, proof, shown))
                info[lname] = base
    res = coqrun.prove_lemmas(ctx, "sfs", PREAMBLE, lemmas, per_file=6, timeout=600) if lemmas else {}
    ok = sum(v == "ok" for v in res.values())
    ctx.obligations(len(lemmas), ok)
    for lname, st in res.items():
        if st != "ok":
            b = info[lname]
            ctx.violation(f"C16:sfs-proof:{b['template']}", f"could not prove that {b['observed']} satisfies {b['equations']}",
                {**b, "kind": "broken-proof", "theorem_or_tie": f"generated lemma {lname}", "coq_error": st[-400:]}, False)
    ctx.evaluated(n, len({b["template"] for b in info.values()}))
    ctx.coverage["solve_for_scalar"] = {"cases": n, "lemmas": len(lemmas), "proved": ok}
    if lemmas:
        ctx.sample({"stream": "solve_for_scalar", "equations": info[lemmas[0].name]["equations"],
            "returned": info[lemmas[0].name]["observed"], "lemma": lemmas[0].statement[:300]})


def collect_sqrt(text):
    """arguments of (sqrt ...) in Coq text produced by vx (balanced parentheses)"""
    out = []
    i = 0
    while True:
        i = text.find("(sqrt ", i)
        if i < 0:
            return out
        j = i + 6
        depth = 0
        k = j
        while k < len(text):
            if text[k] == "(":
                depth += 1
            elif text[k] == ")":
                if depth == 0:
                    break
                depth -= 1
            k += 1
        out.append(text[j:k])
        i = k


def show(v):
    return v if isinstance(v, str) else vx.show_value(v)


# ---------------------------------------------------------------------------------------------
# apply
# ---------------------------------------------------------------------------------------------

def apply_cases(ctx):
    from symplyphysics.core.experimental.solvers import apply  # pylint: disable=import-outside-toplevel
    from symplyphysics.core.experimental.vectors import VectorSymbol, VectorNorm, VectorDot, VectorCross  # pylint: disable=import-outside-toplevel
    a, b, c = (VectorSymbol(n) for n in "abc")
    k, m = sympy.symbols("k m", real=True)
    Eq = sympy.Eq
    vec_eqs = [Eq(a, k * b), Eq(a + c, b * m - c), a - k * b, k * a + VectorCross(b, c), Eq(a / VectorNorm(a), b / VectorNorm(b))]
    sc_eqs = [Eq(m, k**2 - k), m - k**2 + k, Eq(VectorDot(a, b), k), VectorNorm(a) - m]
    vec_fs = [("dot with c", lambda s: VectorDot(s, c)), ("cross with c", lambda s: VectorCross(s, c)), ("norm", VectorNorm),
        ("plus a", lambda s: s + a), ("times k", lambda s: s * k), ("identity", lambda s: s)]
    sc_fs = [("plus k", lambda s: s + k), ("square", lambda s: s**2), ("times m", lambda s: s * m), ("identity", lambda s: s)]
    from symplyphysics.core.experimental.vectors import VectorMixedProduct  # pylint: disable=import-outside-toplevel
    # bare (non-Eq) inputs whose top node is each node class: they all mean `expr = 0`
    vec_eqs += [VectorCross(a, b), VectorCross(a, b, evaluate=False), a, k * a, sympy.Mul(k, VectorCross(a, b), evaluate=False),
        sympy.Add(a, b, evaluate=False), sympy.S.Zero]
    sc_eqs += [VectorDot(a, b), VectorDot(a, b, evaluate=False), VectorDot(a + b, c), VectorNorm(a), VectorNorm(a + b, evaluate=False),
        VectorMixedProduct(a, b, c), VectorMixedProduct(a, b, c, evaluate=False), k, sympy.Integer(3), sympy.Rational(1, 2), k * m,
        k * VectorDot(a, b), VectorDot(a, b) + m, VectorDot(a, b)**2]
    n = 0
    for eqs, fs in ((vec_eqs, vec_fs), (sc_eqs, sc_fs)):
        for e in eqs:
            for fname, f in fs:
                n += 1
                lhs, rhs = (e.lhs, e.rhs) if isinstance(e, sympy.Eq) else (e, sympy.S.Zero)
                want = (f(lhs), f(rhs))
                try:
                    got = apply(e, f)
                    obs = (got.lhs, got.rhs) if isinstance(got, sympy.Eq) else None
                except Exception as ex:  # pylint: disable=broad-except
                    got, obs = f"{type(ex).__name__}: {ex}", None
                if obs is None or sympy.srepr(obs[0]) != sympy.srepr(want[0]) or sympy.srepr(obs[1]) != sympy.srepr(want[1]):
                    ctx.violation(f"C16:apply:{e}:{fname}", f"apply({e}, {fname}) returns {got}; both sides transformed would be "
                        f"Eq({want[0]}, {want[1]})", {"kind": "apply", "equation": str(e), "function": fname, "observed": str(got),
                        "expected": f"Eq({want[0]}, {want[1]})", "theorem_or_tie": "apply_both_sides"}, True)
    ctx.evaluated(n, n)
    ctx.coverage["apply_cases"] = n


# ---------------------------------------------------------------------------------------------

def run(ctx):
    sys.setrecursionlimit(3000)
    ctx.level = "proof"
    ctx.static(STATIC)
    ctx.trust("Coq 8.16.1 kernel; axioms of Coq.Reals as listed under axioms",
        "harness/vp/vx.py: recipe -> Coq, SymPy output tree -> Coq (fail-closed), own evaluators",
        "SymPy expand / Add / Mul (which terms a combination has is observed; the identity proved per case is about the recipe)",
        "sympy.solve (its result is checked per case, not trusted)")
    ctx.assume("scalars are real, vectors real 3-vectors; the coefficient of the chosen term is non-zero (hypothesis of each lemma)",
        "Model/Solve.v identifies vectors by an index (vector_equals is modelled as equality of the irreducible vector terms)")
    solve_vector_cases(ctx)
    solve_vector_complex_cases(ctx)
    ctx.log("solve_for_vector done")
    refusal_cases(ctx)
    history_cases(ctx)
    ctx.log("histories done")
    solve_scalar_cases(ctx)
    ctx.log("solve_for_scalar done")
    apply_cases(ctx)
    ctx.coverage["rule"] = ("solve_for_vector: seeded linear combinations, n = 1..5 terms, the unknown at every position, coefficient and "
        "vector kinds as listed under solve_for_vector.shapes; distinct = distinct (expression, unknown, mode); every case is "
        "non-trivial (an actual rearrangement).  refusals and apply: fixed enumerations.  solve_for_scalar: 10 equation templates with "
        "seeded integer constants")


def replay(ctx, rep):
    import json  # pylint: disable=import-outside-toplevel
    sys.setrecursionlimit(3000)
    kind = rep.get("kind")
    if kind == "history":
        spec = rep["spec"]
        spec["calls"] = [tuple(x) for x in spec["calls"]]
        log = run_history(spec, [vx.Env.from_json(e) for e in rep["envs"]])
        names = "abcdefgh"
        rc = 0
        for (i, out, fail), (t, r, w) in zip(log, spec["calls"]):
            print(f"call {i + 1}: solve_for_vector(<expr #{w}>, {names[t]}, reduce_factor={r}) -> {out}" + (f"   WRONG: {fail}" if fail else ""))
            rc = rc or (1 if fail else 0)
        print("REPRODUCED" if rc else "every call answers like a first call")
        return rc
    if kind == "solve_for_vector" and rep.get("recipe_lhs"):
        from symplyphysics.core.experimental.solvers import solve_for_vector  # pylint: disable=import-outside-toplevel
        o = vx.Objs(rep["nv"], rep["ns"])
        lhs_r = vtree.totuple(rep["recipe_lhs"])
        if rep.get("recipe_rhs"):
            rhs_r = vtree.totuple(rep["recipe_rhs"])
            arg = sympy.Eq(vx.build(lhs_r, o), vx.build(rhs_r, o), evaluate=False)
            expr_r = ("vadd", lhs_r, ("vscale", ("int", -1), rhs_r))
        else:
            arg = vx.build(lhs_r, o)
            expr_r = lhs_r
        print("input   :", arg, " unknown:", o.vecs[rep["unknown"]], " reduce_factor:", rep["reduce"])
        try:
            eq = solve_for_vector(arg, o.vecs[rep["unknown"]], reduce_factor=rep["reduce"])
        except Exception as e:  # pylint: disable=broad-except
            print("raises  :", type(e).__name__, e)
            print("REPRODUCED" if "refused" in rep.get("key", "") else "different outcome")
            return 1
        print("returned:", eq)
        if rep.get("env"):
            env = vx.Env.from_json(rep["env"])
            c = vx.OutCtx(o)
            lv, rv = vx.eval_sympy(eq.lhs, c, env, "v"), vx.eval_sympy(eq.rhs, c, env, "v")
            ev = vx.eval_recipe(expr_r, env)
            print("at      :", rep["env"])
            d = vx.v_add(lv, vx.v_scale(Fraction(-1), rv))
            print("lhs-rhs :", vx.show_value(d), "  expr:", vx.show_value(ev))
            if rep["reduce"]:
                ks = [vx.eval_recipe(vtree.totuple(K), env) for K in rep.get("coefficient_recipes") or []]
                print("coefficients of the unknown:", [str(k) for k in ks])
                holds = any(k != 0 and vx.close(d, vx.v_scale(1 / k, ev)) for k in ks)
            else:
                holds = vx.close(vx.v_scale(Fraction(-1), d), ev)
            print("property holds on this input" if holds else "REPRODUCED: the sides do not differ by expr / k (resp. by expr)")
            return 0 if holds else 1
        return 0
    print(json.dumps({k: rep.get(k) for k in ("key", "what", "kind", "observed", "expected", "theorem_or_tie", "coq_error")}, indent=1))
    return 0
