"""C11 -- changing coordinate system preserves the geometric vector and scalar field.

static theorems : coq/theories/Properties/C11.v   (about Model/Coords.v, proved in Proofs/CoordsProofs.v,
                  two-argument arctangent in Base/Atan2.v)
tie             : translator.  Every LEG of the implementation (transformation tables, Vector.rebase in each
                  direction and for short vectors, dot_vectors / vector_magnitude / scale_vector per system,
                  ScalarField.rebase / __call__) is run on generic symbols, its output is serialised with sx.py
                  into a Coq definition `impl_*`, and a generated lemma `corr_*` states impl_* = model formula.
                  The round trips / invariances are then COMPOSED inside Coq on the impl_* definitions
                  (`comp_*` lemmas), so SymPy's own trig simplification is never part of the argument.
                  Finite refusal tables are enumerated exhaustively and compared with the model by vm_compute.
search          : specification predicates written from the property text, evaluated on the real code at
                  seeded concrete points away from the singularities (also the value-obliviousness check:
                  concrete runs must agree with the generic output and with the model formulas)."""
from __future__ import annotations

import math

import sympy as sp
from sympy.core.function import AppliedUndef

from vp import coqrun, sx

STATIC = [
    "cart_cyl_cart", "cart_sph_cart", "cyl_cart_cyl", "sph_cart_sph", "cyl_cart_cyl_any_angle", "rebase_same_point",
    "dot_cyl_is_cart_dot", "dot_sph_is_cart_dot", "dot_cart_via_cyl", "dot_cart_via_sph",
    "magnitude_is_cart_magnitude", "scale_cyl_commutes", "scale_sph_commutes",
    "field_cart_to_curv", "field_curv_to_cart", "field_invariance",
    "rebase_refused_iff", "field_rebase_refused_iff", "typed_point_refused_iff",
    "rotation_roundtrip", "rotation_preserves_dot", "dot_curv_rotated", "curv_rotated_roundtrip",
    "point_absent_is_zero", "point_set_then_get", "point_set_keeps_others", "point_set_length",
]

PREAMBLE = """From Coq Require Import Reals Lra Lia Psatz Field List ZArith Bool.
From VP Require Import Base.Util Base.RTac Base.Atan2 Model.Coords Proofs.CoordsProofs.
Import ListNotations.
Local Open Scope R_scope.
"""

SYSN = ["Cart", "Cyl", "Sph"]          # Coq constructor names, index = System enum value
LOW = {"Cart": "cart", "Cyl": "cyl", "Sph": "sph"}
TOL = 1e-9


# ---------------------------------------------------------------------------------------------------------
# the implementation
# ---------------------------------------------------------------------------------------------------------

class Api:
    def __init__(self):
        # pylint: disable=import-outside-toplevel
        from symplyphysics.core.coordinate_systems.coordinate_systems import CoordinateSystem, coordinates_transform
        from symplyphysics.core.vectors.vectors import Vector
        from symplyphysics.core.vectors.arithmetics import (dot_vectors, vector_magnitude, scale_vector, vector_unit,
            project_vector)
        from symplyphysics.core.fields.scalar_field import ScalarField
        from symplyphysics.core.points.point import Point
        from symplyphysics.core.points.cartesian_point import CartesianPoint
        from symplyphysics.core.points.cylinder_point import CylinderPoint
        from symplyphysics.core.points.sphere_point import SpherePoint
        self.CoordinateSystem = CoordinateSystem
        self.S = CoordinateSystem.System
        self.types = [self.S.CARTESIAN, self.S.CYLINDRICAL, self.S.SPHERICAL]
        self.coordinates_transform = coordinates_transform
        self.Vector = Vector
        self.dot_vectors = dot_vectors
        self.vector_magnitude = vector_magnitude
        self.scale_vector = scale_vector
        self.vector_unit = vector_unit
        self.project_vector = project_vector
        self.ScalarField = ScalarField
        self.Point = Point
        self.points = [CartesianPoint, CylinderPoint, SpherePoint]
        # one Cartesian system and the two curvilinear ones derived from it (as the repo's tests do)
        cart = CoordinateSystem(self.S.CARTESIAN)
        self.sys = [cart, coordinates_transform(cart, self.S.CYLINDRICAL), coordinates_transform(cart, self.S.SPHERICAL)]

    def system(self, i):
        return self.sys[i]

    def fresh_view(self):
        """the same API on system objects nobody has used yet"""
        import copy  # pylint: disable=import-outside-toplevel
        v = copy.copy(self)
        cart = self.CoordinateSystem(self.S.CARTESIAN)
        v.sys = [cart, self.coordinates_transform(cart, self.S.CYLINDRICAL), self.coordinates_transform(cart, self.S.SPHERICAL)]
        return v

    AXES = ["x", "y", "z"]
    NAMES = [["x", "y", "z"], ["r", "theta", "z"], ["r", "theta", "phi"]]    # documented names, by position
    # coordinate_systems.py: spherical "theta - azimuthal angle, phi - polar angle"; points/*.py accessors
    ACCESSORS = [[["x"], ["y"], ["z"]], [["r", "radius"], ["theta", "azimuthal_angle"], ["z", "height"]],
                 [["r", "radius"], ["theta", "azimuthal_angle"], ["phi", "polar_angle"]]]

    def graph(self, axis, angle):
        """root Cartesian C, B = C rotated by `angle` about C's `axis`, curvilinear children of both, and an unrelated root"""
        from symplyphysics.core.coordinate_systems.coordinate_systems import coordinates_rotate  # pylint: disable=import-outside-toplevel
        C = self.CoordinateSystem(self.S.CARTESIAN)
        ax = {"x": C.coord_system.i, "y": C.coord_system.j, "z": C.coord_system.k}[axis]
        B = coordinates_rotate(C, angle, ax)
        tr = self.coordinates_transform
        U = self.CoordinateSystem(self.S.CARTESIAN)
        return {"C": C, "B": B, "Bc": [B, tr(B, self.S.CYLINDRICAL), tr(B, self.S.SPHERICAL)],
                "Cc": [C, tr(C, self.S.CYLINDRICAL), tr(C, self.S.SPHERICAL)],
                "Uc": [U, tr(U, self.S.CYLINDRICAL), tr(U, self.S.SPHERICAL)]}

    def rebase_obj(self, comps, src, tgt):
        arg = self.Vector(list(comps), src)
        with self.preserved("Vector.rebase", arg, tgt):
            v = arg.rebase(tgt)
        if v.coordinate_system is not tgt:
            raise AssertionError("rebase returned a vector in another system")
        return list(v.components)

    def fresh(self, i):
        """another system of kind i (for same-kind rebases)"""
        return self.coordinates_transform(self.sys[0], self.types[i])

    # -- every operation must leave its argument objects as they were ------------------------------------------
    def snapshot(self, o):
        if isinstance(o, self.Vector):
            return ("Vector", tuple(o.components), id(o.coordinate_system))
        if isinstance(o, self.ScalarField):
            return ("ScalarField", id(o.coordinate_system), id(o.field_function))
        if isinstance(o, self.Point):
            return ("Point", tuple(o.coordinates))
        if isinstance(o, self.CoordinateSystem):
            return ("CoordinateSystem", o.coord_system_type, id(o.coord_system))
        return ("other", repr(o))

    def preserved(self, what, *objs):
        api = self

        class Guard:
            def __enter__(self):
                self.before = [api.snapshot(o) for o in objs]

            def __exit__(self, et, ev, tb):
                if et is not None:
                    return False
                after = [api.snapshot(o) for o in objs]
                for i, (x, y) in enumerate(zip(self.before, after)):
                    if x != y:
                        raise InputMutated(f"{what} changed its argument #{i}: before {x[:2]}, after {y[:2]}")
                return False
        return Guard()

    # -- legs: each takes python/sympy values and returns sympy expressions --------------------------------
    def table(self, a, b, vals):
        s = self.sys[a]
        out = s.transformation_to_system(self.types[b])
        bs = s.coord_system.base_scalars()
        return [sp.sympify(e).xreplace(dict(zip(bs, map(sp.sympify, vals)))) for e in out]

    def rebase(self, a, b, comps):
        tgt = self.sys[b] if a != b else self.fresh(b)
        arg = self.Vector(list(comps), self.sys[a])
        with self.preserved("Vector.rebase", arg, tgt):
            v = arg.rebase(tgt)
        if v.coordinate_system is not tgt:
            raise AssertionError("rebase returned a vector in another system")
        return list(v.components)

    def dot(self, a, u, v):
        x, y = self.Vector(list(u), self.sys[a]), self.Vector(list(v), self.sys[a])
        with self.preserved("dot_vectors", x, y):
            return self.dot_vectors(x, y)

    def mag(self, a, u):
        x = self.Vector(list(u), self.sys[a])
        with self.preserved("vector_magnitude", x):
            return self.vector_magnitude(x)

    def scale(self, a, k, u):
        x = self.Vector(list(u), self.sys[a])
        with self.preserved("scale_vector", x):
            out = self.scale_vector(k, x)
        if out is x:
            raise InputMutated("scale_vector returned its argument object")
        return list(out.components)

    HOWS = ["expr", "lambda", "stored", "callable_object", "partial"]

    def field(self, a, expr_of_scalars, how="expr"):
        """a field in system a whose value is expr_of_scalars(q1, q2, q3), built in every way the API offers:
        from_expression / a lambda of the point / ScalarField(expr, system) holding a STORED expression in the base scalars /
        an object with __call__ / a functools.partial"""
        s = self.sys[a]
        bs = s.coord_system.base_scalars()
        by_point = lambda p: expr_of_scalars(p.coordinate(0), p.coordinate(1), p.coordinate(2))
        if how == "expr":
            return self.ScalarField.from_expression(expr_of_scalars(*bs), s)
        if how == "stored":
            return self.ScalarField(expr_of_scalars(*bs), s)
        if how == "callable_object":
            class PointFunction:
                def __call__(self, p):
                    return by_point(p)
            return self.ScalarField(PointFunction(), s)
        if how == "partial":
            import functools  # pylint: disable=import-outside-toplevel
            return self.ScalarField(functools.partial(lambda scale, p: scale * by_point(p), 1), s)
        return self.ScalarField(by_point, s)

    def field_rebased_at(self, a, b, expr_of_scalars, coords, how="expr", via="point"):
        """value at the point with coordinates `coords` (in system b) of the field rebased from a to b"""
        tgt = self.sys[b] if a != b else self.fresh(b)
        f0 = self.field(a, expr_of_scalars, how)
        with self.preserved("ScalarField.rebase", f0, tgt):
            g = f0.rebase(tgt)
        if g.coordinate_system is not tgt:
            raise AssertionError("field rebase returned a field in another system")
        if via == "point":
            pt = self.points[b](*coords)
            with self.preserved("ScalarField.__call__", g, pt):
                return g(pt)
        with self.preserved("ScalarField.apply_to_basis", g):
            e = g.apply_to_basis()
        return sp.sympify(e).xreplace(dict(zip(tgt.coord_system.base_scalars(), map(sp.sympify, coords))))

    def field_at(self, a, expr_of_scalars, coords, how="expr"):
        f0, pt = self.field(a, expr_of_scalars, how), self.points[a](*coords)
        with self.preserved("ScalarField.__call__", f0, pt):
            return f0(pt)


class InputMutated(AssertionError):
    pass


def refused(fn):
    """'value' | 'ValueError' | other exception class name"""
    try:
        fn()
        return "value"
    except Exception as e:  # pylint: disable=broad-except
        return type(e).__name__


# ---------------------------------------------------------------------------------------------------------
# specification side: coordinates of a physical point, written from the mathematics (python floats)
# ---------------------------------------------------------------------------------------------------------

def m_to_cart(s, p):
    a, b, c = p
    if s == 0:
        return (a, b, c)
    if s == 1:
        return (a * math.cos(b), a * math.sin(b), c)
    return (a * math.cos(b) * math.sin(c), a * math.sin(b) * math.sin(c), a * math.cos(c))


def m_from_cart(s, p):
    x, y, z = p
    if s == 0:
        return (x, y, z)
    if s == 1:
        return (math.hypot(x, y), math.atan2(y, x), z)
    r = math.sqrt(x * x + y * y + z * z)
    return (r, math.atan2(y, x), math.acos(z / r))


def m_to_parent(axis, al, p):
    x, y, z = p
    c, s_ = math.cos(al), math.sin(al)
    if axis == "z":
        return (x * c - y * s_, x * s_ + y * c, z)
    if axis == "x":
        return (x, y * c - z * s_, y * s_ + z * c)
    return (x * c + z * s_, y, -x * s_ + z * c)


def m_from_parent(axis, al, p):
    return m_to_parent(axis, -al, p)


def m_dot_cart(u, v):
    return sum(x * y for x, y in zip(u, v))


def num(e):
    """float value of a SymPy expression (complex results with a non-negligible imaginary part are nan)"""
    v = complex(sp.N(sp.sympify(e), 30))
    if abs(v.imag) > 1e-12 * (1 + abs(v.real)):
        return float("nan")
    return v.real


def close(a, b):
    return all(abs(x - y) <= TOL * (1 + abs(y)) for x, y in zip(a, b)) and len(a) == len(b)


def rnd(rng, lo, hi):
    return round(rng.uniform(lo, hi), 3)


def away(rng):
    """a non-zero coordinate, either sign, |v| in [0.2, 3]"""
    return rnd(rng, 0.2, 3.0) * rng.choice([1, -1])


def gen_point(rng, s):
    """coordinates in system s inside in_domain, away from the singular sets"""
    if s == 0:
        return (away(rng), away(rng), away(rng))
    if s == 1:
        return (rnd(rng, 0.2, 3.0), rnd(rng, -3.0, 3.0), away(rng))
    return (rnd(rng, 0.2, 3.0), rnd(rng, -3.0, 3.0), rnd(rng, 0.15, 2.9))


def dress(rng, vals):
    """the same numbers as Python floats, SymPy Floats or exact Rationals (the code must not care)"""
    mode = rng.choice(["float", "Float", "Rational"])
    if mode == "float":
        return [float(v) for v in vals], mode
    if mode == "Float":
        return [sp.Float(v) for v in vals], mode
    return [sp.Rational(str(v)) for v in vals], mode


FIELDS = {
    "const": lambda a, b, c: sp.Integer(7),
    "poly": lambda a, b, c: a * b + c**2 - 2 * a,
    "trig": lambda a, b, c: sp.sin(a) * c + sp.cos(b),
    "mixed": lambda a, b, c: a**2 * sp.exp(-c) + 3 * b,
    "third": lambda a, b, c: c,
    "second": lambda a, b, c: b + 0 * a,
}


class FreshProxy:
    """delegates to an Api whose system objects are renewed before every predicate evaluation: a specification predicate
    never depends on what was done before (histories are the business of `history_stream`)"""

    def __init__(self, base):
        self._base = base
        self._cur = base.fresh_view()

    def renew(self):
        self._cur = self._base.fresh_view()

    def __getattr__(self, name):
        return getattr(self._cur, name)


def spec_checks(base_api: Api):
    api = FreshProxy(base_api)
    checks = _spec_checks(api)

    def wrap(pred):
        def w(inp):
            api.renew()
            return pred(inp)
        return w
    return {k: (g, wrap(p)) for k, (g, p) in checks.items()}


def _spec_checks(api):
    """name -> (generator(rng) -> input dict, predicate(input) -> (ok, observed, expected)).  Every predicate
    calls the real code only and compares with what the property text demands."""
    checks = {}

    def roundtrip(a, b):
        def gen(rng):
            return {"coords": list(gen_point(rng, a)), "dress": rng.choice(["float", "Float", "Rational"])}

        def pred(inp):
            vals = _dress(inp["coords"], inp["dress"])
            there = api.rebase(a, b, vals)
            back = api.rebase(b, a, there)
            obs = [num(e) for e in back]
            # the intermediate components must denote the same point
            mid = m_to_cart(b, [num(e) for e in there])
            want_mid = m_to_cart(a, inp["coords"])
            return close(obs, inp["coords"]) and close(mid, want_mid), {"there": [num(e) for e in there], "back": obs}, \
                {"back": inp["coords"], "cartesian_position": list(want_mid)}
        return gen, pred

    for (a, b) in ((0, 1), (0, 2), (1, 0), (2, 0)):
        checks[f"roundtrip_{LOW[SYSN[a]]}_{LOW[SYSN[b]]}_{LOW[SYSN[a]]}"] = roundtrip(a, b)

    def dot_check(s):
        def gen(rng):
            return {"u": list(gen_point(rng, s)), "v": list(gen_point(rng, s)), "dress": rng.choice(["float", "Float", "Rational"])}

        def pred(inp):
            u, v = _dress(inp["u"], inp["dress"]), _dress(inp["v"], inp["dress"])
            d = num(api.dot(s, u, v))
            d2 = num(api.dot(0, api.rebase(s, 0, u), api.rebase(s, 0, v)))
            want = m_dot_cart(m_to_cart(s, inp["u"]), m_to_cart(s, inp["v"]))
            return close([d, d2], [want, want]), {"dot_curvilinear": d, "dot_after_rebase": d2}, {"dot": want}
        return gen, pred

    def mag_check(s):
        def gen(rng):
            return {"u": list(gen_point(rng, s)), "dress": rng.choice(["float", "Float", "Rational"])}

        def pred(inp):
            u = _dress(inp["u"], inp["dress"])
            m = num(api.mag(s, u))
            m2 = num(api.mag(0, api.rebase(s, 0, u)))
            c = m_to_cart(s, inp["u"])
            want = math.sqrt(m_dot_cart(c, c))
            return close([m, m2], [want, want]), {"magnitude_curvilinear": m, "magnitude_after_rebase": m2}, {"magnitude": want}
        return gen, pred

    def scale_check(s):
        def gen(rng):
            return {"k": away(rng), "u": list(gen_point(rng, s)), "dress": rng.choice(["float", "Float", "Rational"])}

        def pred(inp):
            u = _dress(inp["u"], inp["dress"])
            k = _dress([inp["k"]], inp["dress"])[0]
            lhs = [num(e) for e in api.rebase(s, 0, api.scale(s, k, u))]
            rhs = [num(e) for e in api.scale(0, k, api.rebase(s, 0, u))]
            want = [inp["k"] * c for c in m_to_cart(s, inp["u"])]
            return close(lhs, want) and close(rhs, want), {"rebase_of_scaled": lhs, "scaled_rebase": rhs}, {"cartesian": want}
        return gen, pred

    for s in (1, 2):
        n = LOW[SYSN[s]]
        checks[f"dot_{n}"] = dot_check(s)
        checks[f"magnitude_{n}"] = mag_check(s)
        checks[f"scale_{n}"] = scale_check(s)

    def field_check(a, b):
        def gen(rng):
            # the physical point is chosen through its coordinates in the curvilinear system (inside the domain)
            s = a if a != 0 else b
            return {"point_in": s, "coords": list(gen_point(rng, s)), "field": rng.choice(sorted(FIELDS)),
                    "how": rng.choice(Api.HOWS), "via": rng.choice(["point", "basis"]),
                    "dress": rng.choice(["float", "Float", "Rational"])}

        def pred(inp):
            cart = m_to_cart(inp["point_in"], inp["coords"])
            pa = inp["coords"] if inp["point_in"] == a else list(m_from_cart(a, cart))
            pb = inp["coords"] if inp["point_in"] == b else list(m_from_cart(b, cart))
            f = FIELDS[inp["field"]]
            want = num(f(*[sp.Float(v) for v in pa]))
            # a STORED expression is returned as is by __call__ (by design); only its rebased value can be judged
            old = want if inp["how"] == "stored" else num(api.field_at(a, f, _dress(pa, inp["dress"]), inp["how"]))
            new = num(api.field_rebased_at(a, b, f, _dress(pb, inp["dress"]), inp["how"], inp["via"]))
            return close([old, new], [want, want]), {"old_field_at_old_coords": old, "new_field_at_new_coords": new, "old_coords": pa, "new_coords": pb}, \
                {"value": want}
        return gen, pred

    for (a, b) in ((0, 1), (0, 2), (1, 0), (2, 0)):
        checks[f"field_{LOW[SYSN[a]]}_{LOW[SYSN[b]]}"] = field_check(a, b)

    def short_point_check(a):
        def gen(rng):
            return {"coords": list(gen_point(rng, a))[:rng.choice([1, 2])], "field": rng.choice(sorted(FIELDS)),
                    "how": rng.choice(["expr", "lambda"]), "dress": rng.choice(["float", "Float", "Rational"])}

        def pred(inp):
            f = FIELDS[inp["field"]]
            got = num(api.field_at(a, f, _dress(inp["coords"], inp["dress"]), inp["how"]))
            full = list(inp["coords"]) + [0.0] * (3 - len(inp["coords"]))
            want = num(f(*[sp.Float(v) for v in full]))
            return close([got], [want]), {"value": got}, {"value_with_missing_coordinates_read_as_0": want}
        return gen, pred

    for a in range(3):
        checks[f"field_shortpoint_{LOW[SYSN[a]]}"] = short_point_check(a)

    # ---- arithmetic on curvilinear vectors of every component count 0..3, negative / zero / positive scalars ----------
    def arith_short(s):
        def gen(rng):
            return {"u": list(gen_point(rng, s))[:rng.randrange(4)], "w": list(gen_point(rng, s))[:rng.choice([3, 3, 2, 1])],
                    "k": rng.choice([away(rng), -rnd(rng, 0.2, 3.0), -3, 0, 2, -2.5]), "dress": rng.choice(["float", "Float", "Rational"])}

        def pred(inp):
            pad3 = lambda xs: list(xs) + [0.0] * (3 - len(xs))
            kf = float(inp["k"])
            k = inp["k"] if not isinstance(inp["k"], float) else _dress([inp["k"]], inp["dress"])[0]
            u, w = _dress(inp["u"], inp["dress"]), _dress(inp["w"], inp["dress"])
            cu, cw = m_to_cart(s, pad3(inp["u"])), m_to_cart(s, pad3(inp["w"]))
            scaled = api.scale(s, k, u)
            got = {"scaled": [num(e) for e in scaled],
                   "scaled_then_rebased": pad3([num(e) for e in api.rebase(s, 0, scaled)]),
                   "dot(scaled,w)": num(api.dot(s, scaled, w)), "dot(u,w)": num(api.dot(s, u, w)),
                   "magnitude(scaled)": num(api.mag(s, scaled))}
            want = {"scaled_then_rebased": [kf * c for c in cu], "dot(scaled,w)": kf * m_dot_cart(cu, cw), "dot(u,w)": m_dot_cart(cu, cw),
                    "magnitude(scaled)": abs(kf) * math.sqrt(m_dot_cart(cu, cu))}
            ok = close(got["scaled_then_rebased"], want["scaled_then_rebased"]) and \
                close([got[x] for x in ("dot(scaled,w)", "dot(u,w)", "magnitude(scaled)")], [want[x] for x in ("dot(scaled,w)", "dot(u,w)", "magnitude(scaled)")])
            return ok, got, want
        return gen, pred

    for s in (1, 2):
        checks[f"arith_short_{LOW[SYSN[s]]}"] = arith_short(s)

    # ---- graphs of systems: a frame rotated with coordinates_rotate, and curvilinear children of both frames -----------
    def gen_graph(s, with_field=False):
        def gen(rng):
            inp = {"axis": rng.choice(Api.AXES), "angle": rnd(rng, 0.3, 2.8) * rng.choice([1, -1]), "coords": list(gen_point(rng, s)),
                   "cart": [away(rng), away(rng), away(rng)], "dress": rng.choice(["float", "Float", "Rational"])}
            if with_field:
                inp.update({"field": rng.choice(sorted(FIELDS)), "how": rng.choice(["expr", "lambda", "stored"])})
            return inp
        return gen

    def setup(inp):
        return api.graph(inp["axis"], _dress([inp["angle"]], inp["dress"])[0])

    def curv_to_root(s):
        def pred(inp):
            g = setup(inp)
            p = _dress(inp["coords"], inp["dress"])
            direct = [num(e) for e in api.rebase_obj(p, g["Bc"][s], g["C"])]
            mid = api.rebase_obj(p, g["Bc"][s], g["B"])
            two = [num(e) for e in api.rebase_obj(mid, g["B"], g["C"])]
            want = list(m_to_parent(inp["axis"], inp["angle"], m_to_cart(s, inp["coords"])))
            return close(direct, want) and close(two, want), {"direct": direct, "via_own_cartesian_parent": two}, {"components_in_root": want}
        return gen_graph(s), pred

    def root_to_curv(s):
        def pred(inp):
            g = setup(inp)
            got = [num(e) for e in api.rebase_obj(_dress(inp["cart"], inp["dress"]), g["C"], g["Bc"][s])]
            want = list(m_from_cart(s, m_from_parent(inp["axis"], inp["angle"], inp["cart"])))
            return close(got, want), {"direct": got}, {"coordinates_in_child_of_rotated_frame": want}
        return gen_graph(s), pred

    def curv_to_curv(s):
        def pred(inp):
            g = setup(inp)
            got = [num(e) for e in api.rebase_obj(_dress(inp["coords"], inp["dress"]), g["Cc"][s], g["Bc"][s])]
            want = list(m_from_cart(s, m_from_parent(inp["axis"], inp["angle"], m_to_cart(s, inp["coords"]))))
            return close(got, want), {"direct": got}, {"coordinates_in_child_of_rotated_frame": want}
        return gen_graph(s), pred

    def field_graph(s, direction):
        def pred(inp):
            g = setup(inp)
            f = FIELDS[inp["field"]]
            src, tgt, ts = (g["C"], g["Bc"][s], s) if direction == "root_to_child" else (g["Bc"][s], g["C"], 0)
            ss = 0 if direction == "root_to_child" else s
            bs = src.coord_system.base_scalars()
            fld = api.ScalarField.from_expression(f(*bs), src) if inp["how"] == "expr" else (
                api.ScalarField(f(*bs), src) if inp["how"] == "stored" else
                api.ScalarField(lambda p_: f(p_.coordinate(0), p_.coordinate(1), p_.coordinate(2)), src))
            with api.preserved("ScalarField.rebase", fld, tgt):
                new = fld.rebase(tgt)
            # the physical point is given by its coordinates in the curvilinear (or rotated) child
            q = inp["coords"]
            in_root = m_to_parent(inp["axis"], inp["angle"], m_to_cart(s, q))
            at_new, at_old = (q, in_root) if direction == "root_to_child" else (in_root, q)
            got = num(new(api.points[ts](*_dress(list(at_new), inp["dress"]))))
            want = num(f(*[sp.Float(v) for v in at_old]))
            del ss
            return close([got], [want]), {"new_field_at_new_coordinates": got}, {"old_field_at_old_coordinates": want}
        return gen_graph(s, True), pred

    def unrelated():
        def gen(rng):
            return {"axis": "z", "angle": 0.5, "coords": [away(rng), away(rng), away(rng)], "dress": "Float"}

        def pred(inp):
            g = setup(inp)
            obs = {}
            for a in range(3):
                for b in range(3):
                    if (a, b) in ((1, 2), (2, 1)):
                        continue
                    p = gen_point(__import__("random").Random(1), a)
                    obs[f"{SYSN[a]}(unrelated root)->{SYSN[b]}"] = refused(lambda a=a, b=b, p=p: api.rebase_obj(_dress(list(p), "Float"), g["Uc"][a], g["Cc"][b]))
            return all(v != "value" for v in obs.values()), obs, {"every_pair": "refused (no path between the systems)"}
        return gen, pred

    for s in (1, 2):
        n = LOW[SYSN[s]]
        checks[f"graph_curv_to_root_{n}"] = curv_to_root(s)
        checks[f"graph_root_to_curv_{n}"] = root_to_curv(s)
        checks[f"graph_curv_to_curv_{n}"] = curv_to_curv(s)
        checks[f"graph_field_root_to_curv_{n}"] = field_graph(s, "root_to_child")
        checks[f"graph_field_curv_to_root_{n}"] = field_graph(s, "child_to_root")
    checks["graph_field_root_to_rotated"] = field_graph(0, "root_to_child")
    checks["graph_unrelated"] = unrelated()

    # ---- names of the base scalars are tied to positions and to the Point accessors ------------------------------------
    def named(s):
        def gen(rng):
            return {"coords": list(gen_point(rng, s)), "dress": rng.choice(["float", "Float", "Rational"])}

        def pred(inp):
            cs = api.sys[s]
            vals = _dress(inp["coords"], inp["dress"])
            pt = api.points[s](*vals)
            obs, ok = {}, True
            for pos, name in enumerate(Api.NAMES[s]):
                scalar = getattr(cs.coord_system, name)
                is_pos = scalar == cs.coord_system.base_scalars()[pos]
                via_field = num(api.ScalarField.from_expression(scalar, cs)(pt))
                accs = [num(getattr(pt, a)) for a in Api.ACCESSORS[s][pos]]
                obs[name] = {"is_base_scalar_at_position": pos if is_pos else "NO", "field_of_named_scalar_at_point": via_field, "point_accessors": accs}
                ok = ok and is_pos and close([via_field] + accs, [inp["coords"][pos]] * (1 + len(accs)))
            return ok, obs, {"coordinates": inp["coords"], "names_by_position": Api.NAMES[s]}
        return gen, pred

    for s in range(3):
        checks[f"named_scalars_{LOW[SYSN[s]]}"] = named(s)

    # ---- points built with 0..3 coordinates and then modified through setters, and fields applied at them -----------
    def pred_points(inp):
        trace = run_point_ops(api, inp)
        model = list(inp["init"])
        want_trace = []
        for (idx, _how, val) in inp["ops"]:
            model = model + [0] * (idx + 1 - len(model))
            model[idx] = 0 if val is None else val
            want_trace.append({"coordinates": list(model), "getters": (model + [0, 0, 0, 0])[:4]})
        ok = [t["coordinates"] for t in trace] == [t["coordinates"] for t in want_trace] and \
            [t["getters"] for t in trace] == [t["getters"] for t in want_trace]
        obs = {"after_each_step": trace}
        if inp["kind"] > 0:        # a typed point: apply a field of its own system at it
            s_ = inp["kind"] - 1
            pt = build_point(api, inp)
            got = num(api.field(s_, FIELDS["poly"], "expr")(pt))
            want = num(FIELDS["poly"](*[sp.Integer(v) for v in (model + [0, 0, 0])[:3]]))
            obs["field_poly_at_point"] = got
            ok = ok and close([got], [want])
            want_trace.append({"field_poly_at_point": want})
        return ok, obs, {"after_each_step": want_trace}
    checks["point_setters"] = (gen_point_ops, pred_points)
    return checks


POINT_KINDS = ["Point", "CartesianPoint", "CylinderPoint", "SpherePoint"]


def gen_point_ops(rng):
    kind = rng.randrange(4)
    init = [rng.choice([-3, -2, -1, 1, 2, 3, 4]) for _ in range(rng.randrange(4))]
    ops = []
    for _ in range(rng.randint(1, 5)):
        idx = rng.randrange(3)
        names = ["set_coordinate"] + (Api.ACCESSORS[kind - 1][idx] if kind > 0 else [])
        how = rng.choice(names)
        val = rng.choice([-7, -5, 5, 6, 7, 8, 9]) if (how != "set_coordinate" or rng.random() < 0.85) else None
        ops.append([idx, how, val])
    return {"kind": kind, "init": init, "ops": ops}


def _point_cls(api, kind):
    return api.Point if kind == 0 else api.points[kind - 1]


def run_point_ops(api, inp):
    """the real point class: construct with the initial coordinates, apply the setters, read everything after each step"""
    p = _point_cls(api, inp["kind"])(*inp["init"])
    trace = []
    for (idx, how, val) in inp["ops"]:
        if how == "set_coordinate":
            p.set_coordinate(idx, val)
        else:
            setattr(p, how, val)
        trace.append({"coordinates": [int(c) for c in p.coordinates], "getters": [int(p.coordinate(i)) for i in range(4)]})
    return trace


def build_point(api, inp):
    p = _point_cls(api, inp["kind"])(*inp["init"])
    for (idx, how, val) in inp["ops"]:
        if how == "set_coordinate":
            p.set_coordinate(idx, val)
        else:
            setattr(p, how, val)
    return p


def _dress(vals, mode):
    if mode == "float":
        return [float(v) for v in vals]
    if mode == "Float":
        return [sp.Float(v) for v in vals]
    return [sp.Rational(str(v)) for v in vals]


# ---------------------------------------------------------------------------------------------------------
# translator: legs on generic symbols -> Coq definitions and lemmas
# ---------------------------------------------------------------------------------------------------------

F = sp.Function("f")


def _hook(e, rc):
    if isinstance(e, AppliedUndef):
        if e.func == F and len(e.args) == 3:
            return "(f " + " ".join(rc.term(a) for a in e.args) + ")"
        raise sx.Unsupported(f"undefined function {e}")
    return None


def to_terms(exprs, symbols):
    rc = sx.RCtx(atoms=False, atom_hook=_hook)
    for s in symbols:
        rc.var(("sym", s), s)
    terms = [rc.term(sp.sympify(e)) for e in exprs]
    if len(rc.vars) != len(symbols):
        raise sx.Unsupported(f"unexpected free symbols {rc.vars[len(symbols):]}")
    return terms


def v3(names):
    return "(" + ", ".join(names) + ")"


class Gen:
    """collects impl_* definitions, corr_* and comp_* lemmas"""

    def __init__(self):
        self.defs: list[str] = []
        self.lemmas: list[coqrun.Lemma] = []
        self.legs: dict[str, dict] = {}
        self.broken: list[tuple[str, str]] = []

    def define(self, name, binders, lets, rtype, body):
        self.defs.append(f"Definition {name} {binders} : {rtype} :=\n  {lets}{body}.")

    def lemma(self, name, stmt, proof, item):
        self.lemmas.append(coqrun.Lemma(name, stmt, proof, item))


def build(api: Api, gen: Gen):
    xs = sp.symbols("a0:7")
    X = [f"x{i}" for i in range(7)]

    def leg(name, fn, item, groups, out, model, proof_extra=""):
        """fn(symbol values) -> list of exprs (out='V3') or one expr (out='R').
        groups: list of ('V3', coq binder name, [indices]) | ('R', index) | ('F',)
        model: Coq text of the model side over the group binder names."""
        nsym = sum(len(g[2]) if g[0] == "V3" else (1 if g[0] == "R" else 0) for g in groups)
        try:
            res = fn(*xs[:nsym])
            exprs = list(res) if out == "V3" else [res]
            if out == "V3" and len(exprs) != 3:
                raise sx.Unsupported(f"expected 3 components, got {len(exprs)}")
            terms = to_terms(exprs, xs[:nsym])
        except Exception as e:  # pylint: disable=broad-except
            gen.broken.append((name, f"{type(e).__name__}: {e}"))
            return False
        binders, lets, intro, args = [], "", [], []
        for g in groups:
            if g[0] == "V3":
                binders.append(f"({g[1]} : V3)")
                names = [X[i] for i in g[2]]
                lets += f"let '{v3(names)} := {g[1]} in "
                intro.append(f"[[{names[0]} {names[1]}] {names[2]}]")
                args.append(g[1])
            elif g[0] == "R":
                binders.append(f"({X[g[1]]} : R)")
                intro.append(X[g[1]])
                args.append(X[g[1]])
            else:
                binders.append("(f : field)")
                intro.append("f")
                args.append("f")
        body = v3(terms) if out == "V3" else terms[0]
        gen.define(f"impl_{name}", " ".join(binders), lets, "V3" if out == "V3" else "R", body)
        stmt = f"forall {' '.join(binders)}, impl_{name} {' '.join(args)} = {model}"
        proof = f"intros {' '.join(intro)}. unfold impl_{name}. {proof_extra}vp_corr."
        gen.lemma(f"corr_{name}", stmt, proof, item)
        gen.legs[name] = {"fn": fn, "exprs": exprs, "nsym": nsym, "out": out, "item": item, "groups": groups}
        return True

    U = ("V3", "u", [0, 1, 2])
    V = ("V3", "v", [3, 4, 5])
    # -- transformation tables and rebase, full length ------------------------------------------------------
    tmodel = {(0, 1): "cart_to_cyl", (0, 2): "cart_to_sph", (1, 0): "cyl_to_cart", (2, 0): "sph_to_cart"}
    for a in range(3):
        for b in range(3):
            if (a, b) in ((1, 2), (2, 1)):
                continue
            na, nb = LOW[SYSN[a]], LOW[SYSN[b]]
            mt = f"match transformation {SYSN[a]} {SYSN[b]} with Some T => T u | None => (0, 0, 0) end"
            leg(f"table_{na}_{nb}", lambda p, q, r, a=a, b=b: api.table(a, b, [p, q, r]),
                f"CoordinateSystem({na}).transformation_to_system({nb})", [U], "V3", mt, "cbv [transformation]. ")
            mr = (f"match rebase {SYSN[a]} {SYSN[b]} (let '(p, q, r) := u in [p; q; r]) with Some w => w | None => (0, 0, 0) end")
            leg(f"rebase_{na}_{nb}", lambda p, q, r, a=a, b=b: api.rebase(a, b, [p, q, r]),
                f"Vector([a0,a1,a2], {na}).rebase({nb})", [U], "V3", mr)
    # -- short vectors: missing components are zeros ---------------------------------------------------------
    for (a, b) in tmodel:
        na, nb = LOW[SYSN[a]], LOW[SYSN[b]]
        leg(f"rebase_{na}_{nb}_len2", lambda p, q, a=a, b=b: api.rebase(a, b, [p, q]),
            f"Vector([a0,a1], {na}).rebase({nb})", [("R", 0), ("R", 1)], "V3",
            f"match rebase {SYSN[a]} {SYSN[b]} [x0; x1] with Some w => w | None => (0, 0, 0) end")
        leg(f"rebase_{na}_{nb}_len1", lambda p, a=a, b=b: api.rebase(a, b, [p]),
            f"Vector([a0], {na}).rebase({nb})", [("R", 0)], "V3",
            f"match rebase {SYSN[a]} {SYSN[b]} [x0] with Some w => w | None => (0, 0, 0) end")
    # -- curvilinear child of a frame rotated by a symbolic angle, rebased straight to the root frame ---------------
    for s_ in (1, 2):
        for axis in Api.AXES:
            n = LOW[SYSN[s_]]

            def fn(p, q, r, al, s_=s_, axis=axis):
                g = api.graph(axis, al)
                return api.rebase_obj([p, q, r], g["Bc"][s_], g["C"])
            leg(f"rebase_{n}_rot{axis}_root", fn, f"Vector in {n}(child of C rotated about {axis}) .rebase(C)",
                [U, ("R", 3)], "V3", f"curv_rotated_to_parent {SYSN[s_]} A{axis.upper()} x3 u")
    # -- a field written through the NAMED base scalars (getattr(coord_system, name)) ------------------------------
    for a in range(3):
        n = LOW[SYSN[a]]

        def fnamed(p, q, r, a=a):
            cs = api.sys[a]
            e = F(*[getattr(cs.coord_system, nm) for nm in Api.NAMES[a]])
            return api.ScalarField.from_expression(e, cs)(api.points[a](p, q, r))
        leg(f"fieldnamed_{n}", fnamed, f"field f({', '.join(Api.NAMES[a])}) written through named scalars of {n}, at a {n} point",
            [("F",), U], "R", "apply_field f u")
    # -- arithmetics -----------------------------------------------------------------------------------------
    for s in range(3):
        n = LOW[SYSN[s]]
        leg(f"dot_{n}", lambda a0, a1, a2, a3, a4, a5, s=s: api.dot(s, [a0, a1, a2], [a3, a4, a5]),
            f"dot_vectors in {n}", [U, V], "R", f"dot {SYSN[s]} u v")
        leg(f"dot_{n}_short", lambda a0, a1, a2, s=s: api.dot(s, [a0, a1], [a2]),
            f"dot_vectors([a0,a1],[a2]) in {n}", [("R", 0), ("R", 1), ("R", 2)], "R",
            f"dot {SYSN[s]} (pad [x0; x1]) (pad [x2])")
        leg(f"magnitude_{n}", lambda a0, a1, a2, s=s: api.mag(s, [a0, a1, a2]),
            f"vector_magnitude in {n}", [U], "R", f"magnitude {SYSN[s]} u", "unfold magnitude. ")
        leg(f"scale_{n}", lambda k, a1, a2, a3, s=s: api.scale(s, k, [a1, a2, a3]),
            f"scale_vector in {n}", [("R", 0), ("V3", "u", [1, 2, 3])], "V3", f"scale {SYSN[s]} x0 u")
    for s in (1, 2):
        n = LOW[SYSN[s]]
        leg(f"scale_{n}_len2", lambda k, a1, a2, s=s: (api.scale(s, k, [a1, a2]) + [0, 0, 0])[:3],
            f"scale_vector(k, [a1, a2]) in {n}", [("R", 0), ("R", 1), ("R", 2)], "V3", f"scale {SYSN[s]} x0 (pad [x1; x2])")
        leg(f"scale_{n}_len1", lambda k, a1, s=s: (api.scale(s, k, [a1]) + [0, 0, 0])[:3],
            f"scale_vector(k, [a1]) in {n}", [("R", 0), ("R", 1)], "V3", f"scale {SYSN[s]} x0 (pad [x1])")
    # -- scalar fields -----------------------------------------------------------------------------------------
    fproof = "cbv [field_rebase transformation]. "
    for a in range(3):
        n = LOW[SYSN[a]]
        for how in ("expr", "lambda"):
            leg(f"fieldat_{n}_{how}", lambda p, q, r, a=a, how=how: api.field_at(a, F, [p, q, r], how),
                f"ScalarField({how}) in {n} called with a {n} point", [("F",), U], "R", "apply_field f u")
        leg(f"fieldat_{n}_shortpoint", lambda p, q, a=a: api.field_at(a, F, [p, q], "expr"),
            f"ScalarField in {n} called with a {n} point that carries two coordinates", [("F",), ("R", 0), ("R", 1)], "R",
            "apply_field f (x0, x1, 0)")
        for b in range(3):
            if (a, b) in ((1, 2), (2, 1)):
                continue
            nb = LOW[SYSN[b]]
            mf = f"match field_rebase {SYSN[a]} {SYSN[b]} f with Some g => apply_field g u | None => 0 end"
            for via in ("point", "basis"):
                leg(f"fieldrebase_{n}_{nb}_{via}",
                    lambda p, q, r, a=a, b=b, via=via: api.field_rebased_at(a, b, F, [p, q, r], "expr", via),
                    f"ScalarField in {n} .rebase({nb}) evaluated via {via}", [("F",), U], "R", mf, fproof)
            for how in ("stored", "callable_object", "partial"):
                leg(f"fieldrebase_{n}_{nb}_{how}",
                    lambda p, q, r, a=a, b=b, how=how: api.field_rebased_at(a, b, F, [p, q, r], how, "point"),
                    f"ScalarField({how}) in {n} .rebase({nb})", [("F",), U], "R", mf, fproof)
            leg(f"fieldrebase_{n}_{nb}_lambda",
                lambda p, q, r, a=a, b=b: api.field_rebased_at(a, b, F, [p, q, r], "lambda", "point"),
                f"ScalarField(lambda) in {n} .rebase({nb})", [("F",), U], "R", mf, fproof)

    # -- the reading of sympy.atan2: exact values on the eight principal directions ------------------------------
    dirs = ["atan2_east", "atan2_north_east", "atan2_north", "atan2_north_west", "atan2_west", "atan2_south_west",
            "atan2_south", "atan2_south_east"]
    for k, (yy, xx) in enumerate([(0, 1), (1, 1), (1, 0), (1, -1), (0, -1), (-1, -1), (-1, 0), (-1, 1)]):
        try:
            val = sp.atan2(sp.Integer(yy), sp.Integer(xx))
            t = to_terms([val], [])[0]
            gen.lemma(f"corr_atan2_dir{k}", f"atan2 {sx.zlit(yy)} {sx.zlit(xx)} = {t}",
                "first [" + " | ".join(f"rewrite {d}" for d in dirs) + "]. field.",
                f"sympy.atan2({yy}, {xx}) = {val}")
        except Exception as e:  # pylint: disable=broad-except
            gen.broken.append((f"atan2_dir{k}", f"{type(e).__name__}: {e}"))

    # -- compositions inside Coq (statements about the implementation's own outputs) ---------------------------
    def have(*names):
        return all(n in gen.legs for n in names)

    def simp(name, modelfn):
        """impl_rebase_x_y u = modelfn u"""
        return (f"assert (E_{name} : forall w : V3, impl_{name} w = {modelfn} w) by "
                f"(intros [[w1 w2] w3]; rewrite corr_{name}; reflexivity). ")

    rb = {k: f"rebase_{LOW[SYSN[k[0]]]}_{LOW[SYSN[k[1]]]}" for k in tmodel}
    if have(rb[(0, 1)], rb[(1, 0)]):
        gen.lemma("comp_cart_cyl_cart",
            f"forall x y z : R, (x, y) <> (0, 0) -> impl_{rb[(1, 0)]} (impl_{rb[(0, 1)]} (x, y, z)) = (x, y, z)",
            simp(rb[(0, 1)], "cart_to_cyl") + simp(rb[(1, 0)], "cyl_to_cart") +
            f"intros x y z H. rewrite E_{rb[(1, 0)]}, E_{rb[(0, 1)]}. apply cart_cyl_cart. exact H.",
            "Cartesian -> cylindrical -> Cartesian on the implementation's outputs")
        gen.lemma("comp_cyl_cart_cyl",
            f"forall r t z : R, 0 < r -> - PI < t <= PI -> impl_{rb[(0, 1)]} (impl_{rb[(1, 0)]} (r, t, z)) = (r, t, z)",
            simp(rb[(0, 1)], "cart_to_cyl") + simp(rb[(1, 0)], "cyl_to_cart") +
            f"intros r t z H1 H2. rewrite E_{rb[(0, 1)]}, E_{rb[(1, 0)]}. apply cyl_cart_cyl; assumption.",
            "cylindrical -> Cartesian -> cylindrical on the implementation's outputs")
    if have(rb[(0, 2)], rb[(2, 0)]):
        gen.lemma("comp_cart_sph_cart",
            f"forall x y z : R, (x, y) <> (0, 0) -> impl_{rb[(2, 0)]} (impl_{rb[(0, 2)]} (x, y, z)) = (x, y, z)",
            simp(rb[(0, 2)], "cart_to_sph") + simp(rb[(2, 0)], "sph_to_cart") +
            f"intros x y z H. rewrite E_{rb[(2, 0)]}, E_{rb[(0, 2)]}. apply cart_sph_cart. exact H.",
            "Cartesian -> spherical -> Cartesian on the implementation's outputs")
        gen.lemma("comp_sph_cart_sph",
            f"forall r t f : R, 0 < r -> - PI < t <= PI -> 0 < f < PI -> "
            f"impl_{rb[(0, 2)]} (impl_{rb[(2, 0)]} (r, t, f)) = (r, t, f)",
            simp(rb[(0, 2)], "cart_to_sph") + simp(rb[(2, 0)], "sph_to_cart") +
            f"intros r t f H1 H2 H3. rewrite E_{rb[(0, 2)]}, E_{rb[(2, 0)]}. apply sph_cart_sph; assumption.",
            "spherical -> Cartesian -> spherical on the implementation's outputs")
    for s in (1, 2):
        n = LOW[SYSN[s]]
        tc = f"{n}_to_cart"
        r = rb[(s, 0)]
        if have(r, f"dot_{n}", "dot_cart"):
            gen.lemma(f"comp_dot_{n}",
                f"forall u v : V3, impl_dot_{n} u v = impl_dot_cart (impl_{r} u) (impl_{r} v)",
                simp(r, tc) + f"intros u v. rewrite (E_{r} u), (E_{r} v), corr_dot_{n}, corr_dot_cart. apply dot_{n}_is_cart_dot.",
                f"dot product in {n} equals the Cartesian dot product of the rebased vectors")
        if have(r, f"magnitude_{n}", "magnitude_cart"):
            gen.lemma(f"comp_magnitude_{n}",
                f"forall u : V3, impl_magnitude_{n} u = impl_magnitude_cart (impl_{r} u)",
                simp(r, tc) + f"intros u. rewrite E_{r}, corr_magnitude_{n}, corr_magnitude_cart. "
                f"apply (magnitude_is_cart_magnitude {SYSN[s]}).",
                f"magnitude in {n} equals the Cartesian magnitude of the rebased vector")
        if have(r, f"scale_{n}", "scale_cart"):
            gen.lemma(f"comp_scale_{n}",
                f"forall (k : R) (u : V3), impl_{r} (impl_scale_{n} k u) = impl_scale_cart k (impl_{r} u)",
                simp(r, tc) + f"intros k u. rewrite (E_{r} u), (E_{r} (impl_scale_{n} k u)), corr_scale_{n}, corr_scale_cart. "
                f"rewrite scale_{n}_commutes. destruct ({tc} u) as [[c1 c2] c3]. reflexivity.",
                f"scaling in {n} then rebasing equals rebasing then scaling")
        for via in ("point", "basis", "lambda"):
            fr = f"fieldrebase_cart_{n}_{via}"
            fa = "fieldat_cart_lambda" if via == "lambda" else "fieldat_cart_expr"
            if have(r, fr, fa):
                gen.lemma(f"comp_field_cart_{n}_{via}",
                    f"forall (f : field) (q : V3), impl_{fr} f q = impl_{fa} f (impl_{r} q)",
                    simp(r, tc) + f"intros f q. rewrite E_{r}, corr_{fr}, corr_{fa}. "
                    f"apply (field_cart_to_curv {SYSN[s]} f). reflexivity.",
                    f"Cartesian field rebased to {n}: same value at the same point")
            fr = f"fieldrebase_{n}_cart_{via}"
            fa = f"fieldat_{n}_lambda" if via == "lambda" else f"fieldat_{n}_expr"
            if have(r, fr, fa):
                gen.lemma(f"comp_field_{n}_cart_{via}",
                    f"forall (f : field) (p : V3), in_domain {SYSN[s]} p -> impl_{fr} f (impl_{r} p) = impl_{fa} f p",
                    simp(r, tc) + f"intros f p D. rewrite E_{r}, corr_{fr}, corr_{fa}. "
                    f"apply (field_curv_to_cart {SYSN[s]} f); [reflexivity | exact D].",
                    f"{n} field rebased to Cartesian: same value at the same point")



# ---------------------------------------------------------------------------------------------------------
# history stream: operations that REUSE the same system objects with different vectors / points / fields
# ---------------------------------------------------------------------------------------------------------

def hist_step(v: Api, st, pool=None):
    """pool: objects shared by the steps of one run (Vector / ScalarField / Point objects are created at first use and
    then REUSED); pool=None: everything is built afresh for this one call"""
    def obj(kind, i, make):
        if pool is None:
            return make()
        return pool.setdefault((kind, i), make())

    def vec(i):
        return obj("vec", i, lambda: v.Vector(_dress(st["vecs"][i], "Float"), v.sys[st["sys"]]))
    try:
        op, s = st["op"], st["sys"]
        if op == "rebase":
            return [num(e) for e in v.rebase(s, st["to"], _dress(st["u"], "Float"))]
        if op == "dot":
            return [num(v.dot(s, _dress(st["u"], "Float"), _dress(st["v"], "Float")))]
        if op == "magnitude":
            return [num(v.mag(s, _dress(st["u"], "Float")))]
        if op == "scale":
            return [num(e) for e in v.scale(s, sp.Float(st["k"]), _dress(st["u"], "Float"))]
        if op == "field":
            return [num(v.field_rebased_at(s, st["to"], FIELDS[st["field"]], _dress(st["u"], "Float"), st["how"], st["via"]))]
        # ---- operations on objects that live across the steps of the sequence --------------------------------
        if op == "o_scale":
            return [num(e) for e in v.scale_vector(sp.Float(st["k"]), vec(st["i"])).components]
        if op == "o_unit":
            return [num(e) for e in v.vector_unit(vec(st["i"])).components]
        if op == "o_project":
            return [num(e) for e in v.project_vector(vec(st["i"]), vec(st["j"])).components]
        if op == "o_magnitude":
            return [num(v.vector_magnitude(vec(st["i"])))]
        if op == "o_dot":
            return [num(v.dot_vectors(vec(st["i"]), vec(st["j"])))]
        if op == "o_rebase":
            tgt = v.sys[st["to"]]
            return [num(e) for e in vec(st["i"]).rebase(tgt).components]
        if op == "o_components":
            return [num(e) for e in vec(st["i"]).components]
        fld = obj("field", 0, lambda: v.field(s, FIELDS[st["field"]], st["how"]))
        if op == "o_fcall":
            pt = obj("point", st["i"], lambda: v.points[s](*_dress(st["pts"][st["i"]], "Float")))
            return [num(fld(pt))]
        if op == "o_frebase":
            g = fld.rebase(v.sys[st["to"]])
            return [num(g(v.points[st["to"]](*_dress(st["u"], "Float"))))]
        raise ValueError(op)
    except Exception as e:  # pylint: disable=broad-except
        return ("exception", f"{type(e).__name__}: {str(e)[:300]}")


def hist_same(x, y):
    return not isinstance(x, tuple) and not isinstance(y, tuple) and close(x, y)


def hist_first_bad(api: Api, seq):
    shared = api.fresh_view()
    pool = {}
    got = [hist_step(shared, st, pool) for st in seq]
    for i, st in enumerate(seq):
        ref = hist_step(api.fresh_view(), st)
        if not hist_same(got[i], ref):
            return i, got[i], ref
    return None


def hist_gen(rng):
    pair = rng.choice([(0, 1), (0, 2), (1, 0), (2, 0)])
    seq = []
    for _ in range(rng.randint(3, 6)):
        a, b = pair if rng.random() < 0.6 else (pair[1], pair[0])
        op = rng.choice(["rebase", "rebase", "field", "dot", "magnitude", "scale"])
        st = {"op": op, "sys": a, "to": b, "u": list(gen_point(rng, a)), "v": list(gen_point(rng, a)), "k": away(rng)}
        if op == "field":
            st.update({"u": list(gen_point(rng, b)), "field": rng.choice(sorted(FIELDS)), "how": rng.choice(Api.HOWS),
                       "via": rng.choice(["point", "basis"])})
        seq.append(st)
    return seq


def hist_gen_objects(rng):
    """operations applied to the SAME Vector / ScalarField / Point objects"""
    s = rng.choice([1, 2, 1, 2, 0])
    to = 0 if s != 0 else rng.choice([1, 2])
    vecs = [list(gen_point(rng, s)) for _ in range(3)]
    pts = [list(gen_point(rng, s)) for _ in range(2)]
    base = {"sys": s, "to": to, "vecs": vecs, "pts": pts, "field": rng.choice(sorted(FIELDS)), "how": rng.choice(["expr", "lambda"])}
    seq = []
    for _ in range(rng.randint(3, 6)):
        op = rng.choice(["o_scale", "o_unit", "o_project", "o_magnitude", "o_dot", "o_rebase", "o_components", "o_fcall", "o_frebase"])
        i = rng.randrange(2)     # two of the three vectors carry most of the traffic
        st = dict(base, op=op, i=i, j=rng.choice([j for j in range(3) if j != i]), k=away(rng), u=list(gen_point(rng, to)))
        seq.append(st)
    return seq


def hist_describe(st):
    n = lambda i: LOW[SYSN[i]]
    if st["op"].startswith("o_"):
        o = st["op"][2:]
        v = lambda i: f"V{i}={st['vecs'][i]}"
        if o == "scale":
            return f"scale_vector({st['k']}, {v(st['i'])}) in {n(st['sys'])}"
        if o in ("unit", "magnitude", "components"):
            return f"{ {'unit': 'vector_unit', 'magnitude': 'vector_magnitude', 'components': 'components of'}[o]}({v(st['i'])}) in {n(st['sys'])}"
        if o in ("project", "dot"):
            return f"{ {'project': 'project_vector', 'dot': 'dot_vectors'}[o]}({v(st['i'])}, {v(st['j'])}) in {n(st['sys'])}"
        if o == "rebase":
            return f"{v(st['i'])} ({n(st['sys'])}) .rebase({n(st['to'])})"
        if o == "fcall":
            return f"field F0={st['field']}/{st['how']} in {n(st['sys'])} called with point P{st['i']}={st['pts'][st['i']]}"
        return f"field F0={st['field']}/{st['how']} in {n(st['sys'])} .rebase({n(st['to'])}) at {st['u']}"
    if st["op"] == "rebase":
        return f"Vector({st['u']}, {n(st['sys'])}).rebase({n(st['to'])})"
    if st["op"] == "field":
        return f"field {st['field']}/{st['how']} in {n(st['sys'])} .rebase({n(st['to'])}) at {st['u']} via {st['via']}"
    if st["op"] == "dot":
        return f"dot_vectors({st['u']}, {st['v']}) in {n(st['sys'])}"
    if st["op"] == "scale":
        return f"scale_vector({st['k']}, {st['u']}) in {n(st['sys'])}"
    return f"vector_magnitude({st['u']}) in {n(st['sys'])}"


def history_stream(ctx, api: Api):
    rng = ctx.rng
    seqs = [hist_gen(rng) for _ in range(ctx.pick(10, 80))] + [hist_gen_objects(rng) for _ in range(ctx.pick(14, 100))]
    steps, reported = 0, set()
    for seq in seqs:
        steps += len(seq)
        bad = hist_first_bad(api, seq)
        if bad is None:
            continue
        cur = seq[:bad[0] + 1]
        j = len(cur) - 2
        while j >= 0:
            cand = cur[:j] + cur[j + 1:]
            b2 = hist_first_bad(api, cand)
            if b2 is not None and b2[0] == len(cand) - 1:
                cur = cand
            j -= 1
        b3 = hist_first_bad(api, cur)
        got, ref = (b3[1], b3[2]) if b3 else (bad[1], bad[2])
        last = cur[-1]
        key = f"C11:history:{last['op']}_{LOW[SYSN[last['sys']]]}_{LOW[SYSN[last['to']]]}"
        if last["op"].startswith("o_") and len(cur) >= 2:
            key = f"C11:history:{cur[-2]['op']}-then-{last['op']}_{LOW[SYSN[last['sys']]]}"
        if key in reported:
            continue
        reported.add(key)
        ctx.violation(key, "result depends on earlier operations on the same system objects: after "
            + "; ".join(hist_describe(x) for x in cur[:-1]) + f" the call {hist_describe(last)} returns {got}, but {ref} "
            "when made first on fresh system objects",
            {"kind": "history", "sequence": cur, "observed_last": got, "expected_last": ref,
             "theorem_or_tie": "history independence (same call on fresh system objects)"}, found_input=True)
    ctx.sample({"history_sequence": [hist_describe(x) for x in seqs[0]]})
    return len(seqs), steps

# ---------------------------------------------------------------------------------------------------------
# finite tables
# ---------------------------------------------------------------------------------------------------------

def refusal_tables(api: Api):
    """[(coq literal, description, observed, spec_ok)]"""
    a3 = sp.symbols("p0:3")
    rows = []
    for a in range(3):
        for b in range(3):
            want_refused = (a, b) in ((1, 2), (2, 1))
            for what, fn in (
                ("transformation_to_system", lambda a=a, b=b: api.table(a, b, a3)),
                ("Vector.rebase", lambda a=a, b=b: api.rebase(a, b, a3)),
                ("ScalarField.rebase", lambda a=a, b=b: api.field_rebased_at(a, b, F, a3)),
            ):
                obs = refused(fn)
                tag = {"transformation_to_system": "TTable", "Vector.rebase": "TRebase", "ScalarField.rebase": "TField"}[what]
                lit = f"({tag}, {SYSN[a]}, {SYSN[b]}, {'true' if obs == 'value' else 'false'})"
                spec_ok = (obs != "value") if want_refused else (obs == "value")
                rows.append({"lit": lit, "desc": f"{what} {SYSN[a]}->{SYSN[b]}", "obs": obs, "spec_ok": spec_ok,
                    "refusal_is_valueerror": obs in ("value", "ValueError")})
    kinds = [("PGeneric", api.Point)] + [(f"(PTyped {SYSN[i]})", api.points[i]) for i in range(3)]
    for callable_ in (True, False):
        for pk, cls in kinds:
            for fs in range(3):
                fld = api.field(fs, F) if callable_ else api.ScalarField(7, api.sys[fs])
                try:
                    val = fld(cls(*a3))
                    if callable_:
                        obs = "Applied" if sp.sympify(val) == F(*a3) else f"value:{val}"
                    else:
                        obs = "Constant" if sp.sympify(val) == 7 else f"value:{val}"
                except Exception as e:  # pylint: disable=broad-except
                    obs = "Refused" if isinstance(e, ValueError) else f"error:{type(e).__name__}"
                olit = obs if obs in ("Applied", "Constant", "Refused") else None
                typed_wrong = pk.startswith("(PTyped") and pk != f"(PTyped {SYSN[fs]})"
                if callable_:
                    spec_ok = (obs in ("Refused",) or obs.startswith("error:")) if typed_wrong else obs == "Applied"
                else:
                    spec_ok = obs == "Constant"   # a constant field has the same value in every system
                rows.append({"lit": None if olit is None else f"({'true' if callable_ else 'false'}, {pk}, {SYSN[fs]}, {olit})",
                    "desc": f"field(callable={callable_}, {SYSN[fs]}) called with {cls.__name__}", "obs": obs,
                    "spec_ok": spec_ok, "call": True})
    return rows


TABLE_PRE = PREAMBLE + """
Inductive vp_tkind := TTable | TRebase | TField.
Definition vp_check_tr (c : vp_tkind * sys * sys * bool) : bool :=
  let '(k, a, b, o) := c in
  match k with
  | TTable => Bool.eqb (transformation_supported a b) o
  | TRebase => Bool.eqb (match rebase a b [] with Some _ => true | None => false end) o
  | TField => Bool.eqb (match field_rebase a b (fun _ _ _ => 0) with Some _ => true | None => false end) o
  end.
Definition vp_zlist_eqb (a b : list Z) : bool :=
  Nat.eqb (length a) (length b) && forallb (fun p => Z.eqb (fst p) (snd p)) (combine a b).
(* (initial coordinates, setter calls (index, value), coordinates observed afterwards, getters 0..3 observed afterwards) *)
Definition vp_check_point (c : list Z * list (nat * Z) * list Z * list Z) : bool :=
  let '(init, ops, obs, gets) := c in
  let l := pset_all 0%Z init ops in
  vp_zlist_eqb l obs && vp_zlist_eqb (map (pget 0%Z l) [0%nat; 1%nat; 2%nat; 3%nat]) gets.
Definition vp_check_call (c : bool * pkind * sys * outcome) : bool :=
  let '(cb, pk, fs, o) := c in outcome_eqb (field_call cb pk fs) o.
"""


# ---------------------------------------------------------------------------------------------------------
# run
# ---------------------------------------------------------------------------------------------------------

LEG_TO_SPEC = {
    "cart_cyl": ["roundtrip_cart_cyl_cart", "roundtrip_cyl_cart_cyl", "field_cyl_cart"],
    "cyl_cart": ["roundtrip_cart_cyl_cart", "roundtrip_cyl_cart_cyl", "field_cart_cyl", "dot_cyl", "scale_cyl"],
    "cart_sph": ["roundtrip_cart_sph_cart", "roundtrip_sph_cart_sph", "field_sph_cart"],
    "rot": ["graph_curv_to_root_cyl", "graph_curv_to_root_sph"], "fieldnamed": ["named_scalars_cart", "named_scalars_cyl", "named_scalars_sph"],
    "sph_cart": ["roundtrip_cart_sph_cart", "roundtrip_sph_cart_sph", "field_cart_sph", "dot_sph", "scale_sph"],
    "dot_cyl": ["dot_cyl"], "dot_sph": ["dot_sph"], "magnitude_cyl": ["magnitude_cyl"], "magnitude_sph": ["magnitude_sph"],
    "scale_cyl": ["scale_cyl", "arith_short_cyl"], "scale_sph": ["scale_sph", "arith_short_sph"],
}


def related_specs(name, all_names):
    out = []
    for k, v in LEG_TO_SPEC.items():
        if k in name:
            out += v
    if "field" in name:
        out += [n for n in all_names if n.startswith("field_") and any(p in name for p in (n[len("field_"):],))]
    order = ["roundtrip", "dot", "magnitude", "scale", "arith", "field", "graph", "named", "point"]
    prio = lambda n: (order.index(n.split("_")[0]) if n.split("_")[0] in order else 99, n)
    return sorted(set(out) or set(all_names), key=prio)


def run(ctx):
    ctx.level = "proof"
    ctx.static(STATIC)
    ctx.trust(
        "Coq 8.16.1 kernel; stdlib Reals (axioms sig_forall_dec, sig_not_dec, functional_extensionality_dep, classic)",
        "harness/vp/sx.py + props/c11.py: SymPy tree -> Coq term (reading of Add/Mul/Pow/sqrt/sin/cos/acos/atan2 nodes); "
        "sympy.atan2/acos/sqrt are read as Base.Atan2.atan2 / stdlib acos / sqrt on their real domains",
        "SymPy 1.14 subs / sympy.vector.express on the exercised inputs (observed, not modelled); "
        "generic components are assumption-free Symbols, the value-obliviousness of the code is sampled, not proved",
        "Model/Coords.v: the meaning of cylindrical (r,theta,z) and spherical (r,azimuth theta,polar phi) coordinates "
        "is the hand-written to_cart")
    ctx.assume("vectors and points away from the coordinate singularities: Cartesian (x,y) <> (0,0); r > 0, "
               "azimuth in (-pi, pi], polar angle in (0, pi)",
               "vector components and point coordinates do not themselves contain the base scalars of their system "
               "(rebase substitutes sequentially)")
    api = Api()
    rng = ctx.rng

    # ---- 1. translator + generated lemmas ------------------------------------------------------------------
    gen = Gen()
    build(api, gen)
    pre = PREAMBLE + "\n" + "\n".join(gen.defs) + "\n"
    res = coqrun.prove_lemmas(ctx, "c11", pre, gen.lemmas, per_file=1000, timeout=600, max_retries=40) if gen.lemmas else {}
    ok = sum(v == "ok" for v in res.values())
    ctx.obligations(len(res) + len(gen.broken), ok)
    ctx.coverage["generated_lemmas"] = {"corr": sum(n.startswith("corr_") for n in res), "comp": sum(n.startswith("comp_") for n in res),
        "ok": ok, "legs_translated": len(gen.legs), "legs_not_translated": len(gen.broken)}
    ctx.log(f"legs={len(gen.legs)} broken={len(gen.broken)} lemmas={len(res)} ok={ok}")
    for lm in gen.lemmas[:3]:
        ctx.sample({"lemma": lm.name, "statement": lm.statement[:300], "item": lm.item})

    # ---- 2. specification predicates on the real code (seeded) ----------------------------------------------
    checks = spec_checks(api)
    n_pts = ctx.pick(5, 120)
    spec_fail: dict[str, dict] = {}
    n_eval = 0
    seen = set()
    for name in sorted(checks):
        g, pred = checks[name]
        for _ in range(n_pts):
            inp = g(rng)
            n_eval += 1
            seen.add((name, repr(sorted(inp.items(), key=str))))
            try:
                good, obs, want = pred(inp)
            except Exception as e:  # pylint: disable=broad-except
                good, obs, want = False, {"exception": f"{type(e).__name__}: {e}"}, {}
            if not good and name not in spec_fail:
                spec_fail[name] = {"input": inp, "observed": obs, "expected": want}
        if name in spec_fail:
            f = spec_fail[name]
            ctx.violation(f"C11:spec:{name}", f"{name} fails on the implementation at {f['input']}: observed {f['observed']}, "
                f"expected {f['expected']}", {"kind": "spec", "check": name, "input": f["input"], "observed": f["observed"],
                "expected": f["expected"], "theorem_or_tie": name}, found_input=True)
    ctx.sample({"spec_check": "roundtrip_cart_sph_cart", "input": checks["roundtrip_cart_sph_cart"][0](rng)})

    # ---- 3. value-obliviousness: concrete runs vs the generic output ------------------------------------------
    n_obl = 0
    obl_fail = {}
    for name, lg in sorted(gen.legs.items()):
        if any(g[0] == "F" for g in lg["groups"]):
            continue    # fields with concrete expressions are covered by the field_* specification checks
        for _ in range(ctx.pick(5, 40)):
            vals = []
            for g in lg["groups"]:
                if g[0] == "V3":
                    s = 0
                    for i, nm in enumerate(("cart", "cyl", "sph")):
                        if name.split("_")[1] == nm:
                            s = i
                    vals += list(gen_point(rng, s))
                else:
                    vals.append(rnd(rng, 0.2, 3.0))
            vals = vals[:lg["nsym"]]
            dressed, mode = dress(rng, vals)
            n_obl += 1
            seen.add((name, tuple(vals), mode))
            syms = sp.symbols("a0:7")[:lg["nsym"]]
            want = [num(e.xreplace(dict(zip(syms, [sp.Float(v, 30) for v in vals])))) for e in map(sp.sympify, lg["exprs"])]
            try:
                out = lg["fn"](*dressed)
                got = [num(e) for e in (out if lg["out"] == "V3" else [out])]
            except Exception as e:  # pylint: disable=broad-except
                got = [float("nan")]
                want = want + [f"{type(e).__name__}: {e}"]
            if not (len(got) == len(want) and close(got, want)) and name not in obl_fail:
                obl_fail[name] = {"values": vals, "dress": mode, "concrete_run": got, "generic_output_evaluated": want}
    for name, f in obl_fail.items():
        ctx.violation(f"C11:oblivious:{name}", f"leg {name}: running the code on concrete numbers {f['values']} ({f['dress']}) gives "
            f"{f['concrete_run']} but its output on generic symbols evaluates to {f['generic_output_evaluated']}",
            {"kind": "disagreement", "theorem_or_tie": f"value-obliviousness of leg {name}", **f},
            found_input=any(s in spec_fail for s in related_specs(name, checks)))

    # ---- 3b. sympy.atan2 / acos are read as Base.Atan2.atan2 / stdlib acos: compare numerically -----------------------
    def coq_atan2(y, x):      # the branch structure of Base/Atan2.v
        if x > 0:
            return math.atan(y / x)
        if x < 0:
            return math.atan(y / x) + math.pi if y >= 0 else math.atan(y / x) - math.pi
        return math.pi / 2 if y > 0 else (-math.pi / 2 if y < 0 else 0.0)
    pts = [(away(rng), away(rng)) for _ in range(ctx.pick(40, 400))] + [(0.0, 1.5), (0.0, -1.5), (2.0, 0.0), (-2.0, 0.0)]
    for (y, x) in pts:
        n_obl += 1
        if abs(num(sp.atan2(sp.Float(y), sp.Float(x))) - coq_atan2(y, x)) > 1e-12:
            ctx.violation("C11:reading:atan2", f"sympy.atan2({y}, {x}) differs from the Coq definition's value {coq_atan2(y, x)}",
                {"kind": "broken-tie", "theorem_or_tie": "reading of sympy.atan2 as Base.Atan2.atan2", "input": [y, x]}, found_input=False)
            break

    # ---- 3c. history stream ----------------------------------------------------------------------------------------------
    n_hist, hist_steps = history_stream(ctx, api)
    n_obl += hist_steps
    ctx.coverage["history_sequences"] = n_hist

    # ---- 3d. points: the real Point classes against the Gallina model (pset / pget), seeded setter sequences ----------------
    zl = lambda xs: "[" + "; ".join(f"({x})%Z" for x in xs) + "]"
    pcases, pinputs = [], []
    for _ in range(ctx.pick(60, 600)):
        inp = gen_point_ops(rng)
        try:
            trace = run_point_ops(api, inp)
        except Exception as e:  # pylint: disable=broad-except
            ctx.violation(f"C11:points:exception:{type(e).__name__}", f"point operations {inp} raised {type(e).__name__}: {e}",
                {"kind": "spec", "check": "point_setters", "input": inp, "theorem_or_tie": "points correspondence"}, found_input=True)
            continue
        for k, t in enumerate(trace):
            ops = "[" + "; ".join(f"({i}%nat, ({0 if v is None else v})%Z)" for (i, _h, v) in inp["ops"][:k + 1]) + "]"
            pcases.append(f"({zl(inp['init'])}, {ops}, {zl(t['coordinates'])}, {zl(t['getters'])})")
            pinputs.append(dict(inp, ops=inp["ops"][:k + 1]))
    n_obl += len(pcases)
    bad_p = coqrun.eval_cases(ctx, "points", TABLE_PRE, pcases, "vp_check_point") if pcases else []
    _g, ppred = checks["point_setters"]
    for i in bad_p[:1]:
        inp = min((pinputs[j] for j in bad_p), key=lambda x: (len(x["ops"]), len(x["init"])))
        good, obs, want = ppred(inp)
        ctx.violation(f"C11:points:{POINT_KINDS[inp['kind']]}:{inp['ops'][-1][1]}", f"{POINT_KINDS[inp['kind']]}({inp['init']}) after {inp['ops']}: "
            f"implementation {obs}, model {want}", {"kind": "spec", "check": "point_setters", "input": inp, "observed": obs, "expected": want,
            "theorem_or_tie": "Model.Coords.pset / pget correspondence"}, found_input=not good)
        del i
    ctx.coverage["point_cases"] = len(pcases)
    if pcases:
        ctx.sample({"point_case": pcases[len(pcases) // 2]})

    # ---- 4. refusal tables (exhaustive) --------------------------------------------------------------------------
    rows = refusal_tables(api)
    tr = [r for r in rows if not r.get("call")]
    cl = [r for r in rows if r.get("call")]
    bad_tr = coqrun.eval_cases(ctx, "tr", TABLE_PRE, [r["lit"] for r in tr], "vp_check_tr")
    cl_lit = [r for r in cl if r["lit"] is not None]
    bad_cl = coqrun.eval_cases(ctx, "call", TABLE_PRE, [r["lit"] for r in cl_lit], "vp_check_call")
    bad_rows = [tr[i] for i in bad_tr] + [cl_lit[i] for i in bad_cl] + [r for r in cl if r["lit"] is None]
    for r in rows:
        if not r["spec_ok"] and r not in bad_rows:
            bad_rows.append(r)
        if r.get("refusal_is_valueerror") is False and r not in bad_rows:
            bad_rows.append(r)
    for r in bad_rows:
        ctx.violation(f"C11:table:{r['desc']}", f"{r['desc']}: implementation gives {r['obs']}, "
            + ("which the property forbids" if not r["spec_ok"] else "the model says otherwise (the specification is still met)"),
            {"kind": "table", "row": r["desc"], "observed": r["obs"], "theorem_or_tie": "Model.Coords transformation / field_call tables"},
            found_input=not r["spec_ok"])
    ctx.coverage["refusal_table_rows"] = len(rows)
    ctx.coverage["exhaustive"] = False
    ctx.sample({"table_row": tr[5]["desc"], "observed": tr[5]["obs"]})
    ctx.sample({"table_row": cl[7]["desc"], "observed": cl[7]["obs"]})

    # ---- 5. decide about broken lemmas / legs ---------------------------------------------------------------------
    for name, why in gen.broken:
        specs = related_specs(name, checks)
        ctx.violation(f"C11:leg:{name}", f"leg {name} could not be run on generic symbols / translated: {why}",
            {"kind": "broken-tie", "theorem_or_tie": f"translator, leg {name}", "error": why},
            found_input=any(s in spec_fail for s in specs))
    failed_corr = {n for n, st in res.items() if st != "ok" and n.startswith("corr_")}
    for lname, status in res.items():
        if status == "ok":
            continue
        if lname.startswith("comp_") and "was not found in the current environment" in status and any(
                f"reference {c} " in status for c in failed_corr):
            continue    # a consequence of a correspondence lemma already reported
        leg_name = lname.split("_", 1)[1]
        lm = next(l for l in gen.lemmas if l.name == lname)
        specs = related_specs(leg_name, checks)
        # look harder: more seeded points for the related specification checks
        found = None
        for s in specs:
            if s in spec_fail:
                found = (s, spec_fail[s])
                break
        if found is None:
            for s in specs:
                g, pred = checks[s]
                for _ in range(ctx.pick(40, 150)):
                    inp = g(rng)
                    n_eval += 1
                    try:
                        good, obs, want = pred(inp)
                    except Exception as e:  # pylint: disable=broad-except
                        good, obs, want = False, {"exception": f"{type(e).__name__}: {e}"}, {}
                    if not good:
                        found = (s, {"input": inp, "observed": obs, "expected": want})
                        break
                if found:
                    break
        rep = {"kind": "broken-proof", "theorem_or_tie": lname, "item": lm.item, "statement": lm.statement, "coq": status[-600:]}
        if found:
            rep.update({"check": found[0], **found[1]})
        ctx.violation(f"C11:lemma:{lname}", f"generated lemma {lname} ({lm.item}) is not proved"
            + (f"; specification check {found[0]} fails at {found[1]['input']}" if found else ""), rep, found_input=bool(found))

    ctx.evaluated(n_eval + n_obl + len(rows), len(seen) + len(rows))
    ctx.coverage["rule"] = ("spec checks: per check (4 round trips, dot/magnitude/scale in cyl and sph, 4 field directions) seeded points "
        "inside the domain, |coordinates| in [0.2,3], radius >= 0.2, polar angle in [0.15,2.9], dressed as float/Float/Rational; "
        "value-obliviousness: every non-field leg run on concrete numbers and compared with its generic output; "
        "history stream: seeded sequences of 3-6 operations (rebase both directions, field rebase, dot, magnitude, scale) on ONE set of "
        "system objects, each result compared with the same call on fresh system objects; plus sequences of operations (scale_vector, "
        "vector_unit, project_vector, magnitude, dot, rebase, field call / rebase) applied to the SAME Vector / ScalarField / Point objects; "
        "every Api call also checks that its argument objects are unchanged afterwards; "
        "tables: all 27 (operation, from, to) rows and all 24 (callable, point kind, field kind) rows. "
        "distinct = distinct (check, input) pairs; all are non-trivial (off the singular sets, all components non-zero)")
    ctx.coverage["spec_checks"] = sorted(checks)
    ctx.coverage["spec_points_per_check"] = n_pts


def replay(ctx, rep):
    api = Api()
    if rep.get("kind") == "history":
        seq = rep["sequence"]
        shared = api.fresh_view()
        bad = False
        pool = {}
        for st in seq:
            g = hist_step(shared, st, pool)
            ref = hist_step(api.fresh_view(), st)
            same = hist_same(g, ref)
            bad = bad or not same
            print(hist_describe(st))
            print("   on the reused system objects :", g)
            print("   on fresh system objects      :", ref, "" if same else "   <-- DIFFERS")
        print("->", "FAILS (history dependent)" if bad else "holds")
        return 1 if bad else 0
    kind = rep.get("kind")
    if kind == "spec" or rep.get("check"):
        name = rep["check"]
        _g, pred = spec_checks(api)[name]
        good, obs, want = pred(rep["input"])
        print(f"check {name} input={rep['input']}")
        print(f"  observed {obs}")
        print(f"  expected {want}")
        print("  ->", "holds" if good else "FAILS")
        return 0 if good else 1
    if kind == "table":
        for r in refusal_tables(api):
            if r["desc"] == rep["row"]:
                print(r["desc"], "->", r["obs"], "spec_ok =", r["spec_ok"])
                return 0 if r["spec_ok"] else 1
    print("no concrete input recorded; failing item:", rep.get("theorem_or_tie"))
    print(rep.get("coq") or rep.get("error") or "")
    return 1
