"""C04 -- the dimension gate admits exactly dimensionally equivalent arguments and results.

static theorems : coq/theories/Properties/C04.v  (about Model/Gate.v)
tie             : correspondence -- the real assert_equivalent_dimension / validate_* wrappers and the
                  Gallina model are run on the same seeded inputs; plus the catalogue's guard table."""
from __future__ import annotations

import json
import os

import ast
import importlib
import inspect
import pkgutil
from fractions import Fraction

import sympy
from sympy import S, I, oo, nan, zoo, Rational, Float
from sympy.physics import units
from sympy.physics.units import Dimension, Quantity as SymQuantity

from vp import coqrun, qx
from vp.qx import E_TYPE, E_UNITS, E_VALUE, E_OTHER

# ---------------------------------------------------------------------------------------------
# generators
# ---------------------------------------------------------------------------------------------

EXPONENTS = [Fraction(n) for n in (-3, -2, -1, 1, 2, 3)] + [Fraction(1, 2), Fraction(-1, 2), Fraction(1, 3),
    Fraction(3, 2), Fraction(-3, 2)]
# including exact and Float magnitudes far outside the range of a double: finite and non-zero, hence NOT "any dimension"
MAGS = [1, -1, 2, Rational(1, 3), Float(0.5), Float(-2.25), 10**30, Rational(1, 10**30), Float(1e-3), 7]
EXTREME = [10**400, Rational(1, 10**400), Float("1e306"), Float("1e-322"), Float("1.7e308")]   # used sparingly: large literals are slow in Coq
SPECIAL = [S.Zero, oo, -oo, nan]
ODD = [zoo, Float(0.0), I]


def base_dims():
    u = units
    return [u.length, u.mass, u.time, u.current, u.temperature, u.amount_of_substance, u.luminous_intensity]


def base_units():
    u = units
    return [u.meter, u.kilogram, u.second, u.ampere, u.kelvin, u.mole, u.candela]


def rand_dimvec(rng, with_angle=True):
    vec = [Fraction(0)] * 7
    for _ in range(rng.choice([0, 1, 1, 2, 2, 3])):
        vec[rng.randrange(7)] += rng.choice(EXPONENTS)
    ang = rng.choice([0, 0, 0, 1, -1]) if with_angle else 0
    return tuple(vec), Fraction(ang)


def dimension_from_vec(vec, ang, rng):
    """A Dimension object with these dependencies, written through base *and* derived dimensions."""
    from symplyphysics import angle_type  # pylint: disable=import-outside-toplevel
    d = Dimension(1)
    vec = list(vec)
    u = units
    if rng.random() < 0.4:
        # peel a derived dimension off: energy = M L^2 T^-2, force = M L T^-2, velocity = L T^-1
        name, dv = rng.choice([(u.energy, (2, 1, -2)), (u.force, (1, 1, -2)), (u.velocity, (1, 0, -1)),
            (u.pressure, (-1, 1, -2)), (u.power, (2, 1, -3)), (u.frequency, (0, 0, -1))])
        d = d * name
        for i in range(3):
            vec[i] -= dv[i]
    for b, e in zip(base_dims(), vec):
        if e != 0:
            d = d * b**Rational(e.numerator, e.denominator)
    if ang != 0:
        d = d * angle_type**int(ang)
    return d


def unit_expr_from_vec(vec, ang, rng):
    """A unit expression (product of powers of base/derived units, maybe prefixed) of these dependencies
    and its scale relative to SymPy's base (not needed by the gate)."""
    u = units
    e = S.One
    vec = list(vec)
    if rng.random() < 0.4:
        unit, dv = rng.choice([(u.joule, (2, 1, -2)), (u.newton, (1, 1, -2)), (u.watt, (2, 1, -3)),
            (u.pascal, (-1, 1, -2)), (u.hertz, (0, 0, -1))])
        e = e * unit
        for i in range(3):
            vec[i] -= dv[i]
    for b, x in zip(base_units(), vec):
        if x != 0:
            if b is u.meter and rng.random() < 0.3:
                b = rng.choice([u.kilometer, u.centimeter])
            if b is u.second and rng.random() < 0.2:
                b = u.minute
            if b is u.kilogram and rng.random() < 0.3:
                b = u.gram
            e = e * b**Rational(x.numerator, x.denominator)
    if rng.random() < 0.15:
        e = e * rng.choice([u.kilo, u.milli, u.micro, u.mega])
    return e


def gen_arg(rng, vec, ang):
    """Returns (python object given to the gate, description, kind)."""
    from symplyphysics import Quantity, Symbol, angle_type, clone_as_symbol  # pylint: disable=import-outside-toplevel
    r = rng.random()
    mag = rng.choice(EXTREME) if rng.random() < 0.03 else rng.choice(MAGS)
    if r < 0.10:
        v = rng.choice(SPECIAL + ODD + MAGS)
        return v, f"bare {v!r}", "number"
    if r < 0.2:
        v = rng.choice(SPECIAL)
        return Quantity(v * unit_expr_from_vec(vec, ang, rng) if v is S.Zero else v,
            dimension=dimension_from_vec(vec, ang, rng)), f"special quantity {v}", "special-quantity"
    if r < 0.55:
        e = mag * unit_expr_from_vec(vec, ang, rng)
        q = Quantity(e)
        if ang != 0:
            q = Quantity(q.scale_factor, dimension=q.dimension * angle_type**int(ang))
        return q, f"Quantity({e})" + (f"*angle^{ang}" if ang else ""), "quantity"
    if r < 0.7:
        e = mag * unit_expr_from_vec(vec, ang, rng)
        return e, f"expr {e}", "expression"
    if r < 0.8:
        d = dimension_from_vec(vec, ang, rng)
        return d, f"Dimension {d}", "dimension"
    if r < 0.9:
        d = dimension_from_vec(vec, ang, rng)
        k = rng.random()
        if k < 0.4:
            return Symbol("x", d), f"Symbol(dim={d})", "dimension-symbol"
        # the other kinds of dimensioned objects the decorator reads through `.dimension`
        from symplyphysics import Function, IndexedSymbol, QuantityVector  # pylint: disable=import-outside-toplevel
        from symplyphysics.core.operations.symbolic import Average, FiniteDifference  # pylint: disable=import-outside-toplevel
        if k < 0.55:
            return rng.choice([Average, FiniteDifference])(Symbol("x", d)), f"wrapper of Symbol(dim={d})", "dimension-symbol"
        if k < 0.7:
            return Function("f", [Symbol("t")], d), f"Function(dim={d})", "dimension-symbol"
        if k < 0.8:
            return IndexedSymbol("x", dimension=d), f"IndexedSymbol(dim={d})", "dimension-symbol"
        if ang == 0:
            e = mag * unit_expr_from_vec(vec, 0, rng)
            return QuantityVector([Quantity(e), Quantity(2 * e)]), f"QuantityVector of {e}", "dimension-symbol"
        return Symbol("x", d), f"Symbol(dim={d})", "dimension-symbol"
    if r < 0.95:
        e = mag * unit_expr_from_vec(vec, ang, rng)
        q1, q2 = Quantity(e), Quantity(3 * e)
        return q1 + q2, f"sum of quantities {e}", "expression"
    x = sympy.Symbol("free")
    return x * unit_expr_from_vec(vec, ang, rng), "free symbol expr", "malformed"


def gen_expected(rng, vec, ang):
    from symplyphysics import Symbol  # pylint: disable=import-outside-toplevel
    r = rng.random()
    if r < 0.5:
        d = dimension_from_vec(vec, ang, rng)
        return d, f"Dimension {d}"
    if r < 0.75:
        d = dimension_from_vec(vec, ang, rng)
        k = rng.random()
        if k < 0.5:
            return Symbol("p", d), f"Symbol(dim={d})"
        from symplyphysics import Function, IndexedSymbol  # pylint: disable=import-outside-toplevel
        from symplyphysics.core.operations.symbolic import Average  # pylint: disable=import-outside-toplevel
        if k < 0.7:
            return Function("g", [Symbol("t")], d), f"Function(dim={d})"
        if k < 0.85:
            return IndexedSymbol("p", dimension=d), f"IndexedSymbol(dim={d})"
        return Average(Symbol("p", d)), f"Average(Symbol(dim={d}))"
    if r < 0.95:
        e = unit_expr_from_vec(vec, ang, rng)
        return e, f"unit expr {e}"
    e = 0 * unit_expr_from_vec(vec, ang, rng) if rng.random() < 0.5 else S.Zero
    return e, f"zero-valued unit expr {e}"


def garg_lit(obj) -> str:
    """What reaches assert_equivalent_dimension for this object (mirrors the *intended* reading of
    _assert_expected_unit: a dimensioned symbol stands for its dimension, a quantity for itself)."""
    from symplyphysics.core.symbols.symbols import DimensionSymbol  # pylint: disable=import-outside-toplevel
    from symplyphysics.core.operations.symbolic import Symbolic  # pylint: disable=import-outside-toplevel
    if isinstance(obj, SymQuantity):
        return f"(GExpr {qx.qexpr_lit(obj)})"
    if isinstance(obj, (DimensionSymbol, Symbolic)):
        return f"(GDim {qx.dim_lit(qx.dim_vec(obj.dimension))})"
    if isinstance(obj, Dimension):
        return f"(GDim {qx.dim_lit(qx.dim_vec(obj))})"
    return f"(GExpr {qx.qexpr_lit(obj)})"


def gexp_lit(obj) -> str:
    """What reaches the gate as `expected_unit`: a dimensioned symbol (symplyphysics Quantity included) stands
    for its dimension; a raw unit expression is collected."""
    from symplyphysics.core.symbols.symbols import DimensionSymbol  # pylint: disable=import-outside-toplevel
    from symplyphysics.core.operations.symbolic import Symbolic  # pylint: disable=import-outside-toplevel
    if isinstance(obj, (DimensionSymbol, Symbolic)):
        return f"(GDim {qx.dim_lit(qx.dim_vec(obj.dimension))})"
    if isinstance(obj, Dimension):
        return f"(GDim {qx.dim_lit(qx.dim_vec(obj))})"
    return f"(GExpr {qx.qexpr_lit(obj)})"


def verdict_lit(v) -> str:
    return "None" if v is None else f"(Some {v}%N)"


def run_impl(fn, *a, **k):
    try:
        fn(*a, **k)
    except Exception as e:  # pylint: disable=broad-except
        return qx.err_class(e), f"{type(e).__name__}: {e}"[:160]
    return None, ""


CONTEXTS = ["direct", "nested", "thread", "nested-output"]


def run_in_context(kind, fn, *a, **k):
    """The verdict of a guarded call is a function of the call alone (the model is stateless): it must be the same when the call
    is made while another guarded function is executing -- from its body, from another thread meanwhile, or while the
    result of another guarded function is being produced."""
    if kind == "direct":
        return run_impl(fn, *a, **k)
    import threading  # pylint: disable=import-outside-toplevel
    from symplyphysics import Quantity, validate_input, validate_output  # pylint: disable=import-outside-toplevel
    res = {}

    def body():
        res["v"] = run_impl(fn, *a, **k)

    def outer(length_):  # pylint: disable=unused-argument
        if kind == "thread":
            t = threading.Thread(target=body)
            t.start()
            t.join()
        else:
            body()
        return length_
    if kind == "nested-output":
        outer = validate_output(units.length)(outer)
    outer = validate_input(length_=units.length)(outer)
    outer(Quantity(2 * units.meter))
    return res["v"]


# ---------------------------------------------------------------------------------------------
# specification predicate (written from the property text, used only after a disagreement)
# ---------------------------------------------------------------------------------------------

def spec_allowed(arg, exp):
    """Set of verdicts the property allows for the implementation on (arg, exp); None = property silent."""
    from symplyphysics.core.symbols.symbols import DimensionSymbol  # pylint: disable=import-outside-toplevel
    from symplyphysics.core.dimensions import collect_quantity_factor_and_dimension as cq  # pylint: disable=import-outside-toplevel

    def dim_and_val(o):
        if isinstance(o, SymQuantity):
            return qx.dim_vec(o.dimension), qx.val_class(o.scale_factor), True
        if isinstance(o, DimensionSymbol):
            return qx.dim_vec(o.dimension), None, True
        if isinstance(o, Dimension):
            return qx.dim_vec(o), None, True
        val = qx.pyvalue(o)
        has_q = bool(sympy.sympify(o).atoms(SymQuantity))
        try:
            _, d = cq(o)
        except Exception:  # pylint: disable=broad-except
            return None, qx.val_class(val), has_q
        return qx.dim_vec(d), qx.val_class(val), has_q

    try:
        ad, av, a_is_q = dim_and_val(arg)
        xd, xv, _ = dim_and_val(exp)
    except qx.Unsupported:
        return None
    if ad is None or xd is None:
        return None
    anyv = lambda v: v is not None and (v[0] in ("PInf", "NInf", "NaN", "F0") or (v[0] == "Q" and v[1] == 0))
    if anyv(av) or anyv(xv):
        return {None}
    erase = lambda d: d[:7] + (Fraction(0),) + d[8:]
    if erase(ad) == erase(xd):
        return {None}
    if av is not None and av[0] == "Sym":
        return {E_TYPE, E_UNITS, E_VALUE}
    if not a_is_q:
        return {E_TYPE}
    if all(x == 0 for x in erase(ad)):
        return {E_TYPE, E_UNITS}
    return {E_UNITS}


# ---------------------------------------------------------------------------------------------
# streams
# ---------------------------------------------------------------------------------------------

def stream_gate1(ctx, n):
    from symplyphysics.core.dimensions import assert_equivalent_dimension  # pylint: disable=import-outside-toplevel
    rng = ctx.rng
    cases = []
    hist = {}
    tries = 0
    while len(cases) < n and tries < 5 * n:
        tries += 1
        vec, ang = rand_dimvec(rng)
        mode = rng.random()
        if mode < 0.5:
            xvec, xang = vec, rng.choice([ang, ang, Fraction(0), Fraction(1)])  # equal up to angle
        elif mode < 0.7:
            xvec, xang = tuple(Fraction(0) for _ in vec), Fraction(0)           # declared dimensionless
        else:
            xvec, xang = rand_dimvec(rng)
        try:
            arg, adesc, kind = gen_arg(rng, vec, ang)
            exp, xdesc = gen_expected(rng, xvec, xang)
            from symplyphysics.core.symbols.symbols import DimensionSymbol  # pylint: disable=import-outside-toplevel
            # the decorator layer turns dimensioned symbols into dimensions before calling the gate
            from symplyphysics.core.operations.symbolic import Symbolic  # pylint: disable=import-outside-toplevel
            a_in = arg.dimension if isinstance(arg, (DimensionSymbol, Symbolic)) and not isinstance(arg, SymQuantity) else arg
            x_in = exp.dimension if isinstance(exp, (DimensionSymbol, Symbolic)) else exp
            lit = f"({garg_lit(arg)}, {gexp_lit(exp)}"
        except qx.Unsupported:
            continue
        v, msg = run_impl(assert_equivalent_dimension, a_in, "p", "f", x_in)
        cases.append({"lit": lit + f", {verdict_lit(v)})", "arg": arg, "exp": exp, "impl": v, "msg": msg,
            "desc": f"{adesc}  vs  {xdesc}", "kind": kind})
        hist[(kind, v)] = hist.get((kind, v), 0) + 1
    return cases, hist


def stream_calls(ctx, n):
    """Guarded probe functions built on the fly: validate_input / validate_output / validate_output_same,
    scalar / list / tuple-spec arguments, positional vs keyword passing."""
    from symplyphysics import validate_input, validate_output  # pylint: disable=import-outside-toplevel
    from symplyphysics.core.quantity_decorator import validate_output_same  # pylint: disable=import-outside-toplevel
    rng = ctx.rng
    cases = []
    hist = {}
    names = ["a_", "b_", "c_"]

    def gval(vec, ang, wrongp):
        """(python value, literal)"""
        def one():
            v2, a2 = (vec, ang) if rng.random() > wrongp else rand_dimvec(rng)
            for _ in range(20):
                try:
                    o, _d, _k = gen_arg(rng, v2, a2)
                    garg_lit(o)
                    if isinstance(o, Dimension):
                        continue  # a bare Dimension is not a value anyone passes
                    return o
                except qx.Unsupported:
                    continue
            return 1
        if rng.random() < 0.3:
            items = [one() for _ in range(rng.choice([0, 1, 2, 3]))]
            seq = items if rng.random() < 0.5 else tuple(items)
            return seq, "(GSeq [" + "; ".join(garg_lit(o) for o in items) + "])", len(items)
        o = one()
        return o, f"(GOne {garg_lit(o)})", None

    def gspec(vec, ang, seqlen):
        if seqlen is not None and rng.random() < 0.3:
            k = seqlen if rng.random() < 0.8 else max(0, seqlen - 1)
            xs = [gen_expected(rng, vec, ang)[0] for _ in range(k)]
            return tuple(xs), "(STuple [" + "; ".join(gexp_lit(x) for x in xs) + "])"
        x = gen_expected(rng, vec, ang)[0]
        return x, f"(SOne {gexp_lit(x)})"

    tries = 0
    while len(cases) < n and tries < 5 * n:
        tries += 1
        try:
            nparams = rng.choice([1, 2, 3])
            params = names[:nparams]
            dims = [rand_dimvec(rng) for _ in params]
            vals = [gval(v, a, 0.25) for (v, a) in dims]
            if nparams >= 2 and rng.random() < 0.2:
                # aliasing: the very same object is passed for two parameters (declared with different dimensions, so it is
                # wrong for at least one of them); every parameter is judged on its own declaration
                i, j = rng.sample(range(nparams), 2)
                vals[j] = vals[i]
            guards = {}
            guards_lit = []
            for i, p in enumerate(params):
                if rng.random() < 0.8:
                    spec, slit = gspec(dims[i][0], dims[i][1], vals[i][2])
                    guards[p] = spec
                    guards_lit.append(f"({i}%N, {slit})")
            rvec, rang = rand_dimvec(rng)
            ret = gval(rvec, rang, 0.3)
            out_kind = rng.choice(["none", "out", "out", "same"])
            out_lit = "None"
            same_idx = None
            if out_kind == "out":
                ospec, olit = gspec(rvec, rang, ret[2])
                out_lit = f"(Some {olit})"
            elif out_kind == "same":
                same_idx = rng.randrange(nparams)
        except qx.Unsupported:
            continue

        src = f"def probe({', '.join(params)}):\n    return __ret\n"
        ns = {"__ret": ret[0]}
        exec(src, ns)  # pylint: disable=exec-used
        fn = ns["probe"]
        if out_kind == "out":
            fn = validate_output(ospec)(fn)
        elif out_kind == "same":
            fn = validate_output_same(params[same_idx])(fn)
        # catalogue order: @validate_input above @validate_output
        fn = validate_input(**guards)(fn)
        npos = rng.randrange(nparams + 1)
        pos = [vals[i][0] for i in range(npos)]
        kw_idx = list(range(npos, nparams))
        rng.shuffle(kw_idx)
        kw = {params[i]: vals[i][0] for i in kw_idx}
        how = "direct" if rng.random() < 0.7 else rng.choice(CONTEXTS[1:])
        v, msg = run_in_context(how, fn, *pos, **kw)
        if out_kind == "same":
            # validate_output_same: the spec is the *argument itself* (quantity / list), read as expectation
            sv = vals[same_idx]
            if sv[2] is None:
                out_lit = f"(Some (SOne {gexp_lit(sv[0])}))"
            else:
                out_lit = "(Some (STuple [" + "; ".join(gexp_lit(o) for o in sv[0]) + "]))"
        pos_lit = "[" + "; ".join(vals[i][1] for i in range(npos)) + "]"
        kw_lit = "[" + "; ".join(f"({i}%N, {vals[i][1]})" for i in kw_idx) + "]"
        params_lit = "[" + "; ".join(f"{i}%N" for i in range(nparams)) + "]"
        lit = (f"(({params_lit}, [{'; '.join(guards_lit)}], {out_lit}), ({pos_lit}, {kw_lit}, {ret[1]}), "
            f"{verdict_lit(v)})")
        cases.append({"lit": lit, "impl": v, "msg": msg, "kind": f"call/{out_kind}",
            "desc": f"probe({params}) guards={list(guards)} out={out_kind} npos={npos} context={how}"})
        hist[(f"call/{out_kind}", v)] = hist.get((f"call/{out_kind}", v), 0) + 1
    return cases, hist


def stream_history(ctx, n):
    """The verdict must not depend on what was checked before: the same guarded function is called several times in a
    row with quantities of the SAME (actual, declared) dimension pair but different magnitudes -- zero / infinite (passes as
    any-dimension), then non-zero (must be judged on its dimension), a bare number, again non-zero.  Each verdict is
    compared with the (stateless) model."""
    from symplyphysics import Quantity, validate_input  # pylint: disable=import-outside-toplevel
    rng = ctx.rng
    cases = []
    for _ in range(n):
        vec, ang = rand_dimvec(rng)
        xvec, xang = (vec, ang) if rng.random() < 0.3 else rand_dimvec(rng)
        try:
            adim = dimension_from_vec(vec, ang, rng)
            exp, xdesc = gen_expected(rng, xvec, xang)
            elit = gexp_lit(exp)
            unit = unit_expr_from_vec(vec, 0, rng)
            seq = [Quantity(S.Zero, dimension=adim), Quantity(rng.choice(EXTREME if rng.random() < 0.15 else MAGS) * unit), Quantity(3), Quantity(oo, dimension=adim),
                Quantity(rng.choice(MAGS) * unit), 5, Quantity(0 * unit), Quantity(rng.choice(MAGS) * unit)]
            rng.shuffle(seq)
            seq = seq[:rng.choice([3, 4, 5, 6])]
            lits = [garg_lit(a) for a in seq]
        except qx.Unsupported:
            continue
        ns = {}
        exec("def probe(a_):\n    return None\n", ns)  # pylint: disable=exec-used
        fn = validate_input(a_=exp)(ns["probe"])
        for step, (a, alit) in enumerate(zip(seq, lits)):
            how = CONTEXTS[(len(cases) + step) % len(CONTEXTS)] if rng.random() < 0.6 else "direct"
            v, msg = run_in_context(how, fn, a)
            cases.append({"lit": f"({alit}, {elit}, {verdict_lit(v)})", "arg": a, "exp": exp, "impl": v, "msg": msg, "kind": "history",
                "desc": f"call #{step + 1} of a sequence on one guarded function (declared {xdesc}), context={how}: {a}"})
    return cases


def stream_interpreter_modes(ctx):
    """The gate must refuse in every interpreter mode (it is not an `assert`): fixed guarded calls whose verdict the property
    text fixes are run in child interpreters started as python and python -O."""
    import subprocess  # pylint: disable=import-outside-toplevel
    from vp import c04_probe, common  # pylint: disable=import-outside-toplevel
    probe = str(common.VERIF / "harness" / "vp" / "c04_probe.py")
    env = dict(os.environ, PYTHONPATH=str(common.REPO), PYTHONDONTWRITEBYTECODE="1")
    n = 0
    for flags in ([], ["-O"]):   # (-OO strips docstrings and SymPy 1.14 itself no longer imports: not a mode the library can run in)
        mode = "python " + " ".join(flags)
        try:
            r = subprocess.run([common.PYTHON, *flags, probe], capture_output=True, text=True, timeout=600, env=env, check=False)
            data = json.loads(r.stdout)
        except Exception as e:  # pylint: disable=broad-except
            ctx.violation(f"C04:modes:{mode.strip()}:probe-failed", f"the probe of guarded calls did not run under `{mode}`: {type(e).__name__}: {e}"[:300],
                {"kind": "broken-tie", "mode": mode, "stderr": (r.stderr[-800:] if "r" in locals() else "")}, found_input=False)
            continue
        for name, verdict in data["verdicts"]:
            n += 1
            want = c04_probe.EXPECTED[name]
            if verdict != want:
                ctx.violation(f"C04:modes:{mode.strip()}:{name}", f"under `{mode}` the guarded call {name} gave {verdict or 'a normal return'}, "
                    f"the property requires {want or 'a normal return'}",
                    {"kind": "violation", "stream": "interpreter-modes", "mode": mode, "call": name, "observed": verdict, "required": want,
                     "how": f"PYTHONPATH={common.REPO} {common.PYTHON} {' '.join(flags)} {probe}"}, True)
    return n


def stream_qvec(ctx, n):
    """QuantityVector construction: each component checked (angle slots of curvilinear systems against angle)."""
    from symplyphysics import Quantity, QuantityVector, angle_type  # pylint: disable=import-outside-toplevel
    from symplyphysics.core.coordinate_systems.coordinate_systems import CoordinateSystem  # pylint: disable=import-outside-toplevel
    rng = ctx.rng
    systems = [CoordinateSystem(CoordinateSystem.System.CARTESIAN), CoordinateSystem(CoordinateSystem.System.CYLINDRICAL),
        CoordinateSystem(CoordinateSystem.System.SPHERICAL)]
    cases = []
    hist = {}
    tries = 0
    while len(cases) < n and tries < 4 * n:
        tries += 1
        sys_i = rng.randrange(3)
        vec, _a = rand_dimvec(rng, with_angle=False)
        ncomp = rng.choice([0, 1, 2, 3, 3, 3])
        override = None
        if rng.random() < 0.35:
            override = dimension_from_vec(*( (vec, Fraction(0)) if rng.random() < 0.7 else rand_dimvec(rng, with_angle=False)), rng)
        comps, lits = [], []
        try:
            for idx in range(ncomp):
                angle_slot = (sys_i == 1 and idx == 1) or (sys_i == 2 and idx in (1, 2))
                r = rng.random()
                if angle_slot and r < 0.7:
                    v2, a2 = tuple(Fraction(0) for _ in vec), Fraction(1)
                elif r < 0.8:
                    v2, a2 = vec, Fraction(0)
                else:
                    v2, a2 = rand_dimvec(rng)
                k = rng.random()
                if k < 0.12:
                    c = Quantity(S.Zero, dimension=dimension_from_vec(v2, a2, rng))
                elif k < 0.75:
                    c = Quantity(rng.choice(MAGS) * unit_expr_from_vec(v2, 0, rng))
                    if a2 != 0:
                        c = Quantity(c.scale_factor, dimension=c.dimension * angle_type**int(a2))
                elif k < 0.9:
                    c = rng.choice(MAGS) * unit_expr_from_vec(v2, 0, rng)      # raw expression
                else:
                    c = rng.choice([0, 1, 5, Float(0.0)])                        # bare number
                comps.append(c)
                if isinstance(c, Quantity):
                    lits.append(f"(CQ {qx.val_lit(qx.val_class(c.scale_factor))} {qx.dim_lit(qx.dim_vec(c.dimension))})")
                else:
                    lits.append(f"(CE {qx.qexpr_lit(c)})")
            olit = "None" if override is None else f"(Some {qx.dim_lit(qx.dim_vec(override))})"
        except qx.Unsupported:
            continue
        try:
            qv = QuantityVector(comps, systems[sys_i], dimension=override) if override is not None else QuantityVector(comps, systems[sys_i])
            obs = ("ok", qx.dim_vec(qv.dimension))
            rlit = f"(Ok {qx.dim_lit(obs[1])})"
        except qx.Unsupported:
            continue
        except Exception as e:  # pylint: disable=broad-except
            obs = ("err", qx.err_class(e), f"{type(e).__name__}: {e}"[:160])
            rlit = f"(Err {obs[1]}%N)"
        cases.append({"lit": f"({sys_i}%nat, [{'; '.join(lits)}], {olit}, {rlit})", "impl": obs, "msg": str(obs), "kind": "qvec",
            "desc": f"QuantityVector({[str(c) for c in comps]}, system #{sys_i}, dimension={override})"})
        hist[("qvec", obs[0] if obs[0] == "ok" else obs[1])] = hist.get(("qvec", obs[0] if obs[0] == "ok" else obs[1]), 0) + 1
    return cases, hist


# ---------------------------------------------------------------------------------------------
# catalogue
# ---------------------------------------------------------------------------------------------

def iter_catalogue_modules(ctx):
    import symplyphysics  # pylint: disable=import-outside-toplevel
    failed = []
    for top in ("laws", "definitions", "conditions"):
        pkg = importlib.import_module(f"symplyphysics.{top}")
        for info in pkgutil.walk_packages(pkg.__path__, pkg.__name__ + "."):
            if info.ispkg:
                continue
            try:
                yield importlib.import_module(info.name)
            except Exception as e:  # pylint: disable=broad-except
                failed.append((info.name, f"{type(e).__name__}: {e}"[:200]))
    ctx.coverage["modules_failing_import"] = failed


def decorator_specs(fn):
    """Walk the __wrapped__ chain and read the closures of the validate_* wrappers."""
    specs = {"input": {}, "output": [], "same": []}
    f = fn
    while f is not None:
        try:
            nl = inspect.getclosurevars(f).nonlocals
        except TypeError:
            nl = {}
        if "decorator_kwargs" in nl:
            specs["input"].update(nl["decorator_kwargs"])
        if "expected_unit" in nl:
            specs["output"].append(nl["expected_unit"])
        if "param_name" in nl and "decorator_kwargs" not in nl:
            specs["same"].append(nl["param_name"])
        f = getattr(f, "__wrapped__", None)
    return specs


def ast_guard_table(module):
    """From the source text: for every decorated def, (function name, parameter names, validate_input keywords)."""
    src = inspect.getsource(module)
    out = []
    for node in ast.parse(src).body:
        if not isinstance(node, ast.FunctionDef):
            continue
        kws = []
        for dec in node.decorator_list:
            if isinstance(dec, ast.Call) and getattr(dec.func, "id", getattr(dec.func, "attr", "")) == "validate_input":
                kws += [k.arg for k in dec.keywords if k.arg]
        params = [a.arg for a in node.args.posonlyargs + node.args.args + node.args.kwonlyargs]
        out.append((node.name, params, kws))
    return out


def si_quantity_for(spec, rng, mag=None):
    from symplyphysics import Quantity  # pylint: disable=import-outside-toplevel
    from symplyphysics.core.dimensions import dimension_to_si_unit  # pylint: disable=import-outside-toplevel
    d = getattr(spec, "dimension", spec)
    if not isinstance(d, Dimension):
        return Quantity(spec)
    mag = mag if mag is not None else rng.choice([1, 2, 3, 5])
    return Quantity(mag * dimension_to_si_unit(d), dimension=d)


def catalogue(ctx):
    """(i) finite table: every guard keyword names a parameter (kernel-checked);
       (ii) every guarded parameter refuses a quantity of another dimension, naming the parameter."""
    from symplyphysics import Quantity  # pylint: disable=import-outside-toplevel
    rng = ctx.rng
    rows = []
    probes = 0
    nfun = 0
    seen_params = 0
    for mod in iter_catalogue_modules(ctx):
        table = {name: (params, kws) for name, params, kws in ast_guard_table(mod)}
        for name, fn in vars(mod).items():
            if not (callable(fn) and hasattr(fn, "__wrapped__") and getattr(fn, "__module__", None) == mod.__name__):
                continue
            specs = decorator_specs(fn)
            if not (specs["input"] or specs["output"] or specs["same"]):
                continue
            nfun += 1
            params = list(inspect.signature(fn).parameters)
            ast_params, ast_kws = table.get(name, (params, list(specs["input"])))
            guard_names = sorted(set(specs["input"]) | set(ast_kws) | set(specs["same"]))
            rows.append((f"{mod.__name__}.{name}", sorted(set(params) | set(ast_params)) if False else params, guard_names))
            if set(ast_kws) != set(specs["input"]):
                ctx.violation(f"C04:catalogue:{mod.__name__}.{name}:ast-closure-mismatch",
                    "validate_input keywords read from the source differ from the wrapper's closure",
                    {"kind": "broken-tie", "item": f"{mod.__name__}.{name}", "ast": ast_kws, "closure": list(specs["input"])},
                    found_input=False)
            # dynamic refusal probe
            limit = ctx.pick(1, len(specs["input"]))
            guarded = [p for p in params if p in specs["input"]]
            rng.shuffle(guarded)
            for p in guarded[:limit]:
                seen_params += 1
                spec = specs["input"][p]
                spec0 = spec[0] if isinstance(spec, (tuple, list)) else spec
                try:
                    dv = qx.dim_vec(getattr(spec0, "dimension", spec0)) if not isinstance(spec0, SymQuantity) else qx.dim_vec(spec0.dimension)
                except (qx.Unsupported, Exception):  # pylint: disable=broad-except
                    continue
                if dv[8] != 0:
                    continue  # declared any_dimension: nothing is "wrong"
                wrong_dim = units.length * units.mass * units.current if dv[:7] != (1, 1, 0, 1, 0, 0, 0) else units.time
                wrong = Quantity(3 * units.meter * units.kilogram * units.ampere) if wrong_dim != units.time else Quantity(3 * units.second)
                kwargs = {}
                ok = True
                for q in params:
                    if q == p:
                        kwargs[q] = wrong
                    elif q in specs["input"]:
                        s = specs["input"][q]
                        try:
                            kwargs[q] = [si_quantity_for(x, rng) for x in s] if isinstance(s, (tuple, list)) else si_quantity_for(s, rng)
                        except Exception:  # pylint: disable=broad-except
                            ok = False
                    else:
                        kwargs[q] = 1
                if not ok:
                    continue
                probes += 1
                try:
                    fn(**kwargs)
                    got = None
                    msg = ""
                except Exception as e:  # pylint: disable=broad-except
                    got = qx.err_class(e)
                    msg = str(e)
                # the same call with every argument passed positionally, and by keyword in reversed order
                styles = []
                all_positional = all(pp.kind == inspect.Parameter.POSITIONAL_OR_KEYWORD
                    for pp in inspect.signature(fn).parameters.values())
                calls = [("keywords reversed", lambda: fn(**dict(reversed(list(kwargs.items())))))]
                if all_positional:
                    calls.append(("positional", lambda: fn(*[kwargs[q] for q in params])))
                for label, call in calls:
                    try:
                        call()
                        styles.append((label, None, ""))
                    except Exception as e:  # pylint: disable=broad-except
                        styles.append((label, qx.err_class(e), str(e)))
                for label, g2, m2 in styles:
                    if g2 != got or (f"'{p}'" in msg) != (f"'{p}'" in m2):
                        ctx.violation(f"C04:catalogue:{mod.__name__}.{name}:{p}:call-style",
                            f"the verdict on parameter {p} of {mod.__name__}.{name} depends on the call style ({label})",
                            {"kind": "violation", "item": f"{mod.__name__}.{name}", "param": p, "wrong": str(wrong),
                             "observed": {"keyword": [got, msg[:200]], label: [g2, m2[:200]]}, "expected": "the same verdict"})
                if got != E_UNITS or f"'{p}'" not in msg:
                    ctx.violation(f"C04:catalogue:{mod.__name__}.{name}:{p}",
                        f"guarded parameter {p} of {mod.__name__}.{name} did not refuse a wrong-dimension quantity with a units error naming it",
                        {"kind": "violation", "item": f"{mod.__name__}.{name}", "param": p, "wrong": str(wrong),
                         "observed": {"error_class": got, "message": msg[:300]}, "expected": "UnitsError naming the parameter"})
    # finite table, decided inside Coq
    ids = {}
    def nid(s):
        return ids.setdefault(s, len(ids))
    lits = []
    for fq, params, gs in rows:
        ps = "[" + "; ".join(f"{nid((fq, p))}%N" for p in params) + "]"
        g = "[" + "; ".join(f"{nid((fq, x))}%N" for x in gs) + "]"
        lits.append(f"({ps}, {g})")
    bad = coqrun.eval_cases(ctx, "catalogue_guards", qx.PREAMBLE, lits,
        "fun c : list N * list N => forallb (fun g => mem g (fst c)) (snd c)", per_file=400)
    for i in bad:
        fq, params, gs = rows[i]
        ctx.violation(f"C04:catalogue:{fq}:guard-names", f"guard declaration of {fq} names a non-existent parameter",
            {"kind": "violation", "item": fq, "params": params, "guards": gs})
    from vp import findings as _findings  # pylint: disable=import-outside-toplevel
    known = {k for k, e in _findings.load("C04").items() if e.get("status") == "known"}
    n_known = sum(1 for i in bad if f"C04:catalogue:{rows[i][0]}:guard-names" in known)
    # rows listed as known findings are reported, not claimed
    ctx.obligations(len(rows) - n_known, len(rows) - len(bad))
    ctx.coverage["catalogue_rows_known_findings"] = n_known
    ctx.coverage["catalogue_functions"] = nfun
    ctx.coverage["catalogue_guard_rows"] = len(rows)
    ctx.coverage["catalogue_refusal_probes"] = probes
    ctx.coverage["catalogue_guarded_params_seen"] = seen_params
    ctx.evaluated(probes, probes)
    if rows:
        ctx.sample({"catalogue_row": rows[0]})


# ---------------------------------------------------------------------------------------------

STATIC = ["C04_gate1_pass_iff", "C04_gate1_typeerr_iff", "C04_gate1_unitserr_iff", "C04_gate1_partition",
    "C04_bare_number_refused", "C04_any_value_passes", "C04_magnitude_irrelevant", "C04_prefix_irrelevant",
    "C04_seq_pass_iff", "C04_seq_first_failure", "C04_runs_only_if_all_pass", "C04_output_gate",
    "C04_bind_style_irrelevant", "C04_qvec_every_component_checked", "C04_qvec_failure_refuses",
    "C04_bind_any_style", "C04_call_style_irrelevant"]


def decide_disagreements(ctx, cases, bad, stream):
    for i in bad[:50]:
        c = cases[i]
        key = f"C04:{stream}:{c['lit'][:400]}"
        replay = {"kind": "disagreement", "stream": stream, "case": c["desc"], "gallina": c["lit"],
            "observed": {"impl_verdict": c["impl"], "message": c["msg"]}, "theorem_or_tie": f"correspondence Gate.v ~ implementation ({stream})"}
        allowed = spec_allowed(c["arg"], c["exp"]) if "arg" in c else None
        if allowed is not None and c["impl"] not in allowed:
            replay["expected"] = sorted(str(a) for a in allowed)
            ctx.violation(key, f"gate verdict {c['impl']} contradicts the property on: {c['desc']}", replay, True)
        else:
            ctx.violation(key, f"model and implementation disagree on: {c['desc']}", replay, False)


def run(ctx):
    ctx.level = "proof"
    ctx.static(STATIC)
    ctx.trust("Coq 8.16.1 kernel incl. vm_compute (no native_compute)",
        "harness/vp/qx.py: SymPy object -> Gallina literal serialiser and exception canonicaliser",
        "sympy.physics.units dimsys_SI.get_dimensional_dependencies (observed through the tie, not modelled)",
        "inspect.signature.bind (modelled for plain positional-or-keyword parameters)")
    ctx.assume("the gate depends on SymPy values only through the classes of Val.v (exact rational / float zero / "
        "+-oo / nan / zoo / other number / non-number)")

    n1 = ctx.pick(2500, 30000)
    cases, hist = stream_gate1(ctx, n1)
    ctx.log("gate1 stream generated")
    bad = coqrun.eval_cases(ctx, "gate1", qx.PREAMBLE, [c["lit"] for c in cases],
        "fun c : garg * garg * verdict => verdict_eqb (gate1 (fst (fst c)) (snd (fst c))) (snd c)",
        case_type="garg * garg * verdict")
    ctx.log("gate1 stream evaluated in Coq")
    decide_disagreements(ctx, cases, bad, "gate1")
    distinct = len({c["lit"] for c in cases if c["kind"] != "number" or c["impl"] is not None})
    ctx.evaluated(len(cases), distinct)
    for c in cases[:3]:
        ctx.sample({"stream": "gate1", "case": c["desc"], "impl_verdict": c["impl"]})

    n2 = ctx.pick(800, 8000)
    calls, hist2 = stream_calls(ctx, n2)
    ctx.log("calls stream generated")
    bad2 = coqrun.eval_cases(ctx, "calls", qx.PREAMBLE, [c["lit"] for c in calls],
        "fun c : (list pname * list (pname * gspec) * option gspec) * (list gval * list (pname * gval) * gval) * verdict => "
        "let '(ps, gs, o) := fst (fst c) in let '(pos, kw, ret) := snd (fst c) in "
        "verdict_eqb (guarded_call ps gs o pos kw ret) (snd c)",
        case_type="(list pname * list (pname * gspec) * option gspec) * (list gval * list (pname * gval) * gval) * verdict", per_file=200)
    decide_disagreements(ctx, calls, bad2, "calls")
    ctx.evaluated(len(calls), len({c["lit"] for c in calls}))
    for c in calls[:2]:
        ctx.sample({"stream": "calls", "case": c["desc"], "impl_verdict": c["impl"]})

    # history-independence and QuantityVector construction
    hcases = stream_history(ctx, ctx.pick(150, 1500))
    bad3 = coqrun.eval_cases(ctx, "history", qx.PREAMBLE, [c["lit"] for c in hcases],
        "fun c : garg * garg * verdict => verdict_eqb (gate (GOne (fst (fst c))) (SOne (snd (fst c)))) (snd c)",
        case_type="garg * garg * verdict")
    decide_disagreements(ctx, hcases, bad3, "history")
    ctx.evaluated(len(hcases), len({c["lit"] for c in hcases}))
    for c in hcases[:1]:
        ctx.sample({"stream": "history", "case": c["desc"], "impl_verdict": c["impl"]})
    qcases, hist3 = stream_qvec(ctx, ctx.pick(500, 5000))
    qpre = qx.PREAMBLE.replace("Model.Gate.", "Model.Gate Model.QVec.")
    bad4 = coqrun.eval_cases(ctx, "qvec", qpre, [c["lit"] for c in qcases],
        "fun c : nat * list qcomp * option dim * result dim => let '(s, cs, o, r) := c in rdim_eqb (qvec_ctor s cs o) r",
        case_type="nat * list qcomp * option dim * result dim")
    for i in bad4[:30]:
        c = qcases[i]
        ctx.violation(f"C04:qvec:{c['lit'][:300]}", f"QuantityVector construction: model and implementation disagree on {c['desc'][:160]}",
            {"kind": "disagreement", "stream": "qvec", "case": c["desc"], "gallina": c["lit"], "observed": c["msg"],
             "theorem_or_tie": "correspondence QVec.v ~ QuantityVector.__init__"}, found_input=False)
    ctx.evaluated(len(qcases), len({c["lit"] for c in qcases}))
    for c in qcases[:2]:
        ctx.sample({"stream": "qvec", "case": c["desc"], "observed": c["msg"][:120]})
    hist.update(hist2)
    hist.update(hist3)
    ctx.coverage["verdict_histogram"] = {f"{k[0]}:{k[1]}": v for k, v in sorted(hist.items(), key=str)}
    ctx.coverage["disagreements"] = len(bad) + len(bad2) + len(bad3) + len(bad4)

    nm = stream_interpreter_modes(ctx)
    ctx.evaluated(nm, nm // 2)
    hist[("interpreter-modes", "calls")] = nm
    ctx.coverage["verdict_histogram"] = {f"{k[0]}:{k[1]}": v for k, v in sorted(hist.items(), key=str)}
    ctx.log("streams done")
    catalogue(ctx)
    ctx.log("catalogue done")
    ctx.coverage["rule"] = ("gate1: seeded (actual, declared) pairs over the 7 base dimensions + angle with exponents in "
        "{-3..3, +-1/2, 1/3, +-3/2}, written through base and derived units/dimensions, prefixes, magnitudes incl. 0, +-oo, nan, "
        "zoo, 0.0, 1e+-30; calls: generated guarded functions (validate_input/output/output_same; scalar, list, tuple specs; "
        "positional vs keyword; made directly, from the body of another guarded function, from another thread meanwhile); distinct = distinct Gallina literals; non-trivial = not (plain number accepted)")


def replay(ctx, rep):
    print(rep.get("case"), rep.get("observed"))
    return 0
