"""C07 -- unit conversion is exact, invertible and scale-consistent.

static theorems : coq/theories/Properties/C07.v  (about Model/Convert.v, which calls Model/CollectQ.v and Model/Gate.v)
tie             : (i) table translator -- the seven `_si_conversions` rows, the prefix tuple and the Celsius offset are
                  read from the live objects on every run, written as Gallina tables and checked inside Coq
                  (generated lemmas, vm_compute);
                  (ii) correspondence -- convert_to / convert_to_si / convert_to_float / evaluate_expression and the
                  Celsius helpers are run on seeded inputs and the Gallina model is evaluated on the same inputs
                  inside Coq."""
from __future__ import annotations

import math
from fractions import Fraction

import sympy
from sympy import Add, Float, Integer, Mul, Pow, Rational, S
from sympy.physics import units as u
from sympy.physics.units import Quantity as SymQuantity
from sympy.physics.units.systems.si import SI

from vp import coqrun, qx, unitgen
from vp.unitgen import build, carg_lit, rval_lit, run_val

STATIC = ["convert_spec", "convert_refuses_iff", "convert_compose", "convert_inverse", "convert_linear_scale",
    "convert_linear_add", "convert_scale_verdict", "convert_self_si", "convert_to_si_value", "convert_si_unit_roundtrip",
    "evaluate_preserves_value", "celsius_roundtrip", "kelvin_roundtrip", "celsius_quantity_roundtrip"]

BASE_DIMS = ["length", "mass", "time", "current", "temperature", "amount_of_substance", "luminous_intensity"]


# ---------------------------------------------------------------------------------------------
# live tables -> Gallina
# ---------------------------------------------------------------------------------------------

def float_cert(x: float):
    """(m, e) with x = m * 2**e and 2**52 <= m < 2**53 (normal floats)"""
    m, e = math.frexp(abs(x))
    return int(m * 2**53), e - 53


def z_lit(n: int) -> str:
    return f"({n})%Z"


def live_tables(ctx):
    """Reads the live objects.  Returns (preamble text defining live_si_table / live_tbl / live_prefixes / live_off,
    python-side copy for the specification predicates).  Raises qx.Unsupported when an object has a shape the
    translator cannot express (broken tie)."""
    from symplyphysics.core.dimensions.dimensions import _si_conversions  # pylint: disable=import-outside-toplevel
    from symplyphysics.core.symbols.prefixes import prefixes  # pylint: disable=import-outside-toplevel
    from symplyphysics.core.symbols.celsius import Celsius  # pylint: disable=import-outside-toplevel

    rows = [None] * 7
    for key, unit in _si_conversions.items():
        vec = qx.dim_vec(key)
        idx = [i for i in range(qx.NB) if vec[i] != 0]
        if len(idx) != 1 or vec[idx[0]] != 1 or idx[0] >= 7:
            raise qx.Unsupported(f"_si_conversions key {key} is not one of the seven base dimensions")
        if not isinstance(unit, SymQuantity):
            raise qx.Unsupported(f"_si_conversions[{key}] = {unit!r} is not a unit")
        rows[idx[0]] = (str(unit.name), qx.val_class(unit.scale_factor), qx.dim_vec(unit.dimension))
    for i in range(7):
        if rows[i] is None:
            rows[i] = ("1", ("Q", Fraction(1)), tuple([Fraction(0)] * qx.NB))   # .get(dim, S.One)
    si_lit = "[" + ";\n  ".join(f'("{n}"%string, ({qx.val_lit(v)}, {qx.dim_lit(d)}))' for n, v, d in rows) + "]"

    prows = []
    for name in prefixes._fields:
        x = getattr(prefixes, name)
        if isinstance(x, bool) or not isinstance(x, (int, float)):
            raise qx.Unsupported(f"prefix {name} = {x!r} is neither int nor float")
        if isinstance(x, float):
            if not math.isfinite(x) or x == 0:
                raise qx.Unsupported(f"prefix {name} = {x!r}")
            m, e = float_cert(x)
            cert = f"(Some ({z_lit(m)}, {z_lit(e)}))"
        else:
            cert = "None"
        prows.append((name, Fraction(x), cert))
    p_lit = "[" + ";\n  ".join(f'("{n}"%string, {qx.q_lit(v)}, {c})' for n, v, c in prows) + "]"

    off = Celsius.CELSIUS_TO_KELVIN_OFFSET
    if not isinstance(off, (int, float)) or isinstance(off, bool):
        raise qx.Unsupported(f"Celsius offset {off!r}")
    off_fr = Fraction(off)
    om, oe = float_cert(float(off)) if off else (0, 0)
    kel = u.kelvin
    kvc = qx.val_class(kel.scale_factor)
    if kvc[0] != "Q":
        raise qx.Unsupported(f"kelvin scale factor {kel.scale_factor!r}")
    text = (f"Definition live_si_table : list (string * si_row) :=\n  {si_lit}.\n"
        "Definition live_tbl : list si_row := map snd live_si_table.\n"
        f"Definition live_prefixes : list (string * Q * option (Z * Z)) :=\n  {p_lit}.\n"
        f"Definition live_off : Q := {qx.q_lit(off_fr)}.\n"
        f"Definition live_off_cert : Z * Z := ({z_lit(om)}, {z_lit(oe)}).\n"
        f"Definition live_kelvin_scale : Q := {qx.q_lit(kvc[1])}.\n"
        f"Definition live_kelvin : val * dim := (VQ live_kelvin_scale, {qx.dim_lit(qx.dim_vec(kel.dimension))}).\n"
        f"Definition live_temperature : dim := {qx.dim_lit(qx.dim_vec(u.temperature))}.\n")
    py = {"si_rows": rows, "prefix_rows": prows, "offset": off_fr}
    return text, py


PREAMBLE0 = qx.PREAMBLE + "From Coq Require Import String Qabs.\nFrom VP Require Import Model.Convert.\n"
PREAMBLE_P = PREAMBLE0 + "From VP Require Import Proofs.ConvertProofs.\n"


# ---------------------------------------------------------------------------------------------
# specification predicates (written from the property text; used to decide a disagreement / broken lemma)
# ---------------------------------------------------------------------------------------------

def indep_scale_dim(obj):
    """(scale, dimension vector) of a number / unit expression / quantity computed WITHOUT symplyphysics' collector:
    plain SymPy arithmetic on registered scale factors (qx.pyvalue) and SymPy's own unit system for the dimension."""
    obj = sympy.sympify(obj)
    scale = qx.pyvalue(obj)
    if isinstance(obj, SymQuantity):
        return scale, qx.dim_vec(obj.dimension)
    if not obj.atoms(SymQuantity):
        return scale, tuple([Fraction(0)] * qx.NB)
    _f, d = SI._collect_factor_and_dimension(obj)  # pylint: disable=protected-access
    return scale, qx.dim_vec(d)


def is_anyval(v):
    return v in (S.Zero, S.Infinity, S.NegativeInfinity, S.NaN) or v == 0


def erase(vec):
    return tuple(vec[:7]) + (Fraction(0),) + tuple(vec[8:])


def spec_convert(value, target, obs):
    """True = the observation satisfies the property on this input, False = violates, None = property silent."""
    try:
        sv, dv = indep_scale_dim(value)
        su, du = indep_scale_dim(target)
    except Exception:  # pylint: disable=broad-except
        return None
    if is_anyval(sv) or is_anyval(su) or dv[8] != 0 or du[8] != 0:
        return None
    if sv.has(sympy.zoo) or su.has(sympy.zoo):
        return None
    if erase(dv) != erase(du):
        return obs[0] == "err"                       # conversion between inequivalent dimensions is refused
    if obs[0] == "err":
        return False                                 # equivalent dimension: must convert
    try:
        n = sympy.sympify(obs[2])
        diff = sympy.N(n * su - sv, 30)
        scale = abs(sympy.N(sv, 30))
        return bool(abs(diff) <= scale * sympy.Float("1e-10"))   # n * unit = quantity
    except Exception:  # pylint: disable=broad-except
        return None


def si_reference_unit(vec):
    """the SI coherent unit of a dimension vector, from the hand-entered reference (not from the code under test)"""
    ref = [u.meter, u.kilogram, u.second, u.ampere, u.kelvin, u.mole, u.candela]
    e = S.One
    for b, x in zip(ref, vec[:7]):
        if x != 0:
            e = e * b**Rational(x.numerator, x.denominator)
    return e


def spec_si(value, obs):
    try:
        sv, dv = indep_scale_dim(value)
    except Exception:  # pylint: disable=broad-except
        return None
    if is_anyval(sv) or dv[8] != 0 or sv.has(sympy.zoo):
        return None
    if obs[0] == "err":
        return False
    su = qx.pyvalue(si_reference_unit(dv))
    try:
        diff = sympy.N(sympy.sympify(obs[2]) * su - sv, 30)
        return bool(abs(diff) <= abs(sympy.N(sv, 30)) * sympy.Float("1e-10"))
    except Exception:  # pylint: disable=broad-except
        return None


# ---------------------------------------------------------------------------------------------
# streams
# ---------------------------------------------------------------------------------------------

def _exactness(*objs):
    return not any(unitgen.has_float(o) for o in objs)


# targets that are bare numbers, one per Python / SymPy TYPE the API accepts (model: a dimensionless unit of that scale)
NUMBER_TARGETS = ["1", "1000", "-2", "7", "0.5", "2.5", "1e-3", "1024.0", "prefixes.kilo", "prefixes.milli", "prefixes.mega", "prefixes.centi",
    "prefixes.hecto", "prefixes.micro", "S.One", "Integer(1000)", "Integer(-3)", "Rational(1,1000)", "Rational(22,7)", "Float(0.25)",
    "Float(1000.0)", "Quantity(1000)", "Quantity(S.One)", "Quantity(prefixes.kilo)", "u.percent", "Quantity(Rational(1,8))"]
NUMBER_TARGET_VALUES = ["Quantity(2*u.meter)", "2*u.meter/u.second", "Quantity(5*u.joule)", "Quantity(Rational(7,2)*u.kilogram)", "3*u.hertz",
    "Quantity(S(7))", "S(3)", "Quantity(3*u.percent)", "Quantity(4*u.radian)", "2.5", "Quantity(6*u.meter/u.kilometer)", "Quantity(0*u.meter)"]


def gen_pair(rng):
    """(value source, target source, kind)"""
    if rng.random() < 0.06:
        # refusal clause against every target TYPE: Python int / float, prefixes.*, SymPy numbers, dimensionless Quantity
        if rng.random() < 0.5:
            return rng.choice(NUMBER_TARGET_VALUES), rng.choice(NUMBER_TARGETS), "number-target"
        vsrc, _mk = unitgen.quantity_src(rng, unitgen.pick_class(rng), allow_special=False)
        return vsrc, rng.choice(NUMBER_TARGETS), "number-target"
    cls = unitgen.pick_class(rng)
    r = rng.random()
    vsrc, mk = unitgen.quantity_src(rng, cls)
    if rng.random() < 0.04:
        vsrc = rng.choice(["S(3)", "Rational(7,2)", "S.Zero", "Quantity(5)", "2.5"])
        cls = "dimensionless"
    if r < 0.6:
        tcls, kind = cls, "same"
    elif r < 0.7 and cls in unitgen.IRRATIONAL:
        tcls, kind = cls, "irrational"
    else:
        tcls = unitgen.pick_class(rng)
        kind = "same" if tcls == cls else "wrong"
    if kind == "irrational":
        unit = rng.choice(unitgen.IRRATIONAL[cls])
    else:
        unit = unitgen.pick_unit(rng, tcls)
    t = rng.random()
    if t < 0.5:
        tsrc = unit
    elif t < 0.8:
        tsrc = f"Quantity({unit})"
    elif t < 0.95:
        tmag = rng.choice(["3", "Rational(1,7)", "Rational(-5,2)", "1000", "Float(0.5)"])
        tsrc = rng.choice([f"({tmag})*{unit}", f"Quantity(({tmag})*{unit})"]) if unit != "S.One" else f"S({tmag})"
    else:
        tsrc = rng.choice([f"Quantity(0*{unit})" if unit != "S.One" else "S.Zero", f"Quantity(oo, dimension=({unit}).dimension)"
            if unit.startswith("u.") and "*" not in unit and "/" not in unit else "Quantity(oo)"])
        kind += "+special-target"
        if mk == "special":
            # (infinite or NaN value) / (zero or infinite "unit") is not a conversion to a unit: SymPy evaluates oo/0 and
            # oo*(1/0) differently, so the model would over-constrain harmless refactorings
            vsrc = f"Quantity(({rng.choice(unitgen.EXACT_MAGS)})*{unitgen.pick_unit(rng, cls)})" if cls != "dimensionless" else "Quantity(S(7))"
            mk = "exact"
    if rng.random() < 0.06:
        k = rng.choice([1, -1, 2])
        vsrc = f"Quantity(Quantity({vsrc}).scale_factor, dimension=Quantity({vsrc}).dimension*angle_type**{k})"
        kind += "+angle"
    if mk == "special":
        kind += "+special-value"
    return vsrc, tsrc, kind


def stream_convert(ctx, n):
    from symplyphysics import convert_to  # pylint: disable=import-outside-toplevel
    rng = ctx.rng
    cases, hist = [], {}
    tries = 0
    # always present: every number-target type against dimensionful and dimensionless values
    fixed = [(v, t, "number-target") for v in NUMBER_TARGET_VALUES for t in NUMBER_TARGETS]
    while len(cases) < n and tries < 6 * n:
        tries += 1
        vsrc, tsrc, kind = fixed.pop(0) if fixed else gen_pair(rng)
        try:
            value, target = build(vsrc), build(tsrc)
            lit_in = f"{carg_lit(value)}, {carg_lit(target)}"
        except qx.Unsupported:
            continue
        except Exception:  # pylint: disable=broad-except
            continue      # the *generator's* own Quantity(...) refused (e.g. zoo): not a convert_to case
        exact = _exactness(value, target)
        if not exact and ("special-target" in kind) and isinstance(target, SymQuantity) and target.scale_factor == 0:
            continue      # Float / 0 raises ZeroDivisionError inside SymPy: outside the model
        obs = run_val(convert_to, value, target)
        if obs[0] == "err" and obs[1] == qx.E_OTHER:
            continue
        lit = f"({lit_in}, {'true' if exact else 'false'}, {rval_lit(obs)})"
        cases.append({"lit": lit, "vsrc": vsrc, "tsrc": tsrc, "kind": kind, "obs": obs, "value": value, "target": target,
            "exact": exact})
        cls = "err%d" % obs[1] if obs[0] == "err" else obs[1][0]
        hist[f"{kind.split('+')[0]}:{cls}"] = hist.get(f"{kind.split('+')[0]}:{cls}", 0) + 1
    return cases, hist


def rand_int_dim(rng, half=False):
    vec = [Fraction(0)] * 7
    choices = [Fraction(k) for k in (-3, -2, -1, 1, 2, 3)] + ([Fraction(1, 2), Fraction(-1, 2), Fraction(3, 2)] if half else [])
    for _ in range(rng.choice([1, 1, 2, 2, 3, 4])):
        vec[rng.randrange(7)] += rng.choice(choices)
    return tuple(vec)


def dim_src(vec):
    names = ["u.length", "u.mass", "u.time", "u.current", "u.temperature", "u.amount_of_substance", "u.luminous_intensity"]
    parts = [f"{n}**Rational({x.numerator},{x.denominator})" for n, x in zip(names, vec) if x != 0]
    return "*".join(parts) if parts else "Dimension(1)"


def unit_src_for(rng, vec):
    """a (non-SI in general) unit expression with this dimension vector"""
    pools = [["u.meter", "u.kilometer", "u.centimeter", "u.inch"], ["u.kilogram", "u.gram", "u.tonne", "u.pound"],
        ["u.second", "u.minute", "u.hour", "u.millisecond"], ["u.ampere", "u.milli*u.ampere"], ["u.kelvin"], ["u.mole"],
        ["u.candela"]]
    parts = []
    for p, x in zip(pools, vec):
        if x == 0:
            continue
        b = rng.choice(p) if x.denominator == 1 else p[0] if p[0] != "u.kilogram" else "u.gram"
        parts.append(f"({b})**Rational({x.numerator},{x.denominator})")
    return "*".join(parts) if parts else "S.One"


def stream_si(ctx, n):
    """convert_to_si on quantities of random integer / half-integer dimension; the SI unit itself (scale, dimension)."""
    from symplyphysics import convert_to_si, convert_to_float, Quantity  # pylint: disable=import-outside-toplevel
    from symplyphysics.core.dimensions import dimension_to_si_unit  # pylint: disable=import-outside-toplevel
    rng = ctx.rng
    cases, hist = [], {}
    tries = 0
    while len(cases) < n and tries < 6 * n:
        tries += 1
        r = rng.random()
        vec = rand_int_dim(rng, half=rng.random() < 0.25)
        mag, _mk = unitgen.pick_mag(rng)
        try:
            if r < 0.45:
                src = f"Quantity(({mag})*{unit_src_for(rng, vec)})"
                kind = "si"
            elif r < 0.6:
                cls = unitgen.pick_class(rng)
                src, _ = unitgen.quantity_src(rng, cls)
                kind = "si-class"
            elif r < 0.72:
                src = f"Quantity(({mag})*dimension_to_si_unit({dim_src(vec)}), dimension={dim_src(vec)})"
                kind = "si-roundtrip"
            elif r < 0.8:
                k = rng.choice([1, -1, 2])
                src = f"Quantity(({mag})*{unit_src_for(rng, vec)}, dimension={dim_src(vec)}*angle_type**{k})"
                kind = "si-angle"
            elif r < 0.9:
                src = f"Quantity(dimension_to_si_unit({dim_src(vec)}))"
                kind = "si-unit"
            else:
                src = rng.choice([f"S({mag})", f"Quantity({mag})", f"({mag})*u.percent", f"({mag})*u.radian"])
                kind = "float"
            value = build(src)
            vlit = carg_lit(value)
        except qx.Unsupported:
            continue
        except Exception:  # pylint: disable=broad-except
            continue
        exact = _exactness(value)
        if kind == "si-unit":
            obs = qx.cres_of_impl(lambda v=value: (v.scale_factor, v.dimension))
            lit = f"(inl ({qx.dim_lit(qx.dim_vec(build(dim_src(vec))))}, {qx.cres_lit(obs)}))"
            cls = "unit"
        elif kind == "float":
            try:
                fl = convert_to_float(value)
                obs = ("ok", ("NaN",) if math.isnan(fl) else ("PInf",) if fl == math.inf else ("NInf",) if fl == -math.inf
                    else ("Q", Fraction(fl)), fl)
            except Exception as e:  # pylint: disable=broad-except
                obs = ("err", qx.err_class(e), f"{type(e).__name__}: {e}"[:200])
            lit = f"(inr (false, {vlit}, false, {rval_lit(obs)}))"
            cls = "float"
        else:
            obs = run_val(convert_to_si, value)
            lit = f"(inr (true, {vlit}, {'true' if exact else 'false'}, {rval_lit(obs)}))"
            cls = "err%d" % obs[1] if obs[0] == "err" else obs[1][0]
        cases.append({"lit": lit, "vsrc": src, "kind": kind, "obs": obs, "value": value, "exact": exact})
        hist[f"{kind}:{cls}"] = hist.get(f"{kind}:{cls}", 0) + 1
    return cases, hist


SI_CHECK = ("fun c : (dim * cres) + (bool * carg * bool * result val) => match c with "
    "| inl (d, o) => cres_eqb (quantity_ctor (si_unit_expr live_tbl d) None) o "
    "| inr (si, v, ex, o) => rval_close ex (if si then convert_to_si live_tbl v else convert_to_float v) o end")


def stream_compose(ctx, n):
    """triples of units of one dimension: a->b, b->c, a->c through the implementation and through the model, and the
    composition law x*y = z evaluated on the implementation's numbers inside Coq."""
    from symplyphysics import convert_to  # pylint: disable=import-outside-toplevel
    rng = ctx.rng
    cases = []
    tries = 0
    while len(cases) < n and tries < 6 * n:
        tries += 1
        cls = unitgen.pick_class(rng)
        srcs = []
        for _ in range(3):
            mag = rng.choice(unitgen.EXACT_MAGS)
            unit = unitgen.pick_unit(rng, cls)
            body = f"({mag})*{unit}" if unit != "S.One" else f"S({mag})"
            srcs.append(f"Quantity({body})" if rng.random() < 0.5 else body)
        try:
            objs = [build(s) for s in srcs]
            lits = [carg_lit(o) for o in objs]
        except qx.Unsupported:
            continue
        if not _exactness(*objs):
            continue
        a, b, c = objs
        ox, oy, oz = run_val(convert_to, a, b), run_val(convert_to, b, c), run_val(convert_to, a, c)
        lit = f"({lits[0]}, {lits[1]}, {lits[2]}, ({rval_lit(ox)}, {rval_lit(oy)}, {rval_lit(oz)}))"
        cases.append({"lit": lit, "srcs": srcs, "obs": (ox, oy, oz), "objs": objs})
    return cases


COMPOSE_CHECK = ("fun c : carg * carg * carg * (result val * result val * result val) => "
    "let '(a, b, c', (x, y, z)) := c in "
    "rval_close true (convert_to a b) x && rval_close true (convert_to b c') y && rval_close true (convert_to a c') z && "
    "match x, y, z with Ok (VQ p), Ok (VQ q), Ok (VQ r) => Qeq_bool (p * q) r | _, _, _ => true end")


# ---- evaluate_expression -------------------------------------------------------------------------

def aexpr_lit(e) -> str:
    e = sympy.sympify(e)
    if isinstance(e, SymQuantity):
        vc = qx.val_class(e.scale_factor)
        if vc[0] != "Q":
            raise qx.Unsupported("non-rational leaf")
        return f"(AQty {qx.q_lit(vc[1])} {qx.dim_lit(qx.dim_vec(e.dimension))})"
    if e.is_Rational:
        return f"(ANum {qx.q_lit(Fraction(int(e.p), int(e.q)))})"
    if isinstance(e, Add):
        return "(AAdd [" + "; ".join(aexpr_lit(a) for a in e.args) + "])"
    if isinstance(e, Mul):
        return "(AMul [" + "; ".join(aexpr_lit(a) for a in e.args) + "])"
    if isinstance(e, Pow) and isinstance(e.exp, Integer):
        return f"(APow {aexpr_lit(e.base)} ({int(e.exp)})%Z)"
    raise qx.Unsupported(f"node {type(e).__name__}")


def gen_recipe(rng, nleaves, depth):
    """JSON-serialisable recipe: ["leaf", i] | ["num", p, q] | ["mul", [...]] | ["add", [...]] | ["pow", r, z] | ["scaled", p, q, r]"""
    if depth == 0 or rng.random() < 0.25:
        if rng.random() < 0.2:
            p, q = rng.choice([(2, 1), (3, 1), (-1, 1), (1, 2), (-7, 3), (10, 1)])
            return ["num", p, q]
        return ["leaf", rng.randrange(nleaves)]
    r = rng.random()
    if r < 0.4:
        return ["mul", [gen_recipe(rng, nleaves, depth - 1) for _ in range(rng.choice([2, 2, 3]))]]
    if r < 0.75:
        first = gen_recipe(rng, nleaves, depth - 1)
        terms = [first]
        for _ in range(rng.choice([1, 1, 2])):
            p, q = rng.choice([(1, 1), (2, 1), (-1, 1), (3, 2), (-1, 1)])
            terms.append(["scaled", p, q, first] if rng.random() < 0.7 else gen_recipe(rng, nleaves, depth - 1))
        return ["add", terms]
    return ["pow", gen_recipe(rng, nleaves, depth - 1), rng.choice([2, -1, 3, -2, 0, 1])]


def build_tree(recipe, leaves):
    k = recipe[0]
    if k == "leaf":
        return leaves[recipe[1]]
    if k == "num":
        return Rational(recipe[1], recipe[2])
    if k == "mul":
        return Mul(*[build_tree(r, leaves) for r in recipe[1]])
    if k == "add":
        return Add(*[build_tree(r, leaves) for r in recipe[1]])
    if k == "scaled":
        return Rational(recipe[1], recipe[2]) * build_tree(recipe[3], leaves)
    if k == "pow":
        return Pow(build_tree(recipe[1], leaves), recipe[2])
    raise ValueError(k)


def recipe_value(recipe, scales):
    """exact value of the tree on the leaves' scale factors; raises ZeroDivisionError when some sub-expression divides by
    zero (such trees are outside `regular`: SymPy's sequential substitution makes 0*zoo order dependent)"""
    k = recipe[0]
    if k == "leaf":
        return scales[recipe[1]]
    if k == "num":
        return Fraction(recipe[1], recipe[2])
    if k == "mul":
        out = Fraction(1)
        for r in recipe[1]:
            out *= recipe_value(r, scales)
        return out
    if k == "add":
        return sum((recipe_value(r, scales) for r in recipe[1]), Fraction(0))
    if k == "scaled":
        return Fraction(recipe[1], recipe[2]) * recipe_value(recipe[3], scales)
    if k == "pow":
        b = recipe_value(recipe[1], scales)
        if b == 0 and recipe[2] < 0:
            raise ZeroDivisionError
        return b**recipe[2]
    raise ValueError(k)


def spec_evaluate(expr):
    """evaluate_expression(expr) * scale(reference SI unit of dim) == scale of the expression, both computed from the
    implementation's outputs and the hand reference; None = silent (non-finite, irrational, refused construction)."""
    from symplyphysics import Quantity  # pylint: disable=import-outside-toplevel
    from symplyphysics.core.convert import evaluate_expression  # pylint: disable=import-outside-toplevel
    try:
        n = evaluate_expression(expr)
    except Exception as e:  # pylint: disable=broad-except
        return False, f"evaluate_expression raised {type(e).__name__}: {e}"
    n = sympy.sympify(n)
    if n.atoms(SymQuantity) or n.free_symbols:
        return False, f"result {n} is not a pure number: quantities {sorted(map(str, n.atoms(SymQuantity)))} were not replaced"
    try:
        q = Quantity(expr)
    except Exception:  # pylint: disable=broad-except
        return None, f"N={n}; Quantity(expr) refused"
    s = q.scale_factor
    if not (sympy.sympify(n).is_Rational and sympy.sympify(s).is_Rational):
        return None, f"N={n}, S={s}"
    k = qx.pyvalue(si_reference_unit(qx.dim_vec(q.dimension)))
    if not k.is_Rational:
        return None, f"N={n}, S={s}, k={k}"
    return bool(n * k == s), f"N={n}, S={s}, SI unit scale={k}"


def stream_eval(ctx, n):
    from symplyphysics import Quantity  # pylint: disable=import-outside-toplevel
    from symplyphysics.core.convert import evaluate_expression  # pylint: disable=import-outside-toplevel
    rng = ctx.rng
    cases, hist = [], {}
    tries = 0
    n_irregular = [0]
    while len(cases) < n and tries < 8 * n:
        tries += 1
        nl = rng.choice([1, 2, 2, 3])
        leaves, lsrc = [], []
        base_cls = unitgen.pick_class(rng)
        for _ in range(nl):
            cls = base_cls if rng.random() < 0.6 else unitgen.pick_class(rng)
            mag = rng.choice(unitgen.EXACT_MAGS + ["S.Zero"])
            unit = unitgen.pick_unit(rng, cls)
            src = f"Quantity(({mag})*{unit})" if unit != "S.One" else f"Quantity(S({mag}))"
            raw = [x for x in unitgen.CLASSES[cls] if x.startswith("u.") and x.count("u.") == 1 and "*" not in x and "/" not in x]
            if raw and rng.random() < 0.35:
                src = rng.choice(raw)          # a plain sympy.physics.units atom (unit or constant), not a symplyphysics Quantity
            lsrc.append(src)
            try:
                leaves.append(build(src))
            except Exception:  # pylint: disable=broad-except
                break
        if len(leaves) != nl or not _exactness(*leaves):
            continue
        recipe = gen_recipe(rng, nl, rng.choice([1, 2, 3]))
        try:
            recipe_value(recipe, [Fraction(int(q.scale_factor.p), int(q.scale_factor.q)) for q in leaves])
        except ZeroDivisionError:
            n_irregular[0] += 1
            continue
        try:
            expr = build_tree(recipe, leaves)
            a_lit = aexpr_lit(expr)
            q_lit = qx.qexpr_lit(expr)
        except qx.Unsupported:
            continue
        if not expr.atoms(SymQuantity):
            continue
        obs_n = run_val(evaluate_expression, expr)
        obs_q = qx.cres_of_impl(lambda e=expr: (lambda q: (q.scale_factor, q.dimension))(Quantity(e)))
        if obs_n[0] == "err" and obs_n[1] == qx.E_OTHER:
            continue
        lit = f"({a_lit}, {q_lit}, {rval_lit(obs_n)}, {qx.cres_lit(obs_q)})"
        cases.append({"lit": lit, "leaves": lsrc, "recipe": recipe, "expr": str(expr), "srepr": sympy.srepr(expr), "obs": obs_n,
            "obs_q": obs_q, "expr_obj": expr})
        k = ("err%d" % obs_n[1] if obs_n[0] == "err" else obs_n[1][0]) + "/" + ("err" if obs_q[0] == "err" else "ok")
        hist[f"eval:{k}"] = hist.get(f"eval:{k}", 0) + 1
    ctx.coverage["evaluate_trees_skipped_division_by_zero"] = n_irregular[0]
    return cases, hist


# model = implementation on the SI numbers; the n-ary tree and the tree the collector saw agree; and the
# specification itself on the implementation's observations:  N * scale(si_unit(D)) = S
EVAL_CHECK = ("fun c : aexpr * qexpr * result val * cres => let '(a, q, n, s) := c in "
    "rval_close true (eval_si live_tbl a) n && cres_eqb (collect (embed a)) (collect q) && "
    "cres_eqb (quantity_ctor q None) s && "
    "match n, s with "
    "| Ok (VQ nn), Ok (VQ ss, d) => match collect (si_unit_expr live_tbl d) with "
    "    | Ok (VQ k, _) => Qeq_bool (nn * k) ss | Ok (VOther, _) => true | _ => false end "
    "| _, _ => true end")


# ---- dimensions outside the seven SI bases (information units, user-defined Dimension objects) ----------------------
# Base/Dim.v has nine slots (7 SI + angle + any_dimension), so these inputs are NOT run through the Gallina model: the
# implementation's verdict is compared with a specification predicate computed independently from
# dimsys_SI.get_dimensional_dependencies: accepted  <=>  equal dependency dicts after angle erasure (zero / inf / nan
# values match anything), and an accepted conversion returns n with n * scale(target) = scale(value).

EXTRA_VALUES = ["Quantity(({m})*u.byte)", "({m})*u.byte*u.meter", "Quantity(({m})*u.bit/u.second)", "Quantity(({m})*u.kibibyte)",
    "({m})*u.kibibyte", "Quantity(({m}), dimension=Dimension('apples'))", "Quantity(({m})*u.meter, dimension=u.length*Dimension('apples'))",
    "Quantity(({m}), dimension=angle_type*u.information)", "Quantity(({m})*u.byte/u.meter**2)", "({m})*u.bit*u.joule",
    "Quantity(({m}), dimension=Dimension('apples')/Dimension('pears'))", "Quantity(({m}), dimension=Dimension('apples')**2)",
    "Quantity(({m})*u.meter)", "Quantity(({m})/u.second)", "S({m})", "Quantity(({m})*u.percent)"]
EXTRA_TARGETS = ["S.One", "u.meter", "u.hertz", "u.percent", "u.bit", "u.byte", "u.kibibyte", "u.byte*u.meter", "u.bit/u.second", "u.mebibyte",
    "Quantity(1, dimension=Dimension('apples'))", "Quantity(3, dimension=Dimension('apples')*u.length)", "u.kibibyte/u.minute",
    "Quantity(2, dimension=Dimension('pears'))", "Quantity(2, dimension=Dimension('apples')/Dimension('pears'))", "u.joule*u.byte",
    "Quantity(4, dimension=Dimension('apples')**2)", "u.byte/u.centimeter**2", "Quantity(1, dimension=angle_type*Dimension('apples'))",
    "1/u.second", "u.radian"]


def indep_deps(obj):
    """(scale, {base dimension name: exponent} without angle) from plain SymPy, not from symplyphysics' collector"""
    from sympy.physics.units.systems.si import dimsys_SI  # pylint: disable=import-outside-toplevel
    obj = sympy.sympify(obj)
    scale = qx.pyvalue(obj)
    if isinstance(obj, SymQuantity):
        d = obj.dimension
    elif not obj.atoms(SymQuantity):
        return scale, {}
    else:
        _f, d = SI._collect_factor_and_dimension(obj)  # pylint: disable=protected-access
    deps = {str(k.name): sympy.nsimplify(v) for k, v in dimsys_SI.get_dimensional_dependencies(d).items()}
    deps.pop("angle", None)
    return scale, {k: v for k, v in deps.items() if v != 0}


def spec_convert_deps(value, target, obs):
    try:
        sv, dv = indep_deps(value)
        su, du = indep_deps(target)
    except Exception:  # pylint: disable=broad-except
        return None
    if is_anyval(sv) or is_anyval(su) or "any_dimension" in dv or "any_dimension" in du:
        return None
    if dv != du:
        return obs[0] == "err"
    if obs[0] == "err":
        return False
    try:
        diff = sympy.N(sympy.sympify(obs[2]) * su - sv, 30)
        return bool(abs(diff) <= abs(sympy.N(sv, 30)) * sympy.Float("1e-10"))
    except Exception:  # pylint: disable=broad-except
        return None


def stream_extra_dimensions(ctx, n):
    """(cases, number of specification verdicts that were decisive)"""
    from symplyphysics import convert_to, convert_to_float  # pylint: disable=import-outside-toplevel
    rng = ctx.rng
    cases = []
    pairs = [(v, t) for v in EXTRA_VALUES for t in EXTRA_TARGETS]
    rng.shuffle(pairs)
    for vt, tt in pairs[:n]:
        m = rng.choice(["5", "3", "10", "1", "Rational(7,2)", "S.Zero", "Rational(1,1024)"])
        vsrc = vt.format(m=m)
        tsrc = tt if rng.random() < 0.7 else (f"Quantity({tt})" if not tt.startswith("Quantity") else tt)
        try:
            value, target = build(vsrc), build(tsrc)
        except Exception:  # pylint: disable=broad-except
            continue
        obs = run_val(convert_to, value, target)
        cases.append({"op": "convert_to", "vsrc": vsrc, "tsrc": tsrc, "obs": obs, "spec": spec_convert_deps(value, target, obs)})
        if rng.random() < 0.25:
            try:
                fl = convert_to_float(value)
                obs = ("ok", ("Q", Fraction(fl)), sympy.Float(fl))
            except Exception as e:  # pylint: disable=broad-except
                obs = ("err", qx.err_class(e), f"{type(e).__name__}: {e}"[:200])
            cases.append({"op": "convert_to_float", "vsrc": vsrc, "tsrc": "S.One", "obs": obs, "spec": spec_convert_deps(value, S.One, obs)})
    return cases


# ---- the VALUE argument is an expression: sums, products, Abs, unevaluated Min / Max incl. zero / infinite / bare-zero terms ----
def gen_expression_value(rng):
    """(value source, target source, class, op)"""
    cls = rng.choice(["length", "mass", "time", "energy", "velocity", "pressure", "dimensionless"])
    def term(special_ok=True):
        r = rng.random()
        unit = unitgen.pick_unit(rng, cls)
        if special_ok and r < 0.3:
            return rng.choice(["0", "S.Zero", f"Quantity(0*{unit})" if unit != "S.One" else "Quantity(S.Zero)", "oo", "-oo",
                f"Quantity(oo, dimension=Quantity({unit}).dimension)"])
            # (no literal Float zero here: Val.vmin / vmax do not model `0.0` inside Min / Max -- the model answers "other number"
            #  where SymPy answers 0 -- and float zeros in sums are covered by the C05 boundary stream)
        mag = rng.choice(["3", "-5", "Rational(7,2)", "1", "-1", "250", "Rational(-1,3)", "12"])
        body = f"({mag})*{unit}" if unit != "S.One" else f"S({mag})"
        return f"Quantity({body})" if rng.random() < 0.6 else body
    a, b, c = term(), term(), term(False)
    shape = rng.choice(["Max({a}, {b}, evaluate=False)", "Min({a}, {b}, evaluate=False)", "Max({a}, {b}, {c}, evaluate=False)",
        "Min({c}, {a}, evaluate=False)", "Abs({c})", "({c}) + ({b})", "2*Max({a}, {c}, evaluate=False)", "Max({a}, {c}, evaluate=False) + ({c})",
        "Min({a}, {b}, evaluate=False)*3", "Abs(({c}) + ({c}))", "({a}) + ({c})", "Max({c}, {a}, evaluate=False)"])
    vsrc = shape.format(a=a, b=b, c=c)
    tsrc = unitgen.pick_unit(rng, cls)
    op = rng.choice(["convert", "convert", "si", "eval"] + (["float"] if cls == "dimensionless" else []))
    return vsrc, tsrc, cls, op


def spec_expression_value(value, target, cls, op, obs):
    """the model value is the value of the expression: n * unit = pyvalue(expression) (same dimension class by construction)"""
    sv = sympy.sympify(qx.pyvalue(value))
    if sv is S.NaN or sv.has(sympy.zoo) or sv.has(sympy.nan) or not sv.is_number:
        return None
    if op in ("convert", "float"):
        su = sympy.sympify(qx.pyvalue(target)) if op == "convert" else S.One
    else:
        su = qx.pyvalue(si_reference_unit(qx.dim_vec(unitgen.build(f"Quantity({unitgen.CLASSES[cls][0]})").dimension)))
    if obs[0] == "err":
        return False if sv.is_finite else None
    try:
        n = sympy.sympify(obs[2])
        if not sv.is_finite:
            return bool(n == sv / su) if su.is_positive else None
        return bool(abs(sympy.N(n * su - sv, 30)) <= abs(sympy.N(sv, 30)) * sympy.Float("1e-10"))
    except Exception:  # pylint: disable=broad-except
        return None


def stream_expression_values(ctx, n):
    from symplyphysics import convert_to, convert_to_si, convert_to_float  # pylint: disable=import-outside-toplevel
    from symplyphysics.core.convert import evaluate_expression  # pylint: disable=import-outside-toplevel
    rng = ctx.rng
    cases = []
    tries = 0
    while len(cases) < n and tries < 6 * n:
        tries += 1
        vsrc, tsrc, cls, op = gen_expression_value(rng)
        try:
            value, target = build(vsrc), build(tsrc)
            vlit, tlit = carg_lit(value), carg_lit(target)
            if not sympy.sympify(value).atoms(SymQuantity):
                continue
            from sympy.physics.units.prefixes import Prefix  # pylint: disable=import-outside-toplevel
            if op == "eval" and sympy.sympify(value).atoms(Prefix):
                continue          # evaluate_expression leaves sympy Prefix objects alone (not a quantity): outside the property
        except Exception:  # pylint: disable=broad-except
            continue
        if not _exactness(value, target):
            continue              # Float scale factors: a sum of cancelling terms is 0 for SymPy's floats and ~1e-19 exactly; only
                                  # expressions whose arithmetic is exact are compared in this stream
        ex = "true"
        if op == "convert":
            obs = run_val(convert_to, value, target)
            lit, kind = f"({vlit}, {tlit}, {ex}, {rval_lit(obs)})", "convert"
        elif op == "si":
            obs = run_val(convert_to_si, value)
            lit, kind = f"(inr (true, {vlit}, {ex}, {rval_lit(obs)}))", "si"
        elif op == "float":
            try:
                fl = convert_to_float(value)
                obs = ("ok", ("Q", Fraction(fl)) if math.isfinite(fl) else ("PInf",) if fl > 0 else ("NInf",), sympy.Float(fl))
            except Exception as e:  # pylint: disable=broad-except
                obs = ("err", qx.err_class(e), f"{type(e).__name__}: {e}"[:200])
            lit, kind = f"(inr (false, {vlit}, false, {rval_lit(obs)}))", "si"
        else:
            obs = run_val(evaluate_expression, value)
            lit, kind = None, "eval"               # Min / Max are outside aexpr: specification check only
        cases.append({"lit": lit, "kind": kind, "op": op, "vsrc": vsrc, "tsrc": tsrc, "cls": cls, "obs": obs,
            "spec": spec_expression_value(value, target, cls, op, obs)})
    return cases


# ---- history: sequences of conversions in ONE process ----------------------------------------------------
# The model is stateless: the result of every call must be what the model gives for that call alone, whatever was
# converted before.  A sequence = definitions of user units (name -> source) + steps; every object is rebuilt from
# source strings, so a sequence can be re-run in a fresh interpreter (minimisation, replay).

FAMILY_BASES = [("u.kilogram", "u.day"), ("u.meter", "u.second"), ("u.second", "u.meter"), ("u.joule", "u.hour"), ("u.liter", "u.minute"),
    ("u.newton", "u.meter**2"), ("u.gram", "u.centimeter**3")]
LABELS = ["ton", "ft", "cup", "barrel", "unit", "X", "stone", "league"]


def seq_namespace(defs):
    ns = dict(unitgen.namespace())
    for name, src in defs:
        ns[name] = eval(src, ns)  # pylint: disable=eval-used
    return ns


def gen_sequence(rng, seqno):
    """(defs, steps).  step = {"op": convert|si|float|eval, "value": src, "target": src|None}"""
    base, per = rng.choice(FAMILY_BASES)
    fam = rng.choice(["label", "close", "mixed"])
    mant = rng.randrange(1000, 9999)
    expo = rng.choice([1, 10, 100, 1000, 10000])
    defs = []
    nunits = rng.choice([2, 2, 3])
    label = f"{rng.choice(LABELS)}{seqno}"
    for i in range(nunits):
        if fam == "label" or (fam == "mixed" and i < 2):
            # (a) different units that share a display_symbol
            sc = f"Rational({rng.randrange(1000, 99999)},{rng.choice([1, 10, 100, 1000])})"
            defs.append((f"U{i}", f"Quantity({sc}*{base}, display_symbol='{label}')"))
        else:
            # (b) anonymous units whose SI values agree to 3-5 significant digits but differ
            k = rng.choice([10, 100, 1000])
            sc = f"Rational({mant * k + (i * rng.randrange(1, 5) if i else 0)},{expo * k})"
            defs.append((f"U{i}", f"Quantity({sc}*{base})"))
    # compound target expressions; (c) the same expression object is reused through its name
    shapes = ["{U}/(" + per + ")", "{U}*(" + per + ")", "{U}**2", "2*{U}", "{U}/u.second**2", "{U}"]
    shape = rng.choice(shapes[:5])
    for i in range(nunits):
        defs.append((f"T{i}", shape.format(U=f"U{i}")))
        defs.append((f"QT{i}", f"Quantity(T{i})"))            # (d) the same unit as a Quantity object
    vmag = rng.choice(["5000", "100", "Rational(7,3)", "1", "Rational(123456,1000)"])
    defs.append(("V", f"Quantity(({vmag})*" + shape.format(U=f"({base})") + ")"))
    steps = []
    order = list(range(nunits))
    rng.shuffle(order)
    for i in order + [rng.randrange(nunits) for _ in range(rng.choice([1, 2, 3]))]:
        r = rng.random()
        if r < 0.55:
            steps.append({"op": "convert", "value": "V", "target": f"T{i}"})
        elif r < 0.7:
            steps.append({"op": "convert", "value": "V", "target": f"QT{i}"})
        elif r < 0.8:
            steps.append({"op": "convert", "value": f"3*T{rng.randrange(nunits)}", "target": f"T{i}"})     # raw value, raw target
        elif r < 0.87:
            steps.append({"op": "si", "value": rng.choice([f"T{i}", f"QT{i}", f"Quantity(2*T{i})"]), "target": None})
        elif r < 0.94:
            steps.append({"op": "eval", "value": rng.choice([f"QT{i} + 2*QT{rng.randrange(nunits)}", f"U{i}*U{rng.randrange(nunits)}", f"3*QT{i}"]),
                "target": None})
        else:
            steps.append({"op": "float", "value": f"Quantity(T{i}/T{rng.randrange(nunits)})", "target": None})
    # control: library units only
    if rng.random() < 0.5:
        steps.insert(rng.randrange(len(steps) + 1), {"op": "convert", "value": "V", "target": shape.format(U=f"({base})")})
    return defs, steps


def run_step(ns, step):
    """-> (literal kind, literal, observation, spec verdict, detail)"""
    from symplyphysics import convert_to, convert_to_si, convert_to_float, Quantity  # pylint: disable=import-outside-toplevel
    from symplyphysics.core.convert import evaluate_expression  # pylint: disable=import-outside-toplevel
    value = eval(step["value"], dict(ns))  # pylint: disable=eval-used
    op = step["op"]
    if op == "convert":
        target = eval(step["target"], dict(ns))  # pylint: disable=eval-used
        exact = _exactness(value, target)
        obs = run_val(convert_to, value, target)
        lit = f"({carg_lit(value)}, {carg_lit(target)}, {'true' if exact else 'false'}, {rval_lit(obs)})"
        return "convert", lit, obs, spec_convert(value, target, obs), _obs_json(obs)
    if op == "si":
        obs = run_val(convert_to_si, value)
        lit = f"(inr (true, {carg_lit(value)}, {'true' if _exactness(value) else 'false'}, {rval_lit(obs)}))"
        return "si", lit, obs, spec_si(value, obs), _obs_json(obs)
    if op == "float":
        try:
            fl = convert_to_float(value)
            obs = ("ok", ("Q", Fraction(fl)), fl)
            want = float(sympy.N(qx.pyvalue(value), 30))
            ok = abs(fl - want) <= 1e-12 * abs(want)
        except Exception as e:  # pylint: disable=broad-except
            obs = ("err", qx.err_class(e), f"{type(e).__name__}: {e}"[:200])
            ok = None
        lit = f"(inr (false, {carg_lit(value)}, false, {rval_lit(obs)}))"
        return "si", lit, obs, ok, _obs_json(obs)
    expr = value
    obs_n = run_val(evaluate_expression, expr)
    obs_q = qx.cres_of_impl(lambda e=expr: (lambda q: (q.scale_factor, q.dimension))(Quantity(e)))
    lit = f"({aexpr_lit(expr)}, {qx.qexpr_lit(expr)}, {rval_lit(obs_n)}, {qx.cres_lit(obs_q)})"
    ok, detail = spec_evaluate(expr)
    return "eval", lit, obs_n, ok, {"evaluate_expression": _obs_json(obs_n), "detail": detail}


def run_sequence(defs, steps):
    ns = seq_namespace(defs)
    return [run_step(ns, st) for st in steps]


def history_subprocess_main():
    """fresh interpreter: stdin = {"defs": [...], "steps": [...]}; stdout = [{"spec": .., "obs": ..}, ...]"""
    import json, sys  # pylint: disable=import-outside-toplevel,multiple-imports
    job = json.load(sys.stdin)
    out = []
    for _k, _lit, _obs, ok, detail in run_sequence([tuple(d) for d in job["defs"]], job["steps"]):
        out.append({"spec": ok, "obs": detail})
    print("VPJSON" + json.dumps(out, default=str))


def run_fresh(defs, steps):
    """run a sequence in a fresh interpreter against the same tree; None when it could not be run"""
    import json, os, subprocess  # pylint: disable=import-outside-toplevel,multiple-imports
    from vp import common  # pylint: disable=import-outside-toplevel
    env = dict(os.environ)
    env["PYTHONPATH"] = f"{common.REPO}:{common.VERIF / 'harness'}"
    p = subprocess.run([common.PYTHON, "-c", "import props.c07 as m; m.history_subprocess_main()"], input=json.dumps({"defs": defs, "steps": steps}),
        capture_output=True, text=True, env=env, timeout=300, check=False)
    for line in p.stdout.splitlines():
        if line.startswith("VPJSON"):
            return json.loads(line[6:])
    return None


def used_defs(defs, steps):
    """the definitions the steps (transitively) mention, in order"""
    import re  # pylint: disable=import-outside-toplevel
    need = set()
    text = " ".join((st["value"] or "") + " " + (st["target"] or "") for st in steps)
    for name, src in reversed(defs):
        if re.search(rf"\b{name}\b", text):
            need.add(name)
            text += " " + src
    return [(n, sc) for n, sc in defs if n in need]


def minimise_history(defs, steps, k):
    """smallest sub-sequence ending in step k (re-run in fresh interpreters) on which step k still violates the
    specification; ([], alone_ok) if step k violates it on its own (then it is not a history effect)"""
    alone = run_fresh(used_defs(defs, [steps[k]]), [steps[k]])
    if alone is not None and alone[-1]["spec"] is False:
        return [k], False
    from concurrent.futures import ThreadPoolExecutor  # pylint: disable=import-outside-toplevel
    cands = [[j, k] for j in range(k)]
    with ThreadPoolExecutor(max_workers=8) as ex:
        res = list(ex.map(lambda c: run_fresh(used_defs(defs, [steps[i] for i in c]), [steps[i] for i in c]), cands))
    for c, r in zip(cands, res):
        if r is not None and r[-1]["spec"] is False:
            return c, True
    full = list(range(k + 1))
    r = run_fresh(defs, [steps[i] for i in full])
    return full, bool(r is not None and r[-1]["spec"] is False)


def stream_history(ctx, nseq):
    rng = ctx.rng
    seqs, flat = [], {"convert": [], "si": [], "eval": []}
    seen_keys = set()
    tries = 0
    while len(seqs) < nseq and tries < 5 * nseq:
        tries += 1
        defs, steps = gen_sequence(rng, len(seqs))
        try:
            ns = seq_namespace(defs)
            keys = {str(v) for n, v in ns.items() if n.startswith(("T", "U")) and n[1:].isdigit()}
        except Exception:  # pylint: disable=broad-except
            continue
        if keys & seen_keys:
            continue          # printed forms must be new, so that a collision can only come from inside the sequence
        seen_keys |= keys
        try:
            results = [run_step(ns, st) for st in steps]
        except qx.Unsupported:
            continue
        si = len(seqs)
        seqs.append({"defs": defs, "steps": steps, "results": results})
        for k, (kind, lit, _obs, _ok, _d) in enumerate(results):
            flat[kind].append((si, k, lit))
    return seqs, flat


# ---- Celsius -------------------------------------------------------------------------------------

def stream_celsius(ctx, n, off_fr):
    from symplyphysics.core.symbols.celsius import (Celsius, to_kelvin, from_kelvin, to_kelvin_quantity,  # pylint: disable=import-outside-toplevel
        from_kelvin_quantity)
    from symplyphysics import Quantity  # pylint: disable=import-outside-toplevel
    rng = ctx.rng
    cases, float_failures = [], []
    n_float = 0
    off = float(off_fr)
    # boundary temperatures, always present: absolute zero (the 0 K quantity must keep its dimension), its neighbours, +-0
    boundary = [-off, math.nextafter(-off, 0.0), math.nextafter(-off, -math.inf), 0.0, -0.0, off, -2 * off]
    while len(cases) < n:
        r = rng.random()
        if boundary:
            c = boundary.pop(0)
            exact = Fraction(c) + off_fr == Fraction(c + off)
        elif r < 0.35:
            # exact stream: c and c + off are multiples of 2^-44 in [256, 512): every float operation is exact
            c = rng.randrange(int(-17 * 2**44), int(238 * 2**44)) / 2**44
            exact = True
        else:
            k = rng.randrange(-6, 7)
            c = rng.choice([1, -1]) * rng.uniform(1, 10) * 10.0**k
            exact = False
        kel = to_kelvin(Celsius(c))
        back = from_kelvin(kel).value
        ex = exact and Fraction(c) + off_fr == Fraction(kel) and Fraction(kel) - off_fr == Fraction(back)
        # binary64 round trip (a TEST, not a theorem): |c' - c| <= 2 ulp(max(|c|, offset))
        n_float += 1
        if abs(back - c) > 2 * math.ulp(max(abs(c), off)):
            float_failures.append((c, kel, back))
        obs_q = qx.cres_of_impl(lambda c=c: (lambda q: (q.scale_factor, q.dimension))(to_kelvin_quantity(Celsius(c))))
        try:
            cq = from_kelvin_quantity(to_kelvin_quantity(Celsius(c))).value
            obs_b = ("ok", ("Q", Fraction(cq)), cq)
        except Exception as e:  # pylint: disable=broad-except
            obs_b = ("err", qx.err_class(e), str(e)[:100])
        lit = (f"(inl ({qx.q_lit(Fraction(c))}, {qx.q_lit(Fraction(kel))}, {qx.q_lit(Fraction(back))}, {'true' if ex else 'false'}, "
            f"{qx.cres_lit(obs_q)}, {rval_lit(obs_b)}))")
        cases.append({"lit": lit, "kind": "celsius", "c": c, "kelvin": kel, "back": back, "exact": ex, "obs_q": obs_q, "obs_b": obs_b})
        # from_kelvin_quantity on assorted quantities (other spellings of kelvin, wrong dimensions)
        if rng.random() < 0.5:
            cls = "temperature" if rng.random() < 0.7 else unitgen.pick_class(rng)
            src, _k = unitgen.quantity_src(rng, cls, allow_special=False, wrap=0.0)
            try:
                q = build(src)
                if not isinstance(q, Quantity):
                    continue
                vlit = f"({qx.val_lit(qx.val_class(q.scale_factor))}, {qx.dim_lit(qx.dim_vec(q.dimension))})"
            except Exception:  # pylint: disable=broad-except
                continue
            try:
                v = from_kelvin_quantity(q).value
                obs = ("ok", ("Q", Fraction(v)) if math.isfinite(v) else ("NaN",), v)
            except Exception as e:  # pylint: disable=broad-except
                obs = ("err", qx.err_class(e), str(e)[:100])
            cases.append({"lit": f"(inr ({vlit}, {rval_lit(obs)}))", "kind": "from_kelvin_quantity", "src": src, "obs": obs})
    return cases, n_float, float_failures


def celsius_check_text():
    # the quantity helpers: the model is run on the *exact* kelvin float the implementation produced
    return ("fun c : (Q * Q * Q * bool * cres * result val) + ((val * dim) * result val) => match c with "
        "| inl (t, k, b, ex, oq, ob) => "
        "    (if ex then Qeq_bool (to_kelvin live_off t) k && Qeq_bool (from_kelvin live_off k) b "
        "     else Qle_bool (Qabs (to_kelvin live_off t - k)) ((1 # 1000000000000000) * (Qabs t + live_off)) && "
        "          Qle_bool (Qabs (from_kelvin live_off k - b)) ((1 # 1000000000000000) * (Qabs k + live_off))) && "
        "    (let mq := quantity_ctor (QMul [QNum (VQ k); QQty (fst live_kelvin) (snd live_kelvin)]) (Some live_temperature) in "
        "     cres_eqb mq oq && "
        "     (if ex then cres_eqb (to_kelvin_quantity live_off (fst live_kelvin) (snd live_kelvin) live_temperature t) oq else true) && "
        "     match mq with Ok (sv, dv) => rval_close ex (from_kelvin_quantity live_off (fst live_kelvin) (snd live_kelvin) sv dv) ob "
        "                 | Err _ => true end) "
        "| inr ((sv, dv), o) => rval_close false (from_kelvin_quantity live_off (fst live_kelvin) (snd live_kelvin) sv dv) o end")


# ---------------------------------------------------------------------------------------------
# generated lemmas about the live tables
# ---------------------------------------------------------------------------------------------

def table_lemmas():
    L = coqrun.Lemma
    vm = "vm_compute. reflexivity."
    return [
        L("si_table_live_ok", "si_table_ok live_si_table = true", vm, "dimensions._si_conversions vs SI reference"),
        L("table_live_ok", "table_ok live_tbl = true", vm, "dimensions._si_conversions rows are non-zero rationals on base dimensions"),
        L("si_unit_dim_ok",
          "forallb (fun i => match collect (si_unit_expr live_tbl (base i)) with "
          "Ok (v, d) => deqb d (base i) && val_eqb v (fst (nth i live_tbl (VNaN, dzero))) | Err _ => false end) "
          "[0;1;2;3;4;5;6]%nat = true", vm, "dimension_to_si_unit of each base dimension is the table's unit"),
        L("si_unit_angle_ok",
          "match collect (si_unit_expr live_tbl (base ANGLE)), collect (si_unit_expr live_tbl any_dimension) with "
          "Ok (v, d), Ok (w, e) => dimensionless d && dimensionless e && val_eqb v (VQ 1) && val_eqb w (VQ 1) | _, _ => false end = true",
          vm, "dimension_to_si_unit maps angle and any_dimension to 1"),
        L("prefix_table_live_ok", "prefix_table_ok live_prefixes = true", vm, "symbols/prefixes.py vs SI prefix reference"),
        L("celsius_offset_live_ok", "celsius_offset_ok live_off (fst live_off_cert) (snd live_off_cert) = true", vm,
          "Celsius.CELSIUS_TO_KELVIN_OFFSET is the binary64 nearest to 273.15"),
        L("convert_self_si_live",
          "forall a d x s du, quantity_ctor (si_unit_expr live_tbl d) None = Ok (VQ s, du) -> "
          "convert_to_si live_tbl (CQ (VQ a) d) = Ok (VQ x) -> x * s == a /\\ ~ s == 0",
          "intros a d x s du H1 H2. eapply convert_self_si; eassumption.", "convert_self_si instantiated at the live table"),
        L("convert_to_si_value_live",
          "forall a d, wf_dim d -> int_dim d -> anyd_free d -> "
          "exists x, convert_to_si live_tbl (CQ (VQ a) d) = Ok (VQ x) /\\ x * sisQ (scales live_tbl) d == a",
          "intros a d H1 H2 H3. apply convert_to_si_value; try assumption. vm_compute. reflexivity.",
          "convert_to_si_value instantiated at the live table"),
        L("convert_si_unit_roundtrip_live",
          "forall d n, wf_dim d -> int_dim d -> ~ n == 0 -> "
          "exists x, convert_to_si live_tbl (CE (QMul [QNum (VQ n); si_unit_expr live_tbl d])) = Ok (VQ x) /\\ x == n",
          "intros d n H1 H2 H3. apply convert_si_unit_roundtrip; try assumption. vm_compute. reflexivity.",
          "convert_si_unit_roundtrip instantiated at the live table"),
        L("evaluate_preserves_value_live",
          "forall e S D N, regular live_tbl e -> collect (embed e) = Ok (VQ S, D) -> eval_si live_tbl e = Ok (VQ N) -> "
          "exists N', convert_to_si live_tbl (CQ (VQ S) D) = Ok (VQ N') /\\ N' == N",
          "intros e S D N H1 H2 H3. eapply evaluate_preserves_value; try eassumption. vm_compute. reflexivity.",
          "evaluate_preserves_value instantiated at the live table"),
        L("celsius_quantity_roundtrip_live",
          "forall c, exists sv dv, to_kelvin_quantity live_off (VQ live_kelvin_scale) (snd live_kelvin) live_temperature c = Ok (sv, dv) /\\ "
          "exists c', from_kelvin_quantity live_off (VQ live_kelvin_scale) (snd live_kelvin) sv dv = Ok (VQ c') /\\ c' == c",
          "intros c. apply celsius_quantity_roundtrip; [intros H; vm_compute in H; discriminate H | vm_compute; reflexivity].",
          "celsius_quantity_roundtrip at the live kelvin unit, units.temperature and offset (total: absolute zero included)"),
        L("celsius_roundtrip_live", "forall c, from_kelvin live_off (to_kelvin live_off c) == c",
          "intros c. apply celsius_roundtrip.", "celsius_roundtrip instantiated at the live offset"),
    ]


def search_prefix_failure(ctx, py):
    """a concrete (prefix, unit) on which the implementation's conversion contradicts the SI prefix table"""
    from symplyphysics import convert_to, prefixes  # pylint: disable=import-outside-toplevel
    ref = {"yotta": 24, "zetta": 21, "exa": 18, "peta": 15, "tera": 12, "giga": 9, "mega": 6, "kilo": 3, "hecto": 2, "deca": 1,
        "deci": -1, "centi": -2, "milli": -3, "micro": -6, "nano": -9, "pico": -12, "femto": -15, "atto": -18, "zepto": -21,
        "yocto": -24}
    out = []
    for name in getattr(prefixes, "_fields", []):
        if name not in ref:
            out.append((name, None, None))
            continue
        try:
            got = convert_to(getattr(prefixes, name) * u.meter, u.meter)
            want = Rational(10)**ref[name]
            if abs(sympy.N(got - want, 30)) > abs(sympy.N(want, 30)) * sympy.Float("1e-12"):
                out.append((name, str(got), str(want)))
        except Exception as e:  # pylint: disable=broad-except
            out.append((name, f"{type(e).__name__}: {e}", None))
    for name in ref:
        if name not in getattr(prefixes, "_fields", []):
            out.append((name, "missing", None))
    return out


def search_si_failure():
    """concrete quantities n * (reference SI unit) whose convert_to_si is not n"""
    from symplyphysics import convert_to_si, Quantity  # pylint: disable=import-outside-toplevel
    out = []
    probes = [("u.kilogram", 3), ("u.meter", 3), ("u.second", 3), ("u.ampere", 3), ("u.kelvin", 3), ("u.mole", 3), ("u.candela", 3),
        ("u.joule", 5), ("u.newton", 5), ("u.kilogram*u.meter**2/u.second**3", 7), ("u.kilogram**2", 2), ("u.meter/u.second", 9),
        ("u.volt", 4), ("u.pascal", 6)]
    for src, nval in probes:
        try:
            got = convert_to_si(Quantity(nval * build(src)))
            if got != nval:
                out.append((f"Quantity({nval}*{src})", str(got), str(nval)))
        except Exception as e:  # pylint: disable=broad-except
            out.append((f"Quantity({nval}*{src})", f"{type(e).__name__}: {e}", str(nval)))
    return out


def search_celsius_failure(off_fr):
    from symplyphysics.core.symbols.celsius import Celsius, to_kelvin, from_kelvin  # pylint: disable=import-outside-toplevel
    out = []
    for c in (0.0, 25.0, 100.0, -40.0):
        k = to_kelvin(Celsius(c))
        if abs(k - (c + 273.15)) > 1e-9:
            out.append((f"to_kelvin(Celsius({c}))", k, c + 273.15))
        b = from_kelvin(k).value
        if abs(b - c) > 1e-9:
            out.append((f"from_kelvin(to_kelvin(Celsius({c})))", b, c))
        b2 = from_kelvin(c + 273.15).value
        if abs(b2 - c) > 1e-9:
            out.append((f"from_kelvin({c + 273.15})", b2, c))
    return out


# ---------------------------------------------------------------------------------------------
# deciding
# ---------------------------------------------------------------------------------------------

def model_outputs(ctx, name, preamble, terms):
    try:
        return coqrun.eval_terms(ctx, name, preamble, terms)
    except coqrun.CoqError as e:
        return [f"<coq error {e}>"] * len(terms)


def decide_convert(ctx, cases, bad, pre):
    sub = [cases[i] for i in bad[:25]]
    outs = model_outputs(ctx, "convert_bad", pre, [f"let '(a, b, _, _) := {c['lit']} in convert_to a b" for c in sub])
    for c, mo in zip(sub, outs):
        ok = spec_convert(c["value"], c["target"], c["obs"])
        key = f"C07:convert:{c['vsrc']}->{c['tsrc']}"
        rep = {"kind": "disagreement", "stream": "convert", "value": c["vsrc"], "target": c["tsrc"], "gallina": c["lit"],
            "observed": _obs_json(c["obs"]), "model": mo, "theorem_or_tie": "correspondence Convert.convert_to ~ core/convert.py convert_to"}
        if ok is False:
            rep["expected"] = "n with n * target = value (1e-10), or a refusal for inequivalent dimensions"
            ctx.violation(key, f"convert_to({c['vsrc']}, {c['tsrc']}) = {_obs_json(c['obs'])} contradicts the property", rep, True)
        else:
            ctx.violation(key, f"model and implementation disagree on convert_to({c['vsrc']}, {c['tsrc']})", rep, False)


def _obs_json(obs):
    if obs[0] == "err":
        return {"error_class": obs[1], "message": obs[2]}
    return {"value": str(obs[2]) if len(obs) > 2 else str(obs[1]), "class": str(obs[1][0])}


def run(ctx):
    ctx.level = "proof"
    ctx.static(STATIC)
    ctx.trust("Coq 8.16.1 kernel incl. vm_compute (no native_compute)",
        "harness/vp/qx.py + vp/unitgen.py: SymPy object -> Gallina literal serialiser, exception canonicaliser",
        "Model/CollectQ.v (Quantity construction, tied by C05) and Model/Gate.v (dimension gate, tied by C04) are reused, "
        "and re-tied here through every convert_to case",
        "sympy.physics.units: registered scale factors / dimensions of units (read, not modelled); SymPy exact rational arithmetic",
        "hand-entered reference tables in Model/Convert.v: SI base units (gram-based scales), SI prefix exponents, 273.15")
    ctx.assume("scale factors outside Q (pi/180 for degree, sqrt(2), complex) are outside the exact model: such results are only "
        "compared numerically (side test)",
        "Float scale factors: model is exact rational arithmetic; cases with a Float are compared to relative 1e-12",
        "binary64 Celsius round trip |c' - c| <= 2 ulp(max(|c|, 273.15)) is a TEST over seeded temperatures, not a theorem")

    try:
        tables_text, py = live_tables(ctx)
    except qx.Unsupported as e:
        fails = search_si_failure() + [("prefix",) + tuple(x) for x in search_prefix_failure(ctx, None)]
        ctx.violation(f"C07:tables:untranslatable:{e}", f"table translator cannot express the live tables: {e}",
            {"kind": "broken-tie", "theorem_or_tie": "table translator (props/c07.py live_tables)", "failing_inputs": fails[:5]},
            found_input=bool(fails))
        return
    pre = PREAMBLE0 + tables_text
    pre_p = PREAMBLE_P + tables_text

    # ---- generated lemmas on the live tables ---------------------------------------------------
    lem = table_lemmas()
    res = coqrun.prove_lemmas(ctx, "tables", pre_p, lem, per_file=20)
    ctx.obligations(len(res), sum(v == "ok" for v in res.values()))
    for lm in lem:
        if res.get(lm.name) == "ok":
            continue
        if lm.name.startswith("prefix"):
            fails = search_prefix_failure(ctx, py)
        elif lm.name.startswith("celsius"):
            fails = search_celsius_failure(py["offset"])
        else:
            fails = search_si_failure()
        ctx.violation(f"C07:table-lemma:{lm.name}", f"generated table lemma {lm.name} ({lm.item}) is not provable on the live tables",
            {"kind": "broken-proof", "theorem_or_tie": lm.name, "statement": lm.statement, "coq": res.get(lm.name, "")[-600:],
             "failing_inputs": [list(map(str, f)) for f in fails[:6]],
             "expected": "prefix p * unit = 10^k unit; convert_to_si(n * SI unit) = n; kelvin = celsius + 273.15"},
            found_input=bool(fails))
    ctx.coverage["live_tables"] = {"si": [(n, str(v[1]) if v[0] == "Q" else v[0]) for n, v, _d in py["si_rows"]],
        "prefixes": len(py["prefix_rows"]), "celsius_offset": str(py["offset"])}

    hist = {}
    # ---- history stream FIRST (before any other call of the implementation in this process) --------------------
    seqs, flat = stream_history(ctx, ctx.pick(150, 1200))
    bad_h = []
    for kind, check, ctype in (("convert", "fun c : carg * carg * bool * result val => let '(a, b, ex, o) := c in rval_close ex (convert_to a b) o",
            "carg * carg * bool * result val"), ("si", SI_CHECK, "(dim * cres) + (bool * carg * bool * result val)"),
            ("eval", EVAL_CHECK, "aexpr * qexpr * result val * cres")):
        if flat[kind]:
            for i in coqrun.eval_cases(ctx, f"history_{kind}", pre, [x[2] for x in flat[kind]], check, case_type=ctype):
                bad_h.append(flat[kind][i][:2])
    n_steps = sum(len(q["steps"]) for q in seqs)
    reported = set()
    for si, k in sorted(bad_h)[:6]:
        if si in reported:
            continue
        reported.add(si)
        q = seqs[si]
        kind, lit, _obs, ok, detail = q["results"][k]
        idx, reproduced = minimise_history(q["defs"], q["steps"], k)
        sub = [q["steps"][i] for i in idx]
        defs = used_defs(q["defs"], sub)
        history_effect = len(idx) > 1 and reproduced
        what = (f"the result of step {len(sub)} depends on the calls made before it" if history_effect else "model and implementation disagree on a call")
        ctx.violation(f"C07:history:{defs}:{sub}", f"{what}: {sub[-1]} -> {detail} after {sub[:-1]} with {dict(defs)}",
            {"kind": "disagreement", "stream": "history", "defs": [list(d) for d in defs], "steps": sub, "gallina_last_step": lit,
             "observed": detail, "expected": "every call returns what it returns in a fresh process: n with n * target = value (stateless model)",
             "reproduced_in_fresh_interpreter": reproduced,
             "theorem_or_tie": "convert_spec / convert_compose + correspondence on call sequences (the model has no state)"},
            found_input=(ok is False) or reproduced)
    ctx.evaluated(n_steps, len({x[2] for v in flat.values() for x in v}))
    ctx.coverage["history_sequences"] = len(seqs)
    ctx.coverage["history_steps"] = n_steps
    if seqs:
        ctx.sample({"stream": "history", "defs": seqs[0]["defs"][:4], "steps": seqs[0]["steps"][:3]})
    n_bad_hist = len(bad_h)
    # ---- convert_to ----------------------------------------------------------------------------
    cases, h = stream_convert(ctx, ctx.pick(2500, 20000))
    hist.update(h)
    bad = coqrun.eval_cases(ctx, "convert", pre, [c["lit"] for c in cases],
        "fun c : carg * carg * bool * result val => let '(a, b, ex, o) := c in rval_close ex (convert_to a b) o",
        case_type="carg * carg * bool * result val")
    decide_convert(ctx, cases, bad, pre)
    nontriv = len({c["lit"] for c in cases if c["kind"] != "same" or c["obs"][0] == "err" or c["obs"][1] != ("Q", Fraction(1))})
    ctx.evaluated(len(cases), nontriv)
    for c in cases[:2]:
        ctx.sample({"stream": "convert", "value": c["vsrc"], "target": c["tsrc"], "impl": _obs_json(c["obs"])})
    n_bad = len(bad)

    # numeric side test for results outside the exact model (degree, sqrt(2), pi)
    n_side = 0
    for c in cases:
        if c["obs"][0] == "ok" and c["obs"][1][0] == "Other":
            n_side += 1
            ok = spec_convert(c["value"], c["target"], c["obs"])
            if ok is False:
                ctx.violation(f"C07:convert-numeric:{c['vsrc']}->{c['tsrc']}",
                    f"convert_to({c['vsrc']}, {c['tsrc']}) = {c['obs'][2]} is not value/unit numerically",
                    {"kind": "violation", "stream": "convert-numeric", "value": c["vsrc"], "target": c["tsrc"],
                     "observed": _obs_json(c["obs"]), "theorem_or_tie": "numeric side test n * unit = quantity (1e-10)"}, True)
    ctx.coverage["numeric_side_tests"] = n_side

    # ---- dimensions outside the SI seven: verdicts against the dimsys_SI specification predicate (no Gallina model) ---------
    xcases = stream_extra_dimensions(ctx, ctx.pick(200, 336))
    n_dec = 0
    xhist = {}
    for c in xcases:
        k = f"extra-dimension/{c['op']}:" + ("err%d" % c["obs"][1] if c["obs"][0] == "err" else "value") + ("" if c["spec"] is not None else "/silent")
        xhist[k] = xhist.get(k, 0) + 1
        if c["spec"] is None:
            continue
        n_dec += 1
        if c["spec"] is False:
            ctx.violation(f"C07:extra-dimension:{c['op']}:{c['vsrc']}->{c['tsrc']}",
                f"{c['op']}({c['vsrc']}, {c['tsrc']}) = {_obs_json(c['obs'])}: dimensions outside the seven SI bases are not compared "
                "(or an equivalent conversion is refused / wrong)",
                {"kind": "violation", "stream": "extra-dimension", "op": c["op"], "value": c["vsrc"], "target": c["tsrc"],
                 "observed": _obs_json(c["obs"]),
                 "expected": "refused unless dimsys_SI dependency dicts are equal after angle erasure; then n * target = value",
                 "theorem_or_tie": "specification predicate over dimsys_SI.get_dimensional_dependencies (inputs outside Dim.v's nine slots)"}, True)
    hist.update(xhist)
    ctx.evaluated(len(xcases), len({(c["op"], c["vsrc"], c["tsrc"]) for c in xcases if c["spec"] is not None}))
    ctx.coverage["extra_dimension_cases"] = len(xcases)
    ctx.coverage["extra_dimension_decisive"] = n_dec
    if xcases:
        ctx.sample({"stream": "extra-dimension", "value": xcases[0]["vsrc"], "target": xcases[0]["tsrc"], "impl": _obs_json(xcases[0]["obs"])})

    # ---- convert_to_si / convert_to_float / dimension_to_si_unit ------------------------------------
    scases, h = stream_si(ctx, ctx.pick(1500, 12000))
    hist.update(h)
    bad_s = coqrun.eval_cases(ctx, "si", pre, [c["lit"] for c in scases], SI_CHECK,
        case_type="(dim * cres) + (bool * carg * bool * result val)")
    for i in bad_s[:25]:
        c = scases[i]
        ok = spec_si(c["value"], c["obs"]) if c["kind"] not in ("si-unit", "float") else None
        key = f"C07:si:{c['kind']}:{c['vsrc']}"
        rep = {"kind": "disagreement", "stream": "si", "value": c["vsrc"], "case_kind": c["kind"], "gallina": c["lit"],
            "observed": _obs_json(c["obs"]) if c["kind"] != "si-unit" else str(c["obs"]),
            "theorem_or_tie": "correspondence Convert.convert_to_si / si_unit_expr ~ convert_to_si / dimension_to_si_unit"}
        if ok is False:
            rep["expected"] = "x with x * (SI coherent unit of the quantity's dimension) = quantity"
            ctx.violation(key, f"convert_to_si({c['vsrc']}) = {_obs_json(c['obs'])} contradicts the property", rep, True)
        else:
            fails = search_si_failure() if c["kind"] == "si-unit" else []
            if fails:
                rep["failing_inputs"] = [list(map(str, f)) for f in fails[:5]]
            ctx.violation(key, f"model and implementation disagree on {c['kind']} {c['vsrc']}", rep, bool(fails))
    ctx.evaluated(len(scases), len({c["lit"] for c in scases}))
    for c in scases[:2]:
        ctx.sample({"stream": "si", "kind": c["kind"], "value": c["vsrc"], "impl": _obs_json(c["obs"]) if c["kind"] != "si-unit" else str(c["obs"][:2])})
    n_bad += len(bad_s)

    # ---- composition ---------------------------------------------------------------------------
    ccases = stream_compose(ctx, ctx.pick(600, 5000))
    bad_c = coqrun.eval_cases(ctx, "compose", pre, [c["lit"] for c in ccases], COMPOSE_CHECK,
        case_type="carg * carg * carg * (result val * result val * result val)")
    for i in bad_c[:25]:
        c = ccases[i]
        ox, oy, oz = c["obs"]
        found = False
        if all(o[0] == "ok" and o[1][0] == "Q" for o in (ox, oy, oz)):
            found = ox[1][1] * oy[1][1] != oz[1][1]
        if not found:
            a, b, cc = c["objs"]
            found = any(spec_convert(p, q, o) is False for p, q, o in ((a, b, ox), (b, cc, oy), (a, cc, oz)))
        ctx.violation(f"C07:compose:{'|'.join(c['srcs'])}",
            f"conversions do not compose on {c['srcs']}: a->b {_obs_json(ox)}, b->c {_obs_json(oy)}, a->c {_obs_json(oz)}",
            {"kind": "disagreement", "stream": "compose", "units": c["srcs"], "gallina": c["lit"],
             "observed": [_obs_json(o) for o in c["obs"]], "expected": "(a->b) * (b->c) = (a->c)",
             "theorem_or_tie": "convert_compose / correspondence"}, found)
    ctx.evaluated(len(ccases), len({c["lit"] for c in ccases}))
    if ccases:
        ctx.sample({"stream": "compose", "units": ccases[0]["srcs"], "impl": [_obs_json(o) for o in ccases[0]["obs"]]})
    n_bad += len(bad_c)

    # ---- evaluate_expression -------------------------------------------------------------------
    ecases, h = stream_eval(ctx, ctx.pick(800, 6000))
    hist.update(h)
    bad_e = coqrun.eval_cases(ctx, "evalexpr", pre, [c["lit"] for c in ecases], EVAL_CHECK,
        case_type="aexpr * qexpr * result val * cres")
    for i in bad_e[:25]:
        c = ecases[i]
        on, oq = c["obs"], c["obs_q"]
        ok, detail = spec_evaluate(c["expr_obj"])
        ctx.violation(f"C07:evaluate:{c['recipe']}:{'|'.join(c['leaves'])}",
            f"evaluate_expression({c['expr']}) = {_obs_json(on)}; value of the expression as a quantity = {oq[:2]}",
            {"kind": "disagreement", "stream": "evaluate_expression", "leaves": c["leaves"], "recipe": c["recipe"], "srepr": c["srepr"],
             "gallina": c["lit"], "observed": {"evaluate_expression": _obs_json(on), "Quantity(expr)": str(oq[:3]), "detail": detail},
             "expected": "N * scale(SI unit of dim) = scale of Quantity(expr)",
             "theorem_or_tie": "evaluate_preserves_value / correspondence eval_si ~ evaluate_expression"}, ok is False)
    ctx.evaluated(len(ecases), len({c["lit"] for c in ecases}))
    if ecases:
        ctx.sample({"stream": "evaluate_expression", "expr": ecases[0]["expr"], "impl": _obs_json(ecases[0]["obs"])})
    n_bad += len(bad_e)

    # ---- the value argument is an expression (sums, products, Abs, unevaluated Min / Max with zero / infinite terms) ---------
    vcases = stream_expression_values(ctx, ctx.pick(500, 4000))
    flagged = {}
    for kind, check, ctype in (("convert", "fun c : carg * carg * bool * result val => let '(a, b, ex, o) := c in rval_close ex (convert_to a b) o",
            "carg * carg * bool * result val"), ("si", SI_CHECK, "(dim * cres) + (bool * carg * bool * result val)")):
        sub = [c for c in vcases if c["kind"] == kind]
        for i in coqrun.eval_cases(ctx, f"exprvalue_{kind}", pre, [c["lit"] for c in sub], check, case_type=ctype):
            flagged[id(sub[i])] = sub[i]
    for c in vcases:
        if c["spec"] is False:
            flagged[id(c)] = c
    for c in sorted(flagged.values(), key=lambda c: c["spec"] is not False)[:25]:
        ctx.violation(f"C07:expression-value:{c['op']}:{c['vsrc']}->{c['tsrc']}",
            f"{c['op']}({c['vsrc']}" + (f", {c['tsrc']}" if c["op"] == "convert" else "") + f") = {_obs_json(c['obs'])}: not the value of the expression",
            {"kind": "disagreement", "stream": "expression-value", "op": c["op"], "value": c["vsrc"], "target": c["tsrc"], "class": c["cls"],
             "observed": _obs_json(c["obs"]), "gallina": c["lit"], "expected": "n * unit = value of the expression (Max / Min / Abs / sums evaluated on the scale factors)",
             "theorem_or_tie": "convert_spec + correspondence with CollectQ on expression-valued arguments"}, c["spec"] is False)
    n_bad += len(flagged)
    ctx.evaluated(len(vcases), len({(c["op"], c["vsrc"], c["tsrc"]) for c in vcases}))
    ctx.coverage["expression_value_cases"] = len(vcases)
    if vcases:
        ctx.sample({"stream": "expression-value", "op": vcases[0]["op"], "value": vcases[0]["vsrc"], "target": vcases[0]["tsrc"], "impl": _obs_json(vcases[0]["obs"])})

    # ---- evaluate_expression: all flag combinations, magnitudes 1e-40 .. 1e40, free symbols (specification check) ---------
    fcases = list(EVAL_FIXED) + [(gen_flag_expr(ctx.rng), ctx.rng.choice(EVAL_KWARGS)) for _ in range(ctx.pick(250, 2000))]
    n_flag_dec = 0
    for src, kw in fcases:
        try:
            ok, detail = spec_evaluate_flags(src, kw)
        except Exception as e:  # pylint: disable=broad-except
            ok, detail = None, f"{type(e).__name__}: {e}"
        n_flag_dec += ok is not None
        if ok is False:
            ctx.violation(f"C07:evaluate-flags:{src}:{sorted(kw.items())}",
                f"evaluate_expression({src}, evaluate=True, **{kw}) is not the numeric value of evaluate=False: {detail}",
                {"kind": "violation", "stream": "evaluate-flags", "expr": src, "kwargs": kw, "observed": detail,
                 "expected": "evaluate=True agrees with evaluate=False to the requested relative precision (no absolute cut)",
                 "theorem_or_tie": "evaluate_preserves_value + numeric agreement of the evalf path (specification check)"}, True)
    ctx.evaluated(len(fcases), len({(a, str(b)) for a, b in fcases}))
    ctx.coverage["evaluate_flag_cases"] = len(fcases)
    ctx.coverage["evaluate_flag_decisive"] = n_flag_dec
    ctx.sample({"stream": "evaluate-flags", "expr": fcases[5][0], "kwargs": fcases[5][1]})

    # ---- Celsius objects with a history (converted, mutated, converted again; two equal-valued objects) ----------------
    hseqs = stream_celsius_history(ctx, ctx.pick(120, 1000), py["offset"])
    hflat = [(si, k, lit) for si, q in enumerate(hseqs) for k, (lit, _r) in enumerate(q["results"])]
    bad_ch = coqrun.eval_cases(ctx, "celsius_history", pre, [x[2] for x in hflat], celsius_check_text(),
        case_type="(Q * Q * Q * bool * cres * result val) + ((val * dim) * result val)")
    done = set()
    for i in bad_ch:
        si, k, lit = hflat[i]
        if si in done or len(done) >= 5:
            continue
        done.add(si)
        q = hseqs[si]
        vals = q["values"]
        is_other = k >= len(vals)
        seq = vals[:k + 1] if not is_other else vals
        # minimise: the failing value alone on a fresh object, then every single earlier value before it
        cand = [[seq[-1]]] + [[v, seq[-1]] for v in seq[:-1]] if not is_other else [seq[:1] + [v] for v in seq[1:]] + [seq]
        chosen, rec = seq, q["results"][k][1]
        for cnd in cand:
            r = run_celsius_history(cnd, py["offset"], is_other)
            if r[-1][1]["spec"] is False:
                chosen, rec = cnd, r[-1][1]
                break
        ctx.violation(f"C07:celsius-history:{chosen}:{'second-object' if is_other else 'same-object'}",
            f"Celsius object given the values {chosen} in turn" + (" (then a second object with the first value)" if is_other else "")
            + f": at value {rec['c']!r} to_kelvin = {rec['kelvin']!r} but to_kelvin_quantity = {rec['obs_q'][1:2]}, round trip = {rec['obs_b'][1:2]}",
            {"kind": "disagreement", "stream": "celsius-history", "values": [repr(v) for v in chosen], "second_object": is_other,
             "observed": {"celsius": repr(rec["c"]), "to_kelvin": repr(rec["kelvin"]), "to_kelvin_quantity": str(rec["obs_q"][:3]),
                          "from_kelvin_quantity(to_kelvin_quantity)": str(rec["obs_b"][:2])}, "gallina_last_step": lit,
             "expected": "every call reflects the CURRENT value of the Celsius object (stateless model): kelvin = value + 273.15 and back",
             "theorem_or_tie": "celsius_quantity_roundtrip + correspondence on mutated Celsius objects"}, rec["spec"] is False)
    ctx.evaluated(len(hflat), len({x[2] for x in hflat}))
    ctx.coverage["celsius_history_sequences"] = len(hseqs)
    n_bad += len(bad_ch)
    if hseqs:
        ctx.sample({"stream": "celsius-history", "values": hseqs[0]["values"], "second_object": hseqs[0]["two"]})

    # ---- Celsius -------------------------------------------------------------------------------
    tcases, n_float, float_failures = stream_celsius(ctx, ctx.pick(600, 5000), py["offset"])
    bad_t = coqrun.eval_cases(ctx, "celsius", pre, [c["lit"] for c in tcases], celsius_check_text(),
        case_type="(Q * Q * Q * bool * cres * result val) + ((val * dim) * result val)")
    known_abs_zero = False
    for i in bad_t[:25]:
        c = tcases[i]
        if c["kind"] == "celsius":
            found = abs(Fraction(c["kelvin"]) - Fraction(c["c"]) - Fraction(27315, 100)) > Fraction(1, 10**9) * (1 + abs(Fraction(c["c"]))) \
                or abs(c["back"] - c["c"]) > 2 * math.ulp(max(abs(c["c"]), 273.15)) \
                or c["obs_b"][0] == "err" or abs(float(c["obs_b"][1][1]) - c["c"]) > 4 * math.ulp(max(abs(c["c"]), 273.15))
            ctx.violation(f"C07:celsius:{c['c']!r}", f"Celsius helpers at {c['c']!r}: kelvin {c['kelvin']!r}, back {c['back']!r}",
                {"kind": "disagreement", "stream": "celsius", "celsius": repr(c["c"]), "observed": {"to_kelvin": repr(c["kelvin"]),
                 "from_kelvin": repr(c["back"]), "to_kelvin_quantity": str(c["obs_q"][:3]), "from_kelvin_quantity": str(c["obs_b"][:2])},
                 "expected": "kelvin = celsius + 273.15 and back", "gallina": c["lit"],
                 "theorem_or_tie": "celsius_roundtrip / correspondence"}, found)
        else:
            ctx.violation(f"C07:from_kelvin_quantity:{c['src']}", f"model and implementation disagree on from_kelvin_quantity({c['src']})",
                {"kind": "disagreement", "stream": "celsius", "quantity": c["src"], "observed": _obs_json(c["obs"]), "gallina": c["lit"],
                 "theorem_or_tie": "correspondence from_kelvin_quantity"}, False)
    for (c, kel, back) in float_failures[:5]:
        ctx.violation(f"C07:celsius-float:{c!r}", f"binary64 Celsius round trip exceeds 2 ulp at {c!r}: {back!r}",
            {"kind": "violation", "stream": "celsius-float", "celsius": repr(c), "observed": {"to_kelvin": repr(kel), "back": repr(back)},
             "expected": "|back - c| <= 2 ulp(max(|c|, 273.15))", "theorem_or_tie": "binary64 round-trip test"}, True)
    ctx.evaluated(len(tcases), len({c["lit"] for c in tcases}))
    ctx.coverage["celsius_float_roundtrip_tests"] = n_float
    if tcases:
        ctx.sample({"stream": "celsius", "celsius": repr(tcases[0].get("c")), "kelvin": repr(tcases[0].get("kelvin")), "back": repr(tcases[0].get("back"))})
    n_bad += len(bad_t)

    # ---- regression guard for the absolute-zero repair (d2bd6de): the concrete input, reported by name ----------
    replay_absolute_zero(ctx, py["offset"])

    ctx.coverage["disagreements"] = n_bad + n_bad_hist
    ctx.coverage["verdict_histogram"] = dict(sorted(hist.items()))
    ctx.coverage["rule"] = ("history: seeded sequences of 3-7 calls in one process (convert_to / convert_to_si / convert_to_float / "
        "evaluate_expression) whose targets are compound expressions over user-defined units sharing a display_symbol, units agreeing to 3-5 "
        "significant digits, the same expression object reused, Quantity vs raw targets, each compared with the stateless model; "
        "convert: seeded (value, target) over 23 dimension classes x their spellings (base, derived, SymPy-prefixed, "
        "symplyphysics-prefixed, non-decimal units), magnitudes exact / dyadic / float / 0, +-oo, nan, as Quantity objects and as raw "
        "expressions, 60% same class / 40% other class, angle factors, zero / infinite targets, and (312 fixed + 6% random cases) bare-number "
        "targets of every accepted type (Python int / float, prefixes.*, SymPy Integer / Rational / Float / S.One, dimensionless Quantity) "
        "against dimensionful and dimensionless values; si: random integer and half-integer "
        "dimension vectors, SI-unit round trips, angle-bearing dimensions, dimension_to_si_unit itself, convert_to_float; compose: triples "
        "of one class; extra-dimension: information units and user-defined Dimension objects in value / target / both, verdicts against "
        "the dimsys_SI dependency predicate (no model); evaluate: random Add/Mul/Pow trees (depth <= 3) over 1-3 leaves, 35% of them plain "
        "sympy unit / constant atoms, result must be a pure number; celsius: exact dyadic stream + 1e-6..1e7 "
        "magnitudes of both signs; celsius-history: one Celsius object given 2-4 seeded values in turn (incl. -273.15, +-0, 1e15) and a second "
        "equal-valued object, every observation compared with the stateless model; evaluate-flags: monomials over quantities and sympy "
        "constants with magnitudes 1e-40..1e40 and free symbols, evaluate=True/False x {n=3,8,30, maxn} (relative agreement).  distinct = distinct Gallina literals; non-trivial (convert) = not (same class and result 1)")


# ---- Celsius objects with a history: one object converted, mutated, converted again --------------------------------
CELSIUS_VALUES = [20.0, 100.0, 0.0, -0.0, 25.5, -40.0, 1e6, 1e15, -1e9, 37.0, 1.5e-7, 300.0]


def celsius_observe(obj, off_fr):
    """the observations of stream_celsius on an EXISTING Celsius object -> (case literal, record)"""
    from symplyphysics.core.symbols.celsius import to_kelvin, from_kelvin, to_kelvin_quantity, from_kelvin_quantity  # pylint: disable=import-outside-toplevel
    c = float(obj.value)
    kel = to_kelvin(obj)
    back = from_kelvin(kel).value
    ex = Fraction(c) + off_fr == Fraction(kel) and Fraction(kel) - off_fr == Fraction(back)
    obs_q = qx.cres_of_impl(lambda: (lambda q: (q.scale_factor, q.dimension))(to_kelvin_quantity(obj)))
    try:
        cq = from_kelvin_quantity(to_kelvin_quantity(obj)).value
        obs_b = ("ok", ("Q", Fraction(cq)), cq)
    except Exception as e:  # pylint: disable=broad-except
        obs_b = ("err", qx.err_class(e), str(e)[:100])
    lit = (f"(inl ({qx.q_lit(Fraction(c))}, {qx.q_lit(Fraction(kel))}, {qx.q_lit(Fraction(back))}, {'true' if ex else 'false'}, "
        f"{qx.cres_lit(obs_q)}, {rval_lit(obs_b)}))")
    ok = obs_b[0] == "ok" and abs(obs_b[2] - c) <= 4 * math.ulp(max(abs(c), 273.15)) and obs_q[0] == "ok" and obs_q[1][0] == "Q" \
        and abs(obs_q[1][1] - Fraction(kel)) <= Fraction(1, 10**9) * (1 + abs(Fraction(kel)))
    return lit, {"c": c, "kelvin": kel, "back": back, "obs_q": obs_q, "obs_b": obs_b, "spec": ok}


def run_celsius_history(values, off_fr, two_objects=False):
    """values assigned one after the other to ONE Celsius object (with two_objects: a second, distinct object gets the same
    first value and is observed after the first one was mutated); every observation must be that of a fresh object"""
    from symplyphysics.core.symbols.celsius import Celsius  # pylint: disable=import-outside-toplevel
    obj = Celsius(values[0])
    other = Celsius(values[0]) if two_objects else None
    out = [celsius_observe(obj, off_fr)]
    for v in values[1:]:
        obj.value = v
        out.append(celsius_observe(obj, off_fr))
    if other is not None:
        out.append(celsius_observe(other, off_fr))
    return out


def stream_celsius_history(ctx, nseq, off_fr):
    rng = ctx.rng
    seqs = []
    for _ in range(nseq):
        pool = CELSIUS_VALUES + [-float(off_fr), rng.uniform(-273, 1000), rng.randrange(-200, 5000) / 8]
        values = [rng.choice(pool) for _ in range(rng.choice([2, 3, 4]))]
        two = rng.random() < 0.4
        seqs.append({"values": values, "two": two, "results": run_celsius_history(values, off_fr, two)})
    return seqs


# ---- evaluate_expression with every flag combination ------------------------------------------------------------------
EVAL_KWARGS = [{}, {"n": 3}, {"n": 8}, {"n": 30}, {"maxn": 200}, {"n": 3, "maxn": 50}]
EVAL_CONSTANTS = ["u.elementary_charge", "u.planck", "u.electron_rest_mass", "u.boltzmann_constant", "u.speed_of_light", "u.avogadro_constant",
    "u.vacuum_permittivity", "u.gravitational_constant"]
EVAL_FIXED = [("3*u.elementary_charge", {}), ("u.planck*x/u.electron_rest_mass", {}), ("2*Quantity(Float(532e-9)*u.meter)", {"n": 3}),
    ("x*Quantity(Rational(1,10**30)*u.joule)**2", {"n": 8}), ("Quantity(10**35*u.meter)/Quantity(Rational(1,10**35)*u.second)", {})]


def gen_flag_expr(rng):
    """a monomial (or m + k*m) over quantities / sympy constants with magnitudes 1e-40 .. 1e40, optionally with free symbols"""
    factors = []
    for _ in range(rng.choice([1, 1, 2, 3])):
        if rng.random() < 0.3:
            leaf = rng.choice(EVAL_CONSTANTS)
        else:
            k = rng.randrange(-40, 41)
            mag = f"{rng.randrange(1, 999)}*Rational(10)**({k})" if rng.random() < 0.7 else f"Float({rng.uniform(1, 10)!r}e{k})"
            leaf = f"Quantity(({mag})*{unitgen.pick_unit(rng, unitgen.pick_class(rng))})"
        p = rng.choice([1, 1, 1, 2, -1, -2])
        factors.append(f"({leaf})**({p})" if p != 1 else leaf)
    src = "*".join(factors)
    if rng.random() < 0.5:
        src = f"Rational({rng.randrange(1, 50)},{rng.randrange(1, 9)})*" + src
    if rng.random() < 0.35:
        src = rng.choice(["x*", "x**2*", "x*y*"]) + src
    if rng.random() < 0.2:
        src = f"({src}) + 2*({src})"
    return src


def spec_evaluate_flags(src, kwargs):
    """evaluate=True must be the numeric value of evaluate=False: relative agreement to the requested precision, never an
    absolute cut.  -> (verdict, detail)"""
    from symplyphysics.core.convert import evaluate_expression  # pylint: disable=import-outside-toplevel
    ns = dict(unitgen.namespace())
    ns["x"], ns["y"] = sympy.Symbol("x"), sympy.Symbol("y")
    expr = eval(src, ns)  # pylint: disable=eval-used
    exact = evaluate_expression(expr)
    same = evaluate_expression(expr, evaluate=False, **kwargs)
    try:
        num = evaluate_expression(expr, evaluate=True, **kwargs)
    except Exception as e:  # pylint: disable=broad-except
        return False, f"evaluate=True raised {type(e).__name__}: {e}"
    vals = {ns["x"]: Rational(7, 3), ns["y"]: Rational(-5, 2)}
    a, b, c = (sympy.N(sympy.sympify(t).subs(vals), 40) for t in (exact, num, same))
    if not (a.is_number and a.is_finite):
        return None, f"evaluate=False gives {exact}"
    digits = min(kwargs.get("n", 15), 15)           # Float scale factors carry 15 digits whatever n asks for
    tol = min(sympy.Float("0.3"), max(sympy.Float("1e-12"), 40 * sympy.Float(10)**(1 - digits)))
    detail = f"evaluate=False: {exact}; evaluate=True, {kwargs}: {num}"
    if not (b.is_number and b.is_finite) or abs(b - a) > tol * abs(a):
        return False, detail
    if abs(c - a) > sympy.Float("1e-30") * abs(a):
        return False, detail + f"; evaluate=False with kwargs: {same}"
    return True, detail


def replay_absolute_zero(ctx, off_fr):
    """celsius_quantity_roundtrip at its boundary: the quantity helpers must be inverse at absolute zero too."""
    from symplyphysics.core.symbols.celsius import Celsius, to_kelvin_quantity, from_kelvin_quantity  # pylint: disable=import-outside-toplevel
    c = -float(off_fr)
    try:
        q = to_kelvin_quantity(Celsius(c))
        back = from_kelvin_quantity(q).value
        ok = abs(back - c) <= 2 * math.ulp(max(abs(c), 273.15))
        observed = repr(back)
    except Exception as e:  # pylint: disable=broad-except
        ok = False
        observed = f"{type(e).__name__}: {e}"
    ctx.coverage["absolute_zero_replay"] = observed
    if not ok:
        ctx.violation("C07:celsius:absolute-zero-quantity",
            f"from_kelvin_quantity(to_kelvin_quantity(Celsius({c!r}))) -> {observed} (expected {c!r})",
            {"kind": "violation", "stream": "celsius", "celsius": repr(c), "observed": observed, "expected": repr(c),
             "theorem_or_tie": "celsius_quantity_roundtrip / ex_celsius_absolute_zero (c = -offset) checked on the implementation"}, True)


# ---------------------------------------------------------------------------------------------
# replay
# ---------------------------------------------------------------------------------------------

def replay(ctx, rep):
    from symplyphysics import convert_to, convert_to_si  # pylint: disable=import-outside-toplevel
    stream = rep.get("stream")
    print(f"replaying {rep.get('key')} on {ctx.coverage.get('implementation')}")
    rc = 0
    if stream in ("convert", "convert-numeric"):
        value, target = build(rep["value"]), build(rep["target"])
        obs = run_val(convert_to, value, target)
        ok = spec_convert(value, target, obs)
        print(f"convert_to({rep['value']}, {rep['target']}) -> {_obs_json(obs)}; specification predicate: {ok}")
        rc = 1 if ok is False else 0
    elif stream == "si":
        value = build(rep["value"])
        if rep.get("case_kind") == "si-unit":
            print("SI unit:", value.scale_factor, value.dimension, "; probes:", search_si_failure())
            rc = 1 if search_si_failure() else 0
        else:
            obs = run_val(convert_to_si, value)
            ok = spec_si(value, obs)
            print(f"convert_to_si({rep['value']}) -> {_obs_json(obs)}; specification predicate: {ok}")
            rc = 1 if ok is False else 0
    elif stream == "compose":
        objs = [build(s) for s in rep["units"]]
        a, b, c = objs
        obs = [run_val(convert_to, a, b), run_val(convert_to, b, c), run_val(convert_to, a, c)]
        print("a->b, b->c, a->c:", [_obs_json(o) for o in obs])
        if all(o[0] == "ok" for o in obs):
            rc = 1 if sympy.simplify(obs[0][2] * obs[1][2] - obs[2][2]) != 0 else 0
        else:
            rc = 1 if any(spec_convert(p, q, o) is False for p, q, o in ((a, b, obs[0]), (b, c, obs[1]), (a, c, obs[2]))) else 0
    elif stream == "evaluate_expression":
        leaves = [build(x) for x in rep["leaves"]]
        expr = build_tree(rep["recipe"], leaves)
        ok, detail = spec_evaluate(expr)
        print("leaves:", rep["leaves"], "\nrecipe:", rep["recipe"], "\nexpression:", expr)
        print("N * scale(SI unit) = S ?", ok, "--", detail)
        rc = 1 if ok is False else 0
    elif stream == "extra-dimension":
        from symplyphysics import convert_to_float  # pylint: disable=import-outside-toplevel
        value, target = build(rep["value"]), build(rep["target"])
        if rep.get("op") == "convert_to_float":
            try:
                fl = convert_to_float(value)
                obs = ("ok", ("Q", Fraction(fl)), sympy.Float(fl))
            except Exception as e:  # pylint: disable=broad-except
                obs = ("err", qx.err_class(e), f"{type(e).__name__}: {e}"[:200])
        else:
            obs = run_val(convert_to, value, target)
        ok = spec_convert_deps(value, target, obs)
        print(f"{rep.get('op')}({rep['value']}, {rep['target']}) -> {_obs_json(obs)}; dependencies {indep_deps(value)[1]} vs {indep_deps(target)[1]}; "
            f"specification predicate: {ok}")
        rc = 1 if ok is False else 0
    elif stream == "history":
        defs = [tuple(d) for d in rep["defs"]]
        print("definitions:")
        for n, sc in defs:
            print(f"  {n} = {sc}")
        res = run_sequence(defs, rep["steps"])
        for st, (_k, _lit, _obs, ok, detail) in zip(rep["steps"], res):
            print(f"  {st['op']}({st['value']}{', ' + st['target'] if st['target'] else ''}) -> {detail}; specification predicate: {ok}")
        alone = run_fresh([list(d) for d in used_defs(defs, rep["steps"][-1:])], rep["steps"][-1:])
        if alone:
            print(f"  the last call alone, in a fresh interpreter -> {alone[-1]['obs']}; specification predicate: {alone[-1]['spec']}")
        rc = 1 if res[-1][3] is False else 0
    elif stream == "expression-value":
        from symplyphysics import convert_to_float  # pylint: disable=import-outside-toplevel
        from symplyphysics.core.convert import evaluate_expression  # pylint: disable=import-outside-toplevel
        value, target = build(rep["value"]), build(rep["target"])
        fn = {"convert": lambda: convert_to(value, target), "si": lambda: convert_to_si(value), "float": lambda: sympy.Float(convert_to_float(value)),
            "eval": lambda: evaluate_expression(value)}[rep["op"]]
        obs = run_val(fn)
        ok = spec_expression_value(value, target, rep["class"], rep["op"], obs)
        print(f"{rep['op']}({rep['value']}, {rep['target']}) -> {_obs_json(obs)}; value of the expression (scale) = {qx.pyvalue(value)}; specification predicate: {ok}")
        rc = 1 if ok is False else 0
    elif stream == "celsius-history":
        vals = [float(v) for v in rep["values"]]
        res = run_celsius_history(vals, Fraction(27315, 100), rep.get("second_object", False))
        for v, (_lit, r) in zip(vals + vals[:1], res):
            print(f"  value {r['c']!r}: to_kelvin {r['kelvin']!r}; to_kelvin_quantity {r['obs_q'][1:2]}; round trip {r['obs_b'][1:2]}; ok: {r['spec']}")
        rc = 1 if res[-1][1]["spec"] is False else 0
    elif stream == "evaluate-flags":
        ok, detail = spec_evaluate_flags(rep["expr"], rep["kwargs"])
        print(f"evaluate_expression({rep['expr']}, evaluate=True, **{rep['kwargs']}): {detail}; specification predicate: {ok}")
        rc = 1 if ok is False else 0
    elif stream in ("celsius", "celsius-float"):
        from symplyphysics.core.symbols.celsius import Celsius, to_kelvin, from_kelvin, to_kelvin_quantity, from_kelvin_quantity  # pylint: disable=import-outside-toplevel
        if "celsius" in rep:
            c = float(rep["celsius"])
            k = to_kelvin(Celsius(c))
            print(f"to_kelvin(Celsius({c!r})) = {k!r}; from_kelvin = {from_kelvin(k).value!r}")
            try:
                back = from_kelvin_quantity(to_kelvin_quantity(Celsius(c))).value
                print(f"from_kelvin_quantity(to_kelvin_quantity(Celsius({c!r}))) = {back!r}")
                rc = 0 if abs(back - c) <= 2 * math.ulp(max(abs(c), 273.15)) and abs(from_kelvin(k).value - c) <= 2 * math.ulp(max(abs(c), 273.15)) \
                    and abs(k - c - 273.15) < 1e-9 * (1 + abs(c)) else 1
            except Exception as e:  # pylint: disable=broad-except
                print(f"from_kelvin_quantity(to_kelvin_quantity(Celsius({c!r}))) raised {type(e).__name__}: {e}")
                rc = 1
        else:
            q = build(rep["quantity"])
            print("from_kelvin_quantity ->", run_val(lambda: from_kelvin_quantity(q).value)[1:])
    else:
        print("theorem / tie:", rep.get("theorem_or_tie"))
        for f in rep.get("failing_inputs", []):
            print("  failing input:", f)
        print("prefix probes:", search_prefix_failure(ctx, None)[:5])
        print("SI probes:", search_si_failure()[:5])
        print("Celsius probes:", search_celsius_failure(Fraction(27315, 100))[:5])
        rc = 1 if rep.get("found_failing_input") else 0
    print("replay verdict:", "property violated on this input" if rc else "no violation reproduced")
    return rc
