"""C02 -- calculation functions return solutions of the law they belong to.

static theorems : coq/theories/Properties/C02.v (unit independence, ceiling / magnitude exceptions, vector forms)
generated       : one Coq lemma per calculate_* function (per returning path):
                      forall args : R, <hyps> -> let y := F args in law_lhs[sigma] = law_rhs[sigma]
                  F is extracted by running the function's own code object on symbolic stand-ins (vp/c02_extract.py);
                  the law is the module's published Eq; sigma and the `let` are instantiated in Coq (vp/c02_lemma.py).
tie             : translation validation of the extraction -- the REAL decorated function is called on seeded
                  admissible argument tuples written in random units and compared with F at the SI values (rel 1e-9);
                  the same calls evaluate the law residual directly (specification predicate, test evidence)."""
from __future__ import annotations

import inspect
import json
import multiprocessing as mp
import os
import random
import signal
import time
import traceback
from pathlib import Path

import sympy

from vp import coqrun, sx
from vp import c02_extract as X
from vp import c02_lemma as L
from vp import c02_num as N
from vp import c02_coq
from vp import c02_special as S

TP_KEY = "C02:core.geometry.line.two_point_function:float-precision"
SOLVE_KEY = "C02:solve-after-substitution:float-precision"

STATIC = ["quantity_is_si_value", "calc_result_unit_independent", "rounded_up_integer_spec", "rounded_up_integer_unique",
    "magnitude_of_solution", "vector_forms_mutual_inverse"]

DATA = Path(__file__).resolve().parents[1] / "data"
PREAMBLE = sx.R_PREAMBLE + "From VP Require Import Proofs.C02Tac.\n"

_ITEMS: list = []
_CFG: dict = {}


# ---------------------------------------------------------------------------------------------
# per-item work (runs in a forked worker)
# ---------------------------------------------------------------------------------------------

def build_lemmas(ex):
    """-> (list of LemmaSpec, {branch index: reason no obligation was generated})."""
    specs, nol = [], {}
    for bi in range(len(ex.branches)):
        try:
            specs.append(L.build(ex, bi))
        except L.NotHandled as e:
            nol[bi] = str(e)
        except sx.Unsupported as e:
            nol[bi] = f"outside the serialiser's vocabulary: {e}"
    # a function documented to return the rounded-up integer does so on every path: a path that returns an integer
    # constant (e.g. `max(1, ceiling(x))`) is judged numerically against ceil(solution) of the sibling path as well
    ceil_specs = [s for s in specs if s.exception == "ceiling"]
    if ceil_specs:
        for s in specs:
            if not s.exception and s.kind in ("simple", "structured") and sympy.sympify(s.F).is_Integer:
                s.exception, s.F = "ceiling", ceil_specs[0].F
    return specs, nol


def pick_branch(ex, env):
    for bi, b in enumerate(ex.branches):
        conds = [rel if taken else sympy.Not(rel) for rel, taken in b.path]
        if N.conds_hold(conds, env):
            return bi
    return None


def eval_branch(b, env):
    """Numeric value of a branch's closed form (scalar / vector / tuple) at SI values."""
    def ev(kind, val):
        if kind == "scalar":
            return N.numeric(val, env)
        if kind == "vector":
            return [N.numeric(c, env) for c in val]
        return [ev(k, v) for k, v in val]
    return ev(b.result_kind, b.result)


def describe_call(kwargs):
    def d(v):
        from symplyphysics.core.vectors.vectors import QuantityVector  # pylint: disable=import-outside-toplevel
        if isinstance(v, QuantityVector):
            return {"vector": [d(c) for c in v.components]}
        if isinstance(v, (list, tuple)):
            return [d(x) for x in v]
        if isinstance(v, sympy.Basic) and v.free_symbols and not hasattr(v, "scale_factor"):
            return {"expression": str(v)}
        if isinstance(v, sympy.Basic):
            return {"si": repr(N.si_float(v)), "dimension": str(getattr(v, "dimension", ""))}
        return {"number": repr(v)}
    return {k: d(v) for k, v in kwargs.items()}


def real_call(item, kwargs):
    try:
        return N.result_si(item.fn(**kwargs)), None
    except Exception as e:  # pylint: disable=broad-except
        return None, f"{type(e).__name__}: {str(e)[:120]}"


def one_call(item, ex, specs, rng, lo, hi, small=False, plan=None, exact=False):
    """Call the REAL function once.  -> dict(status=inadmissible|ok|tie-mismatch|residual-fail|uncovered-path, ...)."""
    # cheap pre-screen with the closed form: redraw while it is undefined / non-real at the drawn point
    complex_ok = any(sympy.sympify(c).has(sympy.I) for b_ in ex.branches for c in N._flatten(  # pylint: disable=protected-access
        b_.result if b_.result_kind != "scalar" else [b_.result]) if isinstance(c, sympy.Basic))
    for _try in range(25):
        kwargs, env, desc = N.draw_call(ex, rng, lo, hi, small, plan, exact)
        try:
            bi0 = pick_branch(ex, env)
            if bi0 is None:
                continue
            v0 = eval_branch(ex.branches[bi0], env)
            if N.finite_real(v0) or (complex_ok and N.finite(v0)):
                break
        except Exception:  # pylint: disable=broad-except
            continue
    rec = {"env": {str(k): (v if isinstance(v, (float, int)) else str(v)) for k, v in env.items()}, "units": desc, "exact": exact}
    got, err = real_call(item, kwargs)
    if err is not None:
        rec.update(status="inadmissible", why=err)
        return rec
    if not N.finite(got):
        rec.update(status="inadmissible", why=f"non-finite result {got!r}"[:160])
        return rec
    rec["result_si"] = got
    rec["call"] = describe_call(kwargs)
    bi = pick_branch(ex, env)
    if bi is None:
        rec.update(status="uncovered-path", why="the function returned a value on a path the extractor did not cover")
        return rec
    b = ex.branches[bi]
    try:
        want = eval_branch(b, env)
    except Exception as e:  # pylint: disable=broad-except
        rec.update(status="inadmissible", why=f"closed form not evaluable: {type(e).__name__}: {str(e)[:100]}")
        return rec
    if not N.finite(want):
        rec.update(status="inadmissible", why="closed form is not finite here")
        return rec
    rec["closed_form_value"] = want
    rec["branch"] = bi
    status = "ok" if N.close(got, want) else "tie-mismatch"
    verdicts = []
    for sp in specs:
        if sp.branch != bi or (sp.law is None and sp.kind != "law-function"):  # noqa
            continue
        try:
            verdict = L.spec_predicate(sp, env, got)
        except Exception as e:  # pylint: disable=broad-except
            verdict = ("skipped", f"{type(e).__name__}: {str(e)[:100]}")
        if verdict[0] == "fail" and sp.kind != "law-function" and not _finite_detail(verdict[1]):
            verdict = ("skipped", "law not evaluable at this point (overflow / undefined)")
        verdicts.append((sp, verdict))
        rec["residual"] = verdict
        if verdict[0] == "fail":
            status = "residual-fail"
            rec["lemma"] = sp.name
    if status != "ok":
        # ill-conditioned point?  the REAL function is called again with every argument changed by a relative eps;
        # a discrepancy not larger than (10x) that response is round-off / limited internal precision, not a disagreement.
        # eps = 1e-12: float round-off.  eps = 1e-9: SymPy's geometry (two_point_function) rationalises coordinates at
        # about that resolution, see design note; such points are counted separately as `precision_limited`.
        kappa = N.cancellation(b.result, env) if b.result_kind == "scalar" else 1.0
        for eps, label in ((1e-12, "ill-conditioned"), (1e-9, "precision-limited")):
            got2, err2 = real_call(item, N.perturb_kwargs(kwargs, rng, eps))
            delta = N._absdiff(got, got2) if err2 is None else float("inf")  # pylint: disable=protected-access
            disc = N._absdiff(got, want)  # pylint: disable=protected-access
            try:    # the closed form's own response to the same perturbation (3 probes)
                delta = max(delta, N.sensitivity(lambda e: eval_branch(b, e), env, rng, eps, 3))
            except Exception:  # pylint: disable=broad-except
                pass
            if status == "residual-fail":
                for sp, v in verdicts:
                    if v[0] == "fail" and isinstance(v[1], dict) and "lhs" in v[1] and not isinstance(got, (list, tuple)):
                        try:
                            v2 = L.spec_predicate(sp, env, got2) if err2 is None else None
                            r1 = abs(complex(v[1]["lhs"]) - complex(v[1]["rhs"]))
                            r2 = abs(complex(v2[1]["lhs"]) - complex(v2[1]["rhs"])) if v2 and isinstance(v2[1], dict) else float("inf")
                            disc = r1
                            delta = max(delta, abs(r1 - r2)) if r2 != float("inf") else float("inf")
                        except Exception:  # pylint: disable=broad-except
                            delta = float("inf")
            rec["conditioning"] = {"discrepancy": disc, f"response_to_{eps:g}": delta, "cancellation": kappa}
            try:
                rec["rel_discrepancy"] = N._absdiff(got, want) / max(N._absmax(got), N._absmax(want), 1e-300)  # pylint: disable=protected-access
            except Exception:  # pylint: disable=broad-except
                rec["rel_discrepancy"] = 1.0
            if disc <= 10 * delta or kappa > 1e6:
                rec.update(status="inadmissible", kind=label, why=f"{label} evaluation point (discrepancy {disc:.3g} is below "
                    f"10x the real function's response {delta:.3g} to a {eps:g} relative change of its arguments, or "
                    f"cancellation {kappa:.3g} > 1e6 in the closed form)")
                return rec
    rec["status"] = status
    return rec


def _finite_detail(d) -> bool:
    import math  # pylint: disable=import-outside-toplevel
    if not isinstance(d, dict):
        return True
    for k in ("lhs", "rhs", "scale"):
        if k in d:
            try:
                c = complex(d[k])
            except Exception:  # pylint: disable=broad-except
                return False
            if not (math.isfinite(c.real) and math.isfinite(c.imag)):
                return False
    return True


class SpecialTimeout(BaseException):
    pass


def _special_timeout(*_a):
    raise SpecialTimeout()


def work(idx):
    item = _ITEMS[idx]
    cfg = _CFG
    t0 = time.time()
    out = {"key": item.key, "idx": idx}
    try:
        ex = X.extract(item)
        out.update(status=ex.status, reason=ex.reason, n_branches=len(ex.branches), n_paths=ex.n_paths,
            refused=[e for _p, e in ex.refused][:3])
        if ex.status != "ok":
            out["t"] = time.time() - t0
            return out
        specs, nol = build_lemmas(ex)
        out["lemmas"] = [{"name": s.name, "statement": s.statement, "proof": s.proof, "kind": s.kind,
            "exception": s.exception, "y": s.y, "branch": s.branch, "F": str(s.F)[:400],
            "sigma_conflicts": s.sigma_conflicts} for s in specs]
        out["no_obligation"] = nol
        # documented exceptions (magnitude / rounded-up integer): look for the wording in the module / function text
        try:
            text = ((item.module.__doc__ or "") + inspect.getsource(inspect.unwrap(item.fn))).lower()
        except Exception:  # pylint: disable=broad-except
            text = ""
        words = {"abs": ("magnitude", "absolute", "modulus", "abs("), "ceiling": ("ceil", "round", "integer", "order"),
            "trunc": ("int(",)}
        for lm in out["lemmas"]:
            if lm["exception"]:
                lm["exception_wording_found"] = [w for w in words.get(lm["exception"], ()) if w in text]
        # vector laws offered for several unknowns (once per module, attached to the module's first function)
        if item.key == min(it.key for it in _ITEMS if it.module is item.module):
            modkey = item.module.__name__.removeprefix("symplyphysics.")
            for s in L.build_inverses(item.module, modkey):
                out["lemmas"].append({"name": s.name, "statement": s.statement, "proof": s.proof, "kind": s.kind,
                    "exception": "", "y": s.y, "branch": -1, "F": ""})
        out["closed_form"] = [str(b.result)[:300] for b in ex.branches]
        # numeric tie + specification predicate on the real function
        rng = random.Random(f"{cfg['seed']}:{item.key}")
        calls, n_ok, attempts = [], 0, 0
        want = cfg["tuples"]
        # functions built on core.geometry.line.two_point_function lose float precision inside SymPy's geometry
        # (known finding, see design note): their decisive tie uses exact rational arguments
        uses_tp = "two_point_function" in inspect.unwrap(item.fn).__code__.co_names
        argsyms = {s for a in ex.args for s in a.syms}
        # ... and functions that call solve() on an equation that already contains the argument values: SymPy's solve
        # recasts Floats as Rationals with nsimplify (1.0000000225 -> 1), a second float-precision mechanism
        solve_after_subs = any(isinstance(eq, sympy.Basic) and (eq.free_symbols & argsyms)
            for b in ex.branches for eq, _t in b.solve_log) or "dsolve" in inspect.unwrap(item.fn).__code__.co_names
        out["uses_two_point_function"] = uses_tp
        out["solve_after_substitution"] = solve_after_subs and not uses_tp
        uses_tp = uses_tp or solve_after_subs      # both classes get exact rational tuples as their decisive tie
        ex.precision_class = uses_tp
        plan = N.leaf_plan(ex)
        unknown = [s for s, (d, how, _g) in plan.items() if d is None and how in ("quantity", "either")]
        cands = [None] + ([getattr(N.U, c) for c in N.CANDIDATE_DIMS] if unknown else [])
        why_count = {}
        for cand in cands:
            if cand is not None:
                plan = N.leaf_plan(ex, override=cand)
                out["unguarded_dimension_guess"] = str(cand)
            budget = want * 8 if cand is None else 4
            attempts_here = 0
            while n_ok < want and attempts_here < budget:
                lo, hi = N.RANGES[min(attempts_here // max(want, 1), len(N.RANGES) - 1)]
                r = one_call(item, ex, specs, rng, lo, hi, plan=plan, exact=uses_tp and (n_ok % 2 == 0))
                attempts += 1
                attempts_here += 1
                if r["status"] == "inadmissible":
                    w = r.get("why", "")
                    why_count[w[:80]] = why_count.get(w[:80], 0) + 1
                    out.setdefault("inadmissible_sample", w)
                    continue
                n_ok += 1
                calls.append(r)
            if n_ok:
                break
        out["inadmissible"] = why_count
        # deterministic special tuples (exact arguments): comparison boundaries, vectors of different lengths, long sequences
        t_sp = time.time()
        rng_s = random.Random(f"{cfg['seed']}:special:{item.key}")
        sp = []
        signal.signal(signal.SIGVTALRM, _special_timeout)
        signal.setitimer(signal.ITIMER_VIRTUAL, 60)       # CPU seconds of this worker, independent of machine load
        try:
            if S.comparisons_of(ex):
                sp += S.boundary_stream(item, ex, specs, plan, rng_s, pick_branch)
            if any(isinstance(a.value, X.SVec) for a in ex.args):
                sp += S.mixed_length_stream(item, ex, specs, plan, rng_s, pick_branch)
            if item.key == min(it.key for it in _ITEMS if it.module is item.module):
                sp += S.inverse_numeric(item.module, rng_s)
            if S.has_sequence_arg(ex):
                sp += S.long_sequence_stream(item, build_lemmas, rng_s, pick_branch, cfg["seq_lengths"])
            if any(isinstance(a.value, X.SVec) for a in ex.args):
                sp += S.curvilinear_stream(item, ex, specs, plan, rng_s, pick_branch)
            sp += S.aliasing_stream(item, ex, specs, plan, rng_s, pick_branch, cfg["order_pairs"] + 1)
            sp += S.ordering_stream(item, ex, specs, plan, rng_s, pick_branch, cfg["order_pairs"])
            sp += S.target_value_stream(item, ex, specs, plan, rng_s, pick_branch)
        except SpecialTimeout:
            sp.append({"stream": "special", "status": "skipped", "why": "CPU-time budget (60 s) of the special tuples exhausted"})
        except Exception as e:  # pylint: disable=broad-except
            sp.append({"stream": "special", "status": "error", "why": f"{type(e).__name__}: {e}", "tb": traceback.format_exc()[-800:]})
        finally:
            signal.setitimer(signal.ITIMER_VIRTUAL, 0)
        out["special"] = {"n": len(sp), "by_stream": {}, "bad": [r for r in sp if r.get("status") in ("mismatch", "law-fail", "error")][:4],
            "sample": next((r for r in sp if r.get("status") == "ok"), None), "t": round(time.time() - t_sp, 2)}
        for r in sp:
            k = f"{r.get('stream')}:{r.get('status')}"
            out["special"]["by_stream"][k] = out["special"]["by_stream"].get(k, 0) + 1
        out["tie"] = {"admissible": n_ok, "attempts": attempts,
            "ok": sum(c["status"] == "ok" for c in calls),
            "bad": [c for c in calls if c["status"] != "ok"][:3],
            # an exact-argument tuple that disagrees by more than 1e-4 relative is a disagreement of the formula; below
            # that it is still the precision mechanism (e.g. scale_factor() casts an argument to float before dsolve)
            "bad_exact": any(c.get("exact") and c.get("rel_discrepancy", 1.0) > 1e-4 for c in calls if c["status"] != "ok"),
            "sample": calls[0] if calls else None,
            "units": sorted({u for c in calls for us in c["units"].values() for u in us})}
    except Exception as e:  # pylint: disable=broad-except
        out.update(status="error", reason=f"driver error: {type(e).__name__}: {e}", tb=traceback.format_exc()[-1500:])
    out["t"] = time.time() - t0
    return out


def search_failing_input(item_idx, lemma_name, seed, budget=120):
    """After a broken proof: look for an argument tuple on which the REAL function violates the law."""
    item = _ITEMS[item_idx]
    ex = X.extract(item)
    if ex.status != "ok":
        return None
    specs, _ = build_lemmas(ex)
    specs = [s for s in specs if s.name == lemma_name] or specs
    rng = random.Random(f"{seed}:search:{item.key}")
    tried = 0
    t_end = time.time() + 45
    for phase, small in (("grid", True), ("random", False)):
        for k in range(budget // 2):
            if time.time() > t_end:
                break
            lo, hi = N.RANGES[k % len(N.RANGES)]
            r = one_call(item, ex, specs, rng, lo, hi, small)
            if r["status"] == "inadmissible":
                continue
            tried += 1
            if r["status"] in ("residual-fail",):
                r["phase"] = phase
                r["tried"] = tried
                return r
    return {"status": "none", "tried": tried}


# ---------------------------------------------------------------------------------------------
# run
# ---------------------------------------------------------------------------------------------

def load_allow(name):
    p = DATA / name
    if not p.exists():
        return {}
    return json.loads(p.read_text()).get("items", {})


def run(ctx):
    ctx.level = "proof"
    ctx.static(STATIC)
    ctx.trust(
        "Coq 8.16.1 kernel; stdlib Reals axioms (see axioms); tactics ring/field/nra/nsatz only produce kernel-checked terms",
        "vp/c02_extract.py: closed form of a function = result of running its own code object on symbolic stand-ins "
        "(Quantity(e) -> e, convert_to -> division by the unit's SI value, float/int -> identity, comparisons decided by "
        "a path oracle and kept as hypotheses); validated numerically against the real decorated function, not proved",
        "vp/sx.py + vp/c02_lemma.py: reading of SymPy nodes as real-number terms (Pow with non-integer exponent -> Rpower "
        "with hypothesis 0 < base, sqrt with 0 <= radicand, log with 0 < argument, denominators <> 0); Float literals are "
        "read as the decimal numbers written in the source; special functions are uninterpreted function symbols",
        "SymPy 1.14 / CPython 3.12 as the runtime of the real functions during the tie")
    ctx.assume(
        "hypotheses of each lemma: sign assumptions declared on the law's symbols, well-definedness side conditions of "
        "the law and of the closed form (non-zero denominators, non-negative radicands, positive log/power bases), and "
        "the function's own domain guards (path conditions)",
        "physical constants are abstracted to arbitrary positive reals (stronger statement); angle / dimensionless "
        "units are the numbers they scale by",
        "the numeric tie samples argument tuples; between samples the closed form is trusted to describe the function")

    global _ITEMS, _CFG  # pylint: disable=global-statement
    t0 = time.time()
    items, nmods, import_errors = X.catalogue()
    _ITEMS = items
    _CFG = {"seed": ctx.seed, "tuples": ctx.pick(3, 20), "seq_lengths": ctx.pick((1, 2, 100, 101), S.SEQ_LENGTHS), "order_pairs": ctx.pick(1, 3)}
    ctx.log(f"catalogue: {len(items)} calculate_* functions in {nmods} modules ({time.time() - t0:.1f}s)")

    n_corpus = run_corpus(ctx, items)
    ctx.coverage["corpus_entries_replayed"] = n_corpus
    only = os.environ.get("C02_ONLY")
    idxs = [i for i, it in enumerate(items) if not only or only in it.key]

    with mp.get_context("fork").Pool(coqrun.NPROC) as pool:
        recs = list(pool.imap_unordered(work, idxs, chunksize=2))
    recs.sort(key=lambda r: r["idx"])
    ctx.log(f"extraction + tie done ({time.time() - t0:.1f}s)")

    allow_unex = load_allow("c02_unextracted.json")
    allow_unpr = load_allow("c02_unproved.json")

    # ---- extraction verdicts ------------------------------------------------------------------
    extracted = [r for r in recs if r["status"] == "ok"]
    unextracted = [r for r in recs if r["status"] != "ok"]
    for r in unextracted:
        if r["key"] not in allow_unex:
            ctx.violation(f"C02:{r['key']}:unextracted",
                f"closed form of {r['key']} can no longer be extracted: {r['reason'][:200]}",
                {"kind": "broken-tie", "item": r["key"], "theorem_or_tie": "extractor (vp/c02_extract.py)",
                 "reason": r["reason"], "traceback": r.get("tb", "")}, found_input=False)
    stale_unex = sorted(k for k in allow_unex if any(r["key"] == k and r["status"] == "ok" for r in recs))

    # ---- obligations -------------------------------------------------------------------------
    lemmas, lemma_item, no_obl = [], {}, {}
    for r in extracted:
        for lm in r.get("lemmas", []):
            lemmas.append(coqrun.Lemma(lm["name"], lm["statement"], lm["proof"], r["key"]))
            lemma_item[lm["name"]] = r
        for bi, why in r.get("no_obligation", {}).items():
            no_obl[f"{r['key']}#b{bi}"] = why
    claimed = [lm for lm in lemmas if lm.name not in allow_unpr]
    unclaimed = [lm for lm in lemmas if lm.name in allow_unpr]
    for k, why in no_obl.items():
        if k not in allow_unpr:
            ctx.violation(f"C02:{k}:no-obligation", f"no proof obligation could be generated for {k}: {why[:200]}",
                {"kind": "broken-tie", "item": k, "theorem_or_tie": "lemma builder (vp/c02_lemma.py)", "reason": why},
                found_input=False)

    t1 = time.time()
    res = coqrun.prove_lemmas(ctx, "calc", PREAMBLE, claimed, per_file=max(4, len(claimed) // (3 * coqrun.NPROC) + 1),
        timeout=1200) if claimed else {}
    ctx.log(f"coq: {len(claimed)} lemmas, {sum(v == 'ok' for v in res.values())} closed ({time.time() - t1:.1f}s)")
    proved = [n for n, v in res.items() if v == "ok"]
    ctx.obligations(len(claimed), len(proved))

    # the allow-listed open lemmas are not attempted by a normal run (each costs the whole portfolio's timeouts)
    now_provable = []
    if unclaimed and os.environ.get("C02_TRY_UNCLAIMED"):       # maintenance: which allow-listed goals close now?
        tri, dt = c02_coq.triage(ctx, "unclaimed", PREAMBLE, unclaimed, timeout=600)
        now_provable = sorted(n for n, (ok, _w) in tri.items() if ok)
        ctx.log(f"coq: {len(unclaimed)} allow-listed open lemmas re-attempted, {len(now_provable)} close now ({dt:.1f}s)")

    # ---- broken proofs -> search on the real function ---------------------------------------------
    failed = [lm for lm in claimed if res.get(lm.name) != "ok"]
    for lm in failed:
        r = lemma_item[lm.name]
        found = search_failing_input(r["idx"], lm.name, ctx.seed)
        base = {"kind": "broken-proof", "item": r["key"], "theorem_or_tie": lm.name, "lemma": lm.statement,
            "coq": res.get(lm.name, "")[-600:]}
        if found and found.get("status") == "residual-fail":
            base.update(input=found.get("call"), si_values=found["env"], observed=found.get("result_si"),
                expected="law residual 0 (rel 1e-9)", residual=found.get("residual"))
            ctx.violation(f"C02:{r['key']}:law-residual",
                f"{r['key']} returns a value that does not satisfy its law (lemma {lm.name} fails; concrete input found)",
                base, found_input=True)
        else:
            base["searched"] = found
            ctx.violation(f"C02:{lm.name}:proof", f"generated lemma {lm.name} is not closed by the portfolio", base,
                found_input=False)

    # ---- tie and specification predicate --------------------------------------------------------
    n_calls = n_tied = n_untied = 0
    untied = []
    tp_items = []
    units_seen = set()
    for r in extracted:
        tie = r.get("tie") or {}
        n_calls += tie.get("admissible", 0)
        units_seen |= set(tie.get("units", []))
        if tie.get("admissible", 0) == 0:
            n_untied += 1
            reasons = list((r.get("inadmissible") or {}).keys())
            soft = bool(reasons) and all(x.startswith(("ill-conditioned", "precision-limited", "closed form", "non-finite"))
                for x in reasons)
            untied.append({"item": r["key"], "why": r.get("inadmissible_sample", ""), "reasons": reasons[:4],
                "only_conditioning": soft})
            continue
        if not tie.get("bad"):
            n_tied += 1
        bad = tie.get("bad", [])
        if (r.get("uses_two_point_function") or r.get("solve_after_substitution")) and bad and not tie.get("bad_exact"):
            c = bad[0]
            is_tp = r.get("uses_two_point_function")
            ctx.violation(TP_KEY if is_tp else SOLVE_KEY,
                ("calculation functions built on core.geometry.line.two_point_function lose floating-point precision " if is_tp
                 else "calculation functions that call solve() after substituting the argument values lose floating-point "
                 "precision (solve recasts Floats with nsimplify) ") +
                f"(first seen: {r['key']} returns {c.get('result_si')} where the law gives {c.get('closed_form_value')}); "
                "with exact rational arguments the same function agrees with its law",
                {"kind": "law-residual", "item": r["key"], "input": c.get("call"), "si_values": c["env"],
                 "units": c["units"], "observed": c.get("result_si"), "closed_form_value": c.get("closed_form_value"),
                 "residual": c.get("residual"), "theorem_or_tie": c.get("lemma", "numeric tie")}, found_input=True)
            tp_items.append(r["key"])
            continue
        for c in bad:
            rep = {"kind": "tie" if c["status"] != "residual-fail" else "law-residual", "item": r["key"],
                "input": c.get("call"), "si_values": c["env"], "units": c["units"], "observed": c.get("result_si"),
                "closed_form_value": c.get("closed_form_value"), "residual": c.get("residual"),
                "theorem_or_tie": c.get("lemma", "numeric tie of the extracted closed form")}
            if c["status"] == "residual-fail":
                ctx.violation(f"C02:{r['key']}:law-residual",
                    f"{r['key']} returns a value that does not satisfy its law on a concrete argument tuple", rep,
                    found_input=True)
            else:
                ctx.violation(f"C02:{r['key']}:tie",
                    f"extracted closed form of {r['key']} disagrees with the real function ({c['status']})", rep,
                    found_input=False)
            break
    special_counts = {}
    for r in extracted:
        spx = r.get("special") or {}
        for k, v in (spx.get("by_stream") or {}).items():
            special_counts[k] = special_counts.get(k, 0) + v
        for c in spx.get("bad", [])[:2]:
            stream = c.get("stream", "special")
            rep = {"kind": "law-residual" if c.get("status") == "law-fail" else "tie", "item": r["key"], "stream": stream,
                "si_values": c.get("env"), "units": c.get("units") or c.get("units_sample"), "observed": c.get("observed"),
                "real_outcome": c.get("real"), "error": c.get("error"), "closed_form_value": c.get("closed_form_value"),
                "law_value": c.get("law_value"), "residual": c.get("residual"), "comparison": c.get("comparison"),
                "position": c.get("position"), "vec_len": c.get("lengths"), "seq_len": c.get("length"), "pair": c.get("pair"),
                "system": c.get("system"), "components_passed": c.get("components_passed"),
                "result_components": c.get("result_components"), "aliased": c.get("aliased"), "case": c.get("case"), "raw_solution": c.get("raw_solution"),
                "why": c.get("why"), "theorem_or_tie": f"{stream} tuple (exact arguments) of the numeric tie"}
            what = {"boundary": f"{r['key']} disagrees with its law / closed form on the boundary of `{c.get('comparison')}` "
                        f"({c.get('position')}; equal SI values written in different units)",
                    "mixed-length": f"{r['key']} disagrees with its law function for vector arguments of lengths {c.get('lengths')}",
                    "inverse-mixed-length": f"law functions {c.get('pair')} of {r['key'].rsplit('.', 1)[0]} are not mutual inverses on vectors of different lengths",
                    "long-sequence": f"{r['key']} disagrees with its law for a sequence of {c.get('length')} elements",
                    "curvilinear": f"{r['key']} called with its vector arguments in {str(c.get('system')).lower()} coordinates: "
                        f"{c.get('why')}",
                    "aliasing": f"{r['key']} disagrees with its law when the SAME object is passed for the {c.get('aliased')}",
                    "ordering": f"{r['key']} disagrees with its law for {c.get('case')}",
                    "target-value": f"{r['key']} disagrees with its law where the raw solution is {c.get('raw_solution')} "
                        f"(argument {c.get('solved_for')} solved for it)"}.get(stream,
                        f"special tuple stream failed for {r['key']}: {c.get('why')}")
            vkey = f"C02:{r['key']}:law-residual" if c.get("status") == "law-fail" else f"C02:{r['key']}:{stream}"
            ctx.violation(vkey, what, rep, found_input=c.get("status") == "law-fail")
            break
    ctx.coverage["special_tuples"] = special_counts
    for u in untied:
        if u["only_conditioning"]:
            continue    # every drawn point was numerically ill-conditioned: loss of tie coverage, listed in evidence
        if u["item"] not in allow_unex and f"untied:{u['item']}" not in allow_unex:
            ctx.violation(f"C02:{u['item']}:untied", f"no admissible argument tuple found for {u['item']}: {u['why'][:160]}",
                {"kind": "broken-tie", "item": u["item"], "theorem_or_tie": "numeric tie generator", "why": u["why"]},
                found_input=False)

    # ---- evidence ---------------------------------------------------------------------------
    ctx.evaluated(n_calls + sum(v for k, v in special_counts.items() if not k.endswith(":skipped")), n_tied)
    cov = ctx.coverage
    cov["rule"] = ("every calculate_* of laws/definitions/conditions is extracted and gets one lemma per returning path; "
        "evaluations = calls of the REAL decorated function on seeded admissible tuples (log-uniform magnitudes, random "
        "units/prefixes); distinct_nontrivial = functions whose every sampled call agrees with the closed form (rel 1e-9) "
        "and satisfies the law residual")
    cov["exhaustive"] = False
    cov["functions_total"] = len(items)
    cov["modules_imported"] = nmods
    cov["import_errors"] = import_errors
    cov["functions_extracted"] = len(extracted)
    cov["functions_unextracted"] = {r["key"]: r["reason"][:160] for r in unextracted}
    cov["lemmas_emitted"] = len(lemmas)
    cov["lemmas_claimed"] = len(claimed)
    cov["lemmas_proved"] = len(proved)
    cov["lemmas_open_allowlisted"] = sorted(lm.name for lm in unclaimed)
    cov["functions_without_obligation"] = no_obl
    cov["functions_with_proved_lemma"] = len({lemma_item[n]["key"] for n in proved})
    cov["proved_over_extracted_over_total"] = f"{len({lemma_item[n]['key'] for n in proved})} / {len(extracted)} / {len(items)}"
    cov["allowlist_drift"] = {"unextracted_now_extractable": stale_unex, "open_lemmas_now_provable": now_provable}
    cov["numeric_tie"] = {"functions_tied": n_tied, "functions_untied": n_untied, "real_calls": n_calls,
        "tuples_per_function": _CFG["tuples"], "units_used": sorted(units_seen), "untied": untied[:40]}
    cov["float_precision_findings"] = tp_items
    cov["functions_with_exact_rational_tie"] = sorted(r["key"] for r in extracted
        if r.get("uses_two_point_function") or r.get("solve_after_substitution"))
    cov["exceptions"] = {lm["name"]: {"kind": lm["exception"], "wording_found": lm.get("exception_wording_found", [])}
        for r in extracted for lm in r.get("lemmas", []) if lm["exception"]}
    cov["kinds"] = {}
    for r in extracted:
        for lm in r.get("lemmas", []):
            cov["kinds"][lm["kind"]] = cov["kinds"].get(lm["kind"], 0) + 1
    cov["multi_path_functions"] = {r["key"]: r["n_branches"] for r in extracted if r["n_branches"] > 1}
    cov["time_s"] = {"extract_and_tie": round(t1 - t0, 1), "coq": round(time.time() - t1, 1)}
    shown = 0
    for r in extracted:
        for lm in r.get("lemmas", []):
            if lm["name"] in proved and shown < 6 and (shown < 3 or lm["kind"] != "simple" or lm["exception"]):
                ctx.sample({"item": r["key"], "lemma": f"Lemma {lm['name']} : {lm['statement']}", "proof": lm["proof"],
                    "tie_call": (r.get("tie") or {}).get("sample")})
                shown += 1
    (ctx.build / "records.json").write_text(json.dumps(recs, indent=1, default=str))
    if os.environ.get("C02_WRITE_ALLOWLISTS"):
        # maintenance only (never set by ./check): re-baseline the committed allowlists from this run of the pinned tree
        DATA.mkdir(exist_ok=True)
        unex = {r["key"]: r["reason"][:300] for r in unextracted}
        for u in untied:
            unex[f"untied:{u['item']}"] = ("extracted, but no admissible argument tuple was found for the numeric tie: "
                + u["why"][:200])
        (DATA / "c02_unextracted.json").write_text(json.dumps({"comment": "pinned-tree baseline: calculate_* functions "
            "whose closed form is not extracted (key -> reason) and extracted functions that cannot be tied numerically "
            "(untied:<key>). An item that appears here later is a broken tie.", "items": unex}, indent=1, sort_keys=True) + "\n")
        unpr = {}
        stmts = {lm.name: lm.statement for lm in lemmas}
        for lm in claimed:
            if res.get(lm.name) != "ok":
                unpr[lm.name] = {"item": lm.item, "reason": "no tactic of the portfolio closes the goal on the pinned tree",
                    "goal": stmts[lm.name]}
        for lm in unclaimed:
            if lm.name not in now_provable:
                unpr[lm.name] = allow_unpr[lm.name]
        for k, why in no_obl.items():
            unpr[k] = {"item": k, "reason": "no obligation generated: " + why[:300], "goal": None}
        (DATA / "c02_unproved.json").write_text(json.dumps({"comment": "pinned-tree baseline: generated lemmas the portfolio "
            "does not close (with the goal) and extracted functions for which no obligation is generated. These are NOT "
            "claimed; they are covered by the numeric stream only.", "items": unpr}, indent=1, sort_keys=True) + "\n")
        ctx.log(f"allowlists written: {len(unex)} unextracted/untied, {len(unpr)} unproved/no-obligation")


def evaluate_input(item, ex, specs, env_in, vec_len=None):
    """Run the REAL function on the recorded SI values (written in SI units) and evaluate tie + law residual strictly.
    -> dict(error | got, want, tie_ok, verdicts, bad)"""
    from symplyphysics import Quantity  # pylint: disable=import-outside-toplevel
    from symplyphysics.core.dimensions import dimension_to_si_unit  # pylint: disable=import-outside-toplevel
    from symplyphysics.core.vectors.vectors import QuantityVector  # pylint: disable=import-outside-toplevel
    env, kwargs = {}, {}
    plan = N.leaf_plan(ex)

    def mk(v, arg):
        if isinstance(v, X.SVec):
            n = (vec_len or {}).get(arg.param, len(v.components))
            comps = [mk(c, arg) for c in v.components]
            return QuantityVector([c if isinstance(c, sympy.Basic) and hasattr(c, "scale_factor") else Quantity(c) for c in comps[:n]])
        if isinstance(v, (list, tuple)):
            t = [mk(x, arg) for x in v]
            return tuple(t) if isinstance(v, tuple) else t
        if isinstance(v, sympy.Pow) and v.base in plan:      # expression-valued parameter  b ** unknown
            return sympy.sympify(mk(v.base, arg)) ** v.exp
        val = env_in[str(v)]
        if isinstance(val, str):
            val = sympy.sympify(val)
        env[v] = val
        dim, how, _g = plan[v]
        if how == "int" or v.is_integer:
            return int(val)
        if how == "number" or (how == "either" and dim is None):
            return val
        if dim is None or N._dimless(dim):  # pylint: disable=protected-access
            return Quantity(val)
        return Quantity((sympy.Float(val) if isinstance(val, float) else val) * dimension_to_si_unit(dim), dimension=dim)

    for a in ex.args:
        kwargs[a.param] = mk(a.value, a)
    got, err = real_call(item, kwargs)
    out = {"si_values": {str(k): (v if isinstance(v, (int, float)) else str(v)) for k, v in env.items()}}
    if err is not None:
        out["error"] = err
        return out
    out["got"] = got
    bi = pick_branch(ex, env)
    bad = False
    if bi is not None:
        want = eval_branch(ex.branches[bi], env)
        out["want"] = want
        out["tie_ok"] = N.close(got, want)
        bad |= not out["tie_ok"]
    out["verdicts"] = []
    for sp in specs:
        if sp.branch == bi and (sp.law is not None or sp.kind == "law-function"):
            try:
                v = L.spec_predicate(sp, env, got)
            except Exception as e:  # pylint: disable=broad-except
                v = ("skipped", f"{type(e).__name__}: {e}")
            out["verdicts"].append((sp.name, v))
            bad |= v[0] == "fail"
    out["bad"] = bad
    return out


def run_corpus(ctx, items):
    """Committed corpus of past failing inputs (data/c02_corpus.json), replayed first and strictly."""
    p = DATA / "c02_corpus.json"
    if not p.exists():
        return 0
    entries = json.loads(p.read_text()).get("entries", [])
    n = 0
    for e in entries:
        idx = next((i for i, it in enumerate(items) if it.key == e["item"]), None)
        if idx is None:
            continue
        ex = X.extract(items[idx])
        if ex.status != "ok":
            continue
        specs, _nol = build_lemmas(ex)
        r = evaluate_input(items[idx], ex, specs, e["si_values"])
        n += 1
        if r.get("bad"):
            ctx.violation(e["key"], e["what"], {"kind": "law-residual", "item": e["item"], "si_values": e["si_values"],
                "observed": r.get("got"), "closed_form_value": r.get("want"), "residual": r.get("verdicts"),
                "theorem_or_tie": "corpus entry (data/c02_corpus.json)"}, found_input=True)
    return n


def replay(ctx, rep):
    """Re-execute the recorded argument tuple on the real function and re-evaluate tie and law residual."""
    global _ITEMS, _CFG  # pylint: disable=global-statement
    items, _n, _e = X.catalogue()
    _ITEMS = items
    key = rep.get("item", "").split("#")[0]
    idx = next((i for i, it in enumerate(items) if it.key == key), None)
    if idx is None:
        print(f"replay: item {key} not found")
        return 2
    item = items[idx]
    if rep.get("seq_len"):
        X.SEQ_LEN = int(rep["seq_len"])
    ex = X.extract(item)
    print(f"replay: {key}: extraction status={ex.status} {ex.reason}")
    if ex.status != "ok":
        return 1
    specs, _nol = build_lemmas(ex)
    for s in specs:
        print(f"Lemma {s.name} : {s.statement}")
    env_in = rep.get("si_values")
    if not env_in:
        print("replay: no concrete input recorded (", rep.get("theorem_or_tie"), ")")
        return 1
    if rep.get("stream"):
        # special tuple: judged exactly as in the run (refusals, +-oo and the law's own value included)
        plan = N.leaf_plan(ex)
        env = {s: sympy.sympify(env_in[str(s)]) for a in ex.args for s in a.syms}
        if rep.get("stream") == "curvilinear":
            r = S.curvilinear_stream(item, ex, specs, plan, random.Random(0), pick_branch, fixed=(rep.get("system"), env))[0]
            print("replay: vector arguments passed in", rep.get("system"), "components:", r.get("components_passed"))
            print("replay: result", r.get("result_system"), r.get("result_components"), "-> Cartesian", r.get("observed"),
                "; law at the Cartesian components:", r.get("closed_form_value"), "->", r.get("status"))
            return 0 if r["status"] in ("ok", "skipped") else 1
        kwargs, _d = S.build_call(ex, env, random.Random(0), plan, vec_len=rep.get("vec_len"))
        r = S.judge(item, ex, specs, kwargs, env, pick_branch)
        shown = {k: r.get(k) for k in ("real", "observed", "error", "expected_kind", "closed_form_value", "law_value", "residual", "status")}
        if len(env) > 12:
            print(f"replay: {len(env)} arguments (sequence of {rep.get('seq_len')})")
        else:
            print("replay: SI arguments:", {str(k): str(v) for k, v in env.items()}, "vector lengths:", rep.get("vec_len"))
        print("replay:", shown)
        return 0 if r["status"] in ("ok", "skipped") else 1
    r = evaluate_input(item, ex, specs, env_in)
    print("replay: SI arguments:", r["si_values"])
    if "error" in r:
        print("replay: real function raised", r["error"])
        return 1
    print("replay: real function returned (SI):", r["got"])
    if "want" in r:
        print("replay: extracted closed form gives:", r["want"], "-> tie", "ok" if r["tie_ok"] else "MISMATCH")
    for name, v in r["verdicts"]:
        print(f"replay: law residual ({name}):", v)
    return 1 if r["bad"] else 0
