"""C03 -- laws load and mean the same for every import order and creation history.   (PARTIAL: level exploration)

static theorems : coq/theories/Properties/C03.v -- names_fresh, decode_unique, window_order_classes,
                  representatives_cover, C03_partial (the full statement is the Definition C03_full_statement)
ties            : prefixes read from the source by AST; id_generator vs Model/Ids.v on random histories; Python string
                  order and SymPy's canonical order of library symbols vs Ids.str_ltb at counter boundaries
exploration     : fresh interpreters (own PYTHONHASHSEED) import the catalogue under different histories --
                  (a) seeded permutations, (b) every module alone with the counters pre-set to the representative
                  states of window_order_classes, (c) after hundreds of dummy creations / raised counters --
                  and import success, every public equation (canonical text over stable leaf keys; numeric comparison when
                  the texts differ) and every calculate_* result on fixed arguments are compared across histories."""
from __future__ import annotations

import importlib
import json
import math
import os
import pkgutil
import subprocess
import sys
import tempfile
import time
from concurrent.futures import ThreadPoolExecutor
from pathlib import Path

from vp import coqrun, symgen
from vp.common import PYTHON, REPO
from vp.symgen import gstr, glist, gN

STATIC = ["next_id_monotone", "ids_increasing", "dec_inj", "decode_unique", "names_fresh", "names_fresh_later",
    "repo_prefixes_digit_free", "window_order", "window_generic", "window_order_classes", "window_order_classes_exec",
    "cross_prefix_order_constant", "representatives_cover", "C03_partial", "C03_partial_pairwise"]

# modules that once depended on the history (repaired in /repo): always part of the single-module exploration, with all offsets,
# so that a regression is reported with the concrete counter state (DESIGN §3.2 "corpus of past disagreements, run first")
CORPUS = ["symplyphysics.laws.optics.focal_length_of_a_concave_spherical_mirror",
    "symplyphysics.laws.thermodynamics.volumetric_and_linear_expansion_coefficients_in_isotropic_materials"]

WORKER = Path(__file__).resolve().parents[1] / "vp" / "c03_worker.py"
NPROC = int(os.environ.get("VERIF_JOBS", "16"))
RTOL = 1e-9


# ---------------------------------------------------------------------------------------------
# running workers
# ---------------------------------------------------------------------------------------------

def catalogue_modules():
    names = []
    for top in ("laws", "definitions", "conditions"):
        pkg = importlib.import_module(f"symplyphysics.{top}")
        for info in pkgutil.walk_packages(pkg.__path__, pkg.__name__ + "."):
            if not info.ispkg:
                names.append(info.name)
    return names


def run_worker(ctx, tag, spec, hashseed, timeout=900):
    d = ctx.build / "hist"
    d.mkdir(exist_ok=True)
    sp, out = d / f"{tag}.spec.json", d / f"{tag}.out.json"
    sp.write_text(json.dumps(spec))
    env = dict(os.environ, PYTHONHASHSEED=str(hashseed), PYTHONPATH=str(REPO), PYTHONDONTWRITEBYTECODE="1")
    t0 = time.time()
    p = subprocess.run(["timeout", str(timeout), PYTHON, str(WORKER), str(sp), str(out)], env=env, capture_output=True,
        text=True, check=False, cwd=str(d))
    if p.returncode != 0 or not out.exists():
        return {"worker_error": f"rc={p.returncode}: {p.stderr[-800:]}", "modules": {}, "wall_s": time.time() - t0}
    return json.loads(out.read_text())


def parallel(jobs):
    with ThreadPoolExecutor(max_workers=NPROC) as ex:
        return list(ex.map(lambda j: j(), jobs))


# ---------------------------------------------------------------------------------------------
# comparing observations
# ---------------------------------------------------------------------------------------------

def close(a, b):
    if a is None or b is None:
        return a == b
    if isinstance(a, list) and isinstance(b, list) and len(a) == len(b):
        if a and isinstance(a[0], str):
            return a == b
        return all(close(x, y) for x, y in zip(a, b))
    if isinstance(a, (int, float)) and isinstance(b, (int, float)):
        return math.isclose(a, b, rel_tol=RTOL, abs_tol=1e-300) or a == b
    return a == b


def same_result(a, b):
    if isinstance(a, dict) and isinstance(b, dict):
        return set(a) == set(b) and all(same_result(a[k], b[k]) for k in a)
    if isinstance(a, list) and isinstance(b, list):
        if len(a) == 2 and len(b) == 2 and all(isinstance(x, (int, float)) for x in a + b):
            # [re, im]: compare as a complex number relative to its modulus
            return abs(complex(*a) - complex(*b)) <= RTOL * max(abs(complex(*a)), abs(complex(*b)), 1e-300)
        return len(a) == len(b) and all(same_result(x, y) for x, y in zip(a, b))
    return close(a, b)


def compare(ref, other):
    """differences between two observations of the same module: list of (kind, item, ref value, other value)"""
    out = []
    if ref.get("import") != other.get("import"):
        out.append(("import", "", ref.get("import"), other.get("import")))
        return out
    for attr in sorted(set(ref.get("eqs", {})) | set(other.get("eqs", {}))):
        a, b = ref.get("eqs", {}).get(attr), other.get("eqs", {}).get(attr)
        if a != b:
            out.append(("eq", attr, a, b))
    rc, oc = ref.get("calc"), other.get("calc")
    if rc is not None and oc is not None:
        for fn in sorted(set(rc) | set(oc)):
            a, b = rc.get(fn), oc.get(fn)
            if a is None or b is None:
                out.append(("calc", fn, a, b))
                continue
            if "timeout" in a or "timeout" in b:
                continue
            a2 = {k: v for k, v in a.items() if k != "s"}
            b2 = {k: v for k, v in b.items() if k != "s"}
            if not same_result(a2, b2):
                out.append(("calc", fn, a2, b2))
    return out


def numeric_meaning_differs(sa, sb, rng):
    """Both variants rebuilt in this process from their srepr over key-named symbols; evaluated at seeded points.
    True = values differ (a concrete failing input), False = equal at all points, None = cannot decide."""
    import sympy  # pylint: disable=import-outside-toplevel
    if not sa or not sb:
        return None, None
    try:
        ns = {}
        exec("from sympy import *", ns)  # pylint: disable=exec-used
        ea, eb = eval(sa, ns), eval(sb, ns)  # pylint: disable=eval-used
    except Exception:  # pylint: disable=broad-except
        return None, None

    def sides(e):
        return (e.lhs - e.rhs) if isinstance(e, sympy.Equality) else e
    try:
        da, db = sides(ea), sides(eb)
        syms = sorted((da.free_symbols | db.free_symbols), key=lambda s: s.name)
        if da.atoms(sympy.core.function.AppliedUndef) or db.atoms(sympy.core.function.AppliedUndef):
            return None, None
        for _ in range(3):
            pt = {s: sympy.Rational(rng.randrange(11, 97), rng.randrange(7, 31)) for s in syms}
            va, vb = complex(sympy.N(da.subs(pt), 20)), complex(sympy.N(db.subs(pt), 20))
            if abs(va - vb) > 1e-9 * max(abs(va), abs(vb), 1e-30):
                # the two residuals differ here; equivalent equations may still differ by a factor -> compare roots of the
                # ratio: if one residual vanishes where the other does not, the meaning differs
                return True, {str(k): str(v) for k, v in pt.items()} | {"variant_a": str(va), "variant_b": str(vb)}
        return False, None
    except Exception:  # pylint: disable=broad-except
        return None, None


# ---------------------------------------------------------------------------------------------
# ties
# ---------------------------------------------------------------------------------------------

def order_tie(ctx, n_cases):
    """Python's `<` on generated names and SymPy's canonical order of library symbols inside Add, at counter boundaries,
    against Ids.str_ltb (the reading of 'order' used by window_order_classes / C03_partial)."""
    import sympy  # pylint: disable=import-outside-toplevel
    from symplyphysics import Symbol  # pylint: disable=import-outside-toplevel
    from symplyphysics.core.symbols import id_generator as g  # pylint: disable=import-outside-toplevel
    rng = ctx.rng
    cases, descs = [], []
    for _ in range(n_cases):
        cur = g._ids.get("SYM", 0)  # pylint: disable=protected-access
        if cur > 10**15:
            break
        m = len(str(cur + 20))
        k = rng.randrange(2, 7)
        n = 10**m - rng.randrange(0, k + 1) if rng.random() < 0.8 else cur + rng.randrange(1, 50)
        n = max(n, cur)
        g._ids["SYM"] = n  # pylint: disable=protected-access
        syms = [Symbol(rng.choice(["x", "y", None])) for _ in range(k)]
        names = [s.name for s in syms]
        args = list(sympy.Add(*syms).args)
        try:
            perm = [1 + syms.index(a) for a in args] if len(args) == k else []
        except ValueError:       # aliasing symbols were merged by Add: reported through the empty permutation
            perm = []
        pyorder = sorted(range(1, k + 1), key=lambda i: names[i - 1])
        cases.append(f"({gN(n)}, {glist(gN(i) for i in perm)}, {glist(gN(i) for i in pyorder)}, {glist(gstr(x) for x in names)})")
        descs.append({"counter": n, "names": names, "sympy_add_order": perm, "python_sorted": pyorder})
    bad = coqrun.eval_cases(ctx, "order", symgen.PREAMBLE, cases,
        "fun c : N * list N * list N * list string => let '(n, perm, py, nm) := c in "
        "list_eqb String.eqb (map (wname \"SYM\" n) (offsets (N.of_nat (List.length nm)))) nm && "
        "sorted_ltb (map (wname \"SYM\" n) perm) && sorted_ltb (map (wname \"SYM\" n) py) && "
        "Nat.eqb (List.length perm) (List.length nm)")
    for i in bad[:1]:
        ctx.violation("C03:order-tie", f"Python / SymPy order of generated names differs from Ids.str_ltb on {descs[i]}",
            {"kind": "broken-tie", "theorem_or_tie": "order tie (str_ltb ~ Python str.__lt__ ~ SymPy Add.args order)", "input": descs[i]},
            found_input=False)
    ctx.evaluated(len(cases), len({json.dumps(d["sympy_add_order"]) + str(len(str(d["counter"]))) for d in descs}))
    ctx.coverage["order_tie_cases"] = len(cases)
    ctx.coverage["order_tie_non_identity_orders"] = sum(1 for d in descs if d["sympy_add_order"] != sorted(d["sympy_add_order"]))
    if descs:
        ctx.sample({"tie": "order", "case": next((d for d in descs if d["sympy_add_order"] != sorted(d["sympy_add_order"])), descs[0])})


def representatives_tie(ctx, deltas):
    """for the measured k of every explored module: the states the exploration used are the ones Coq's `representatives`
    names, and windows with equal power-of-ten positions have equal order patterns (vm_compute of the theorem's instance)"""
    ks = sorted({min(int(v), 60) for d in deltas for v in d.values() if v})[:40]
    cases = [f"({gN(k)}, {gN(243 + 7 * k)})" for k in ks]
    bad = coqrun.eval_cases(ctx, "reps", symgen.PREAMBLE + "From VP Require Import Proofs.IdsProofs Proofs.C03Proofs.\n", cases,
        "fun c : N * N => let '(k, n) := c in "
        "forallb (fun j => existsb (N.eqb (1000 - j)) (representatives 4 k) && small_windowb (1000 - j) k) (0%N :: offsets k) && "
        "forallb (fun j => list_eqb (list_eqb Bool.eqb) (pattern \"SYM\" (1000 - j) k) (pattern \"SYM\" (10000 - j) k)) (0%N :: offsets k) && "
        "list_eqb (list_eqb Bool.eqb) (pattern \"SYM\" n k) (pattern \"SYM\" (generic_state 4) k)", timeout=600)
    for i in bad[:1]:
        ctx.violation("C03:representatives-tie", f"window classes computed in Coq disagree for k={ks[i]}",
            {"kind": "broken-proof", "theorem_or_tie": "window_order_classes_exec instance", "k": ks[i]}, found_input=False)
    ctx.obligations(len(cases), len(cases) - len(bad))


# ---------------------------------------------------------------------------------------------
# exploration
# ---------------------------------------------------------------------------------------------

def boundary_counters(base_ids, delta, offsets, bump):
    """one state per offset t: every prefix p the module uses stands at 10^m_p - min(t, k_p), m_p the first exponent above the
    value the counter has after `import symplyphysics` (+ bump)"""
    states = []
    for t in offsets:
        st = {}
        for p, k in delta.items():
            if k <= 0:
                continue
            cur = base_ids.get(p, 0)
            m = 1
            while 10**m - k - 1 <= cur:
                m += 1
            st[p] = 10**(m + bump) - min(t, k)
        states.append(st)
    return states


def gap_states(base_ids, delta, uses, max_per_prefix):
    """Leading-digit classes that matter for THIS module: for a prefix p the module mints k names for, and the earlier names
    `uses[p]` its namespace mentions, the block of new names can sit (lexicographically) before / between / after those names.
    One counter value per distinct position of the block, found by direct string comparison of candidate values; other
    prefixes are left alone."""
    out = []
    for p, k in delta.items():
        used = sorted({str(a) for a in uses.get(p, [])})
        if not used or k <= 0:
            continue
        cur = base_ids.get(p, 0)
        cands = []
        for a in used:
            for e in (1, 2, 3, 4):
                cands += [int(a) * 10**e, int(a) * 10**e - k - 1, (int(a) + 1) * 10**e - k - 1]
        cands += [10**e for e in (3, 4, 5)] + [9 * 10**e for e in (2, 3, 4)] + [5 * 10**e for e in (2, 3)]
        seen_sig = {}
        for n in sorted({c for c in cands if c >= cur}):
            block = [str(n + j) for j in range(1, k + 1)]
            pos = {sum(1 for a in used if a < b) for b in block}
            if len(pos) != 1:
                continue            # the block straddles one of the used names: that is what the boundary states are for
            seen_sig.setdefault(pos.pop(), n)
        for sig, n in sorted(seen_sig.items())[:max_per_prefix]:
            out.append({p: n})
    return out


def describe_history(h):
    return {k: (v if k != "modules" else f"{len(v)} modules, first {v[:3]}") for k, v in h.items()}


def run(ctx):
    ctx.level = "exploration"
    ctx.static(STATIC)
    ctx.trust("Coq 8.16.1 kernel incl. vm_compute (no native_compute)",
        "harness/vp/c03_worker.py: canonical text of an equation (stable leaf keys, commutative arguments sorted), fixed-argument "
        "construction for calculate_*, result fingerprints", "harness/props/c03.py: comparison with relative tolerance 1e-9",
        "SymPy / CPython: caches, hashing, solver heuristics are NOT modelled -- sampled by varying PYTHONHASHSEED, import order and pre-history")
    ctx.assume("C03_partial's antecedent (a module depends on generated names only through equality and lexicographic order, one prefix at "
        "a time) is an assumption about SymPy and is false in general (names feed hash()); the claim is therefore PARTIAL and the "
        "decisive part is the exploration", "histories not sampled by this run are not covered")
    rng = ctx.rng

    # ---- ties ----
    found = symgen.tie_prefixes(ctx)
    symgen.ids_stream(ctx, ctx.pick(200, 1500), found)
    order_tie(ctx, ctx.pick(150, 600))

    modules = catalogue_modules()
    ctx.coverage["catalogue_modules"] = len(modules)
    argseed = rng.randrange(1, 10**6)

    # ---- (a) permutations, (c) dummy creations / raised counters: whole catalogue per process ----
    histories = [{"tag": "ref", "kind": "reference (walk order, no pre-history)", "modules": modules, "hashseed": 0}]
    n_perm, n_dummy, n_raised = ctx.pick((3, 2, 2), (12, 6, 5))
    for i in range(n_perm):
        order = modules[:]
        rng.shuffle(order)
        if i == 0:
            order = modules[::-1]
        histories.append({"tag": f"perm{i}", "kind": "permutation", "modules": order, "hashseed": rng.randrange(1, 2**32 - 1)})
    for i in range(n_dummy):
        order = modules[:]
        if i % 2:
            rng.shuffle(order)
        # every second dummy-creation history (the first one always) also runs the core warm-up (all public helpers of core.geometry / fields / vectors /
        # coordinate_systems / points on two fresh instances of each system kind): state a helper keeps is populated by someone else
        histories.append({"tag": f"dummy{i}", "kind": "core helpers exercised and dummy objects created first" if i % 2 == 0 else "dummy creations first", "modules": order,
            "dummies": rng.choice([150, 400, 900, 2500]), "warmup": i % 2 == 0, "hashseed": rng.randrange(1, 2**32 - 1)})
    for i in range(n_raised):
        order = modules[:]
        if i % 2:
            rng.shuffle(order)
        m = rng.randrange(3, 9)
        counters = {"SYM": 10**m - rng.randrange(0, 900), "FUN": 10**rng.randrange(1, 5) - rng.randrange(0, 9),
            "QTY": 10**rng.randrange(2, 5) - rng.randrange(0, 9), "SYS": 10 - rng.randrange(0, 6)}
        histories.append({"tag": f"raised{i}", "kind": "counters raised first", "modules": order, "counters": counters,
            "hashseed": rng.randrange(1, 2**32 - 1)})

    def job(h):
        spec = {"mode": "perm", "modules": h["modules"], "calc": True, "argseed": argseed, "dummies": h.get("dummies", 0),
            "counters": h.get("counters"), "srepr": True, "warmup": bool(h.get("warmup"))}
        return lambda: run_worker(ctx, h["tag"], spec, h["hashseed"])
    t0 = time.time()
    results = parallel([job(h) for h in histories])
    ctx.coverage["whole_catalogue_histories"] = len(histories)
    ctx.coverage["whole_catalogue_wall_s"] = round(time.time() - t0, 1)
    ref = results[0]
    if "worker_error" in ref or not ref["modules"]:
        ctx.violation("C03:worker:ref", "reference history could not be run", {"kind": "broken-tie", "theorem_or_tie": "c03_worker",
            "log": ref.get("worker_error")}, found_input=False)
        return
    refm = ref["modules"]
    n_eq = sum(len(v.get("eqs", {})) for v in refm.values())
    n_calc = sum(len(v.get("calc", {})) for v in refm.values())
    n_calc_values = sum(1 for v in refm.values() for r in v.get("calc", {}).values() if "r" in r)
    ctx.coverage.update(public_equations=n_eq, calculate_functions=n_calc, calculate_functions_returning_a_value=n_calc_values,
        fallback_leaf_keys=sum(v.get("fallback_keys", 0) for v in refm.values()), argseed=argseed)

    # modules that do not import at all in the reference history
    n_fail = 0
    for name, o in refm.items():
        if o["import"] != "ok":
            n_fail += 1
            if n_fail > 40:
                continue
            everywhere = all(r.get("modules", {}).get(name, {}).get("import") == o["import"] for r in results if "worker_error" not in r)
            ctx.violation(f"C03:import:{name.removeprefix('symplyphysics.')}",
                f"importing {name} fails" + (" identically in all histories" if everywhere else " in the reference history") + f": {o['import']}",
                {"kind": "violation", "item": name, "input": f"import {name}", "observed": o["import"], "expected": "import succeeds",
                 "histories_failing": sum(1 for r in results if r.get("modules", {}).get(name, {}).get("import") != "ok"),
                 "theorem_or_tie": "C03 statement: importing any catalogue module succeeds"}, True)

    diffs = []          # (history, module, kind, item, ref, other, other-observation)
    compared = 0
    for h, r in zip(histories[1:], results[1:]):
        if "worker_error" in r:
            ctx.violation(f"C03:worker:{h['tag']}", f"history {h['tag']} could not be run: {r['worker_error'][:300]}",
                {"kind": "broken-tie", "theorem_or_tie": "c03_worker", "history": describe_history(h)}, found_input=False)
            continue
        for name in modules:
            a, b = refm.get(name), r["modules"].get(name)
            if a is None or b is None:
                continue
            compared += 1
            for d in compare(a, b):
                diffs.append((h, name, *d, b))
    ctx.coverage["module_observations_compared_whole_catalogue"] = compared

    # ---- (b) every selected module alone, counters at the representative states ----
    # quick: a seeded 10 % of the modules get the full treatment; every module that (by the reference run) mints >= 2 functions or
    # quantities, or any name with a rare prefix, additionally gets the boundary sweep of those prefixes (cheap, and exactly the modules
    # in which two back-to-back FUN/QTY names can straddle a power of ten)
    def multi(o):
        d = o.get("ids", {})
        return d.get("FUN", 0) >= 2 or d.get("QTY", 0) >= 2 or any(p not in ("SYM", "FUN", "QTY") for p in d)
    full = set(modules) if not ctx.quick else set(rng.sample(modules, max(1, len(modules) // 10))) | (set(CORPUS) & set(modules))
    light_only = set() if not ctx.quick else {n for n, o in refm.items() if o.get("import") == "ok" and multi(o)} - full
    # quick, additionally: EVERY module whose source calls a solver / simplifier (the operations whose output follows the name order)
    # gets the one-exponent boundary sweep of ALL its prefixes incl. SYM, all offsets, with its calculate_* functions
    solver_only = set()
    if ctx.quick:
        for n in modules:
            if n in full or refm.get(n, {}).get("import") != "ok":
                continue
            try:
                src = (REPO / (n.replace(".", "/") + ".py")).read_text()
            except OSError:
                continue
            if "solve(" in src or "simplify(" in src:
                solver_only.add(n)
        # ALL of them (~420; costs ~110 s of the 4 min quick budget): deterministic, no sampling.  The thorough tier sweeps every
        # module with both exponents and the leading-digit / gap states on top.
        light_only -= solver_only
    # core warm-up, then the module alone (minimal history for state kept by core helpers): quick -- the modules whose source
    # mentions the core geometry / field / vector / coordinate-system helpers plus the full sample; thorough -- every module
    def uses_core(n):
        try:
            src = (REPO / (n.replace(".", "/") + ".py")).read_text()
        except OSError:
            return False
        return any(w in src for w in ("core.geometry", "core.fields", "core.coordinate_systems", "core.vectors", "core.points",
            "CoordinateSystem", "ScalarField", "VectorField", "QuantityVector", "volume_element", "Vector("))
    warm = list(modules) if not ctx.quick else sorted({n for n in modules if uses_core(n)} | full)
    warm_only = set(warm) - full - light_only - solver_only          # need the module-alone baseline, get no counter states
    # use-history stage: EVERY module gets the module-alone pass (it carries the A / B-after-A / B-fresh calls); modules selected for
    # nothing else get no counter states
    warm_only |= set(modules) - full - light_only - solver_only
    chosen = sorted(full | light_only | solver_only | warm_only)
    slow = {n for n, o in refm.items() if o.get("import_s", 0) > 2.5}
    base_tasks = [[m, {}] for m in chosen]
    shards = [base_tasks[i::NPROC] for i in range(NPROC)]
    t0 = time.time()
    pass1 = parallel([(lambda k=k, sh=sh: run_worker(ctx, f"alone{k}", {"mode": "fork", "tasks": sh, "calc": True, "argseed": argseed,
        "srepr": True, "use": True}, 0)) for k, sh in enumerate(shards) if sh])
    alone = {}
    base_ids = {}
    for r in pass1:
        base_ids = r.get("ids_after_base_import", base_ids)
        for name, lst in r.get("modules", {}).items():
            alone[name] = lst[0]
    for name, o in alone.items():
        if name in refm:
            for d in compare(refm[name], o):
                diffs.append(({"tag": "alone", "kind": "module imported alone", "hashseed": 0}, name, *d, o))
    use_history(ctx, alone, argseed)
    tasks = []
    cap = ctx.pick(10, 32)
    n_lead = ctx.pick(2, 3)
    n_gap = ctx.pick(6, 12)
    n_states = 0
    n_lead_states = 0
    n_gap_states = 0
    for name in chosen:
        o = alone.get(name)
        if not o or o.get("import") != "ok":
            continue
        delta = {p: int(v) for p, v in o.get("ids", {}).items() if v}
        if not delta:
            continue
        if name in warm_only:
            continue
        light = name in light_only
        if light:
            # selected only because it mints >= 2 functions / quantities or uses a rare prefix: sweep just those prefixes
            delta = {p: k for p, k in delta.items() if p != "SYM"}
            if not delta:
                continue
        kmax = max(delta.values())
        offs = list(range(0, kmax + 1))
        lim = 3 if name in slow else (64 if name in CORPUS else cap)
        if len(offs) > lim:
            # every offset of every prefix with few names (each consecutive pair of FUN/QTY/SYS/... names must be able to straddle
            # the power of ten), the extremes, and a seeded sample of the rest
            small = max([k for k in delta.values() if k + 1 <= lim - 2] or [1])
            keep = set(range(0, small + 1)) | {kmax}
            rest = [t for t in offs if t not in keep]
            keep |= set(rng.sample(rest, max(0, min(len(rest), lim - len(keep)))))
            offs = sorted(keep)
        sweep_only = name in solver_only
        if sweep_only and name not in slow:
            offs = list(range(0, min(kmax, 16) + 1))
        for bump in (0, 1) if (name not in slow and not light and not sweep_only) else (0,):
            for st in boundary_counters(base_ids, delta, offs, bump):
                tasks.append([name, st])
                n_states += 1
        if light or sweep_only:
            continue
        # leading-digit classes: the module's names against names minted EARLIER (registry symbols, constants): one state per
        # position of the new block among the earlier names the module mentions, plus seeded random leading digits
        gs = gap_states(base_ids, delta, o.get("uses") or {}, 2 if name in slow else n_gap)
        for st in gs:
            tasks.append([name, st])
            n_states += 1
            n_gap_states += 1
        for _ in range(1 if name in slow else (10 if name in CORPUS else n_lead)):
            lead, e = rng.randrange(10, 100), rng.choice([2, 2, 3, 5])
            tasks.append([name, {p: lead * 10**e for p in delta}])
            n_states += 1
            n_lead_states += 1
    nw = 4 if ctx.quick else NPROC              # the warm-up itself costs ~11 s per parent process
    wshards = [[[n, {}] for n in warm[i::nw]] for i in range(nw)]
    wseeds = [rng.randrange(1, 2**32 - 1) for _ in wshards]
    rng.shuffle(tasks)
    shards = [tasks[i::NPROC] for i in range(NPROC)]
    seeds = [rng.randrange(1, 2**32 - 1) for _ in shards]
    jobs2 = [(lambda k=k, sh=sh: run_worker(ctx, f"states{k}", {"mode": "fork", "tasks": sh, "calc": True, "argseed": argseed,
        "srepr": True}, seeds[k], timeout=1500)) for k, sh in enumerate(shards) if sh]
    jobsw = [(lambda k=k, sh=sh: run_worker(ctx, f"warm{k}", {"mode": "fork", "tasks": sh, "calc": True, "argseed": argseed,
        "srepr": True, "warmup": True}, wseeds[k], timeout=1500)) for k, sh in enumerate(wshards) if sh]
    both = parallel(jobsw + jobs2)                 # one wave: the warm-up parents start first and overlap with the state runs
    passw, pass2 = both[:len(jobsw)], both[len(jobsw):]
    compared_w = 0
    warm_ref = {}
    for k, r in enumerate(passw):
        if "worker_error" in r:
            ctx.violation(f"C03:worker:warm{k}", f"core warm-up worker failed: {r['worker_error'][:300]}",
                {"kind": "broken-tie", "theorem_or_tie": "c03_worker fork mode with warm-up"}, found_input=False)
            continue
        for name, lst in r["modules"].items():
            base = alone.get(name) or warm_ref.get(name)
            if base is None:
                continue
            compared_w += 1
            for d in compare(base, lst[0]):
                diffs.append(({"tag": f"stateswarm{k}", "kind": "core helpers exercised first, then the module alone", "warmup": True,
                    "counters": {}, "hashseed": wseeds[k]}, name, *d, lst[0]))
    for n, o in warm_ref.items():
        alone.setdefault(n, o)
    ctx.coverage["core_warmup_modules"] = len(warm)
    ctx.coverage["core_warmup_observations_compared"] = compared_w
    compared_b = 0
    for k, r in enumerate(pass2):
        if "worker_error" in r:
            ctx.violation(f"C03:worker:states{k}", f"boundary-state worker failed: {r['worker_error'][:300]}",
                {"kind": "broken-tie", "theorem_or_tie": "c03_worker fork mode"}, found_input=False)
            continue
        for name, lst in r["modules"].items():
            for o in lst:
                compared_b += 1
                for d in compare(alone[name], o):
                    diffs.append(({"tag": f"states{k}", "kind": "module alone, counters pre-set", "counters": o.get("counters"),
                        "hashseed": seeds[k]}, name, *d, o))
    ctx.coverage.update(boundary_modules=len(chosen), boundary_states_run=n_states, leading_digit_states_run=n_lead_states, gap_states_run=n_gap_states, modules_full=len(full), modules_prefix_sweep_only=len(light_only), modules_solver_sweep_only=len(solver_only), boundary_observations_compared=compared_b,
        boundary_wall_s=round(time.time() - t0, 1), slow_modules_with_reduced_states=sorted(slow))
    representatives_tie(ctx, [o.get("ids", {}) for o in alone.values()])

    # ---- decide ----
    form_variations = 0
    undecided = 0
    from vp import findings  # pylint: disable=import-outside-toplevel
    known = {k for k, e in findings.load(ctx.prop).items() if e.get("status") == "known"}
    per_kind = {}
    not_listed = 0
    # the smallest history first: a single module with pre-set counters is a better replay than a whole-catalogue run
    diffs.sort(key=lambda d: 0 if str(d[0].get("tag", "")).startswith(("states", "alone")) else 1)
    for h, name, kind, item, a, b, obs in diffs:
        short = name.removeprefix("symplyphysics.")
        hist = describe_history(h)
        key0 = {"import": f"C03:import-history:{short}", "calc": f"C03:calc:{short}.{item}"}.get(kind, f"C03:meaning:{short}.{item}")
        if key0 not in known and not any(v.key == key0 for v in ctx.violations):
            per_kind[kind] = per_kind.get(kind, 0) + 1
            if per_kind[kind] > 25:         # a broken core floods every module: 25 replays per kind are enough, the rest is counted
                not_listed += 1
                continue
        if kind == "import":
            ctx.violation(f"C03:import-history:{short}", f"import of {name} depends on the history: reference {a!r}, under {hist.get('kind')} {b!r}",
                {"kind": "violation", "item": name, "history": hist, "observed": b, "expected": a, "spec": replay_spec(h, name)}, True)
        elif kind == "calc":
            ctx.violation(f"C03:calc:{short}.{item}", f"{name}.{item} returns a different value under history {hist.get('kind')}: {b} (reference {a})",
                {"kind": "violation", "item": f"{name}.{item}", "history": hist, "observed": b, "expected": a, "argseed": argseed,
                 "spec": replay_spec(h, name)}, True)
        else:
            sa = refm.get(name, {}).get("srepr", {}).get(item) if h.get("tag") != "alone" and not str(h.get("tag", "")).startswith("states") \
                else alone.get(name, {}).get("srepr", {}).get(item)
            sb = obs.get("srepr", {}).get(item)
            verdict, point = numeric_meaning_differs(sa, sb, rng)
            if verdict is False:
                form_variations += 1
                continue
            if verdict is None:
                undecided += 1
            ctx.violation(f"C03:meaning:{short}.{item}", f"{name}.{item} is a different equation under history {hist.get('kind')}"
                + ("" if verdict else " (could not be evaluated numerically)"),
                {"kind": "violation" if verdict else "disagreement", "item": f"{name}.{item}", "history": hist, "observed": b, "expected": a,
                 "input": point, "spec": replay_spec(h, name), "theorem_or_tie": "exploration: canonical text of the public equation"}, bool(verdict))
    ctx.coverage["differences_found"] = len(diffs)
    ctx.coverage["differences_beyond_25_per_kind_not_listed"] = not_listed
    ctx.coverage["form_variations_same_value"] = form_variations
    ctx.coverage["undecided_text_differences"] = undecided
    n_hist = len(histories) + n_states + len(chosen)
    ctx.evaluated(compared + compared_b + len(alone), n_hist)
    ctx.coverage["histories_explored"] = n_hist
    ctx.coverage["exhaustive"] = False
    for h in (histories[1], histories[1 + n_perm] if len(histories) > 1 + n_perm else histories[-1], histories[-1]):
        ctx.sample({"history": describe_history({k: v for k, v in h.items()})})
    if tasks:
        ctx.sample({"history": {"kind": "module alone, counters pre-set", "module": tasks[0][0], "counters": tasks[0][1]}})
    ctx.coverage["rule"] = ("a history = (PYTHONHASHSEED, objects created / counters raised before the catalogue, import order) for whole-catalogue "
        "runs, or (module, counter state 10^m - t for every prefix the module mints names for, t = 0..k sampled to "
        f"{cap} offsets in quick / all up to 32 in thorough, two exponents) for single-module runs; distinct = distinct histories; every one is "
        "non-trivial (differs from the reference in order, pre-history, counters or hash seed). Compared per module: import outcome, canonical "
        "text of every public SymPy attribute, every calculate_* result on fixed arguments (rel. tol. 1e-9).")


def use_history(ctx, alone, argseed):
    """The module after it has been USED: in one process every calculate_* was called with argument set A (harvested from the tests),
    then with B (A rescaled); B was also evaluated in a forked child that had called nothing.  B-after-A must equal B-fresh, and the
    module's published equations must be what they were before the calls."""
    n_calls = n_mod = 0
    for name, o in sorted(alone.items()):
        u = o.get("use")
        if not u:
            continue
        n_mod += 1
        short = name.removeprefix("symplyphysics.")
        for attr, (before, after) in (u.get("published_changed") or {}).items():
            ctx.violation(f"C03:use-mutates:{short}.{attr}", f"{name}.{attr} is a different object after the module's calculate_* functions have been "
                f"called: {str(before)[:160]} -> {str(after)[:160]}", {"kind": "violation", "item": f"{name}.{attr}", "observed": after, "expected": before,
                "call_sequence": [c["sequence"][0] for c in (u.get("calls") or {}).values()], "spec": {"mode": "fork", "tasks": [[name, {}]], "use": True,
                "hashseed": 0}, "argseed": argseed, "theorem_or_tie": "use-history stage: published objects before / after the calls"}, True)
        for fn, c in (u.get("calls") or {}).items():
            n_calls += 1
            a, b = c.get("B_after_A") or {}, c.get("B_fresh") or {}
            if "timeout" in a or "timeout" in b or not b:
                continue
            a2 = {k: v for k, v in a.items() if k != "s"}
            b2 = {k: v for k, v in b.items() if k != "s"}
            if not same_result(a2, b2):
                ctx.violation(f"C03:use-history:{short}.{fn}", f"{name}.{fn} returns {a2} when called after an earlier call, but {b2} for the same "
                    f"arguments in a process that has called nothing: {c['sequence']}", {"kind": "violation", "item": f"{name}.{fn}",
                    "call_sequence": c["sequence"], "observed": a2, "expected": b2, "first_call_result": c.get("A"), "argseed": argseed,
                    "spec": {"mode": "fork", "tasks": [[name, {}]], "use": True, "hashseed": 0},
                    "theorem_or_tie": "use-history stage: B after A vs B in a fresh fork"}, True)
    ctx.coverage["use_history_modules"] = n_mod
    ctx.coverage["use_history_call_pairs"] = n_calls


def replay_spec(h, name):
    if str(h.get("tag", "")).startswith("states") or h.get("tag") == "alone":
        return {"mode": "fork", "tasks": [[name, h.get("counters") or {}]], "warmup": bool(h.get("warmup")), "hashseed": h.get("hashseed", 0)}
    mods = h.get("modules", [])
    upto = mods[:mods.index(name) + 1] if name in mods else [name]
    return {"mode": "perm", "modules": upto, "dummies": h.get("dummies", 0), "counters": h.get("counters"), "warmup": bool(h.get("warmup")),
        "hashseed": h.get("hashseed", 0)}


def replay(ctx, rep):
    """re-runs the recorded history and the reference (module alone, no pre-history) in fresh interpreters and compares"""
    print(json.dumps({k: rep.get(k) for k in ("key", "what", "item", "history", "observed", "expected")}, indent=1, default=str)[:3000])
    item = rep.get("item", "")
    if rep.get("key", "").startswith("C03:import:"):
        r = run_worker(ctx, "replay", {"mode": "fork", "tasks": [[item, {}]], "calc": False}, 0)
        o = r.get("modules", {}).get(item, [{}])[0]
        print("import outcome now:", o.get("import"))
        return 0 if o.get("import") == "ok" else 1
    spec = rep.get("spec")
    if not spec:
        return 1
    if rep.get("key", "").startswith(("C03:use-history:", "C03:use-mutates:")):
        mod = spec["tasks"][0][0]
        r = run_worker(ctx, "replay_use", dict(spec, calc=True, argseed=rep.get("argseed", 0)), 0)
        o = (r.get("modules", {}).get(mod) or [{}])[0]
        n0 = len(ctx.violations)
        use_history(ctx, {mod: o}, rep.get("argseed", 0))
        for v in ctx.violations[n0:]:
            print("REPRODUCED", v.key, "--", v.what[:400])
        if len(ctx.violations) == n0:
            print("not reproduced on this tree")
        return 1 if len(ctx.violations) > n0 else 0
    name = item if item in sys.modules or item.count(".") < 2 else item
    mod = name
    if rep["key"].startswith(("C03:calc:", "C03:meaning:")):
        mod = item.rsplit(".", 1)[0]
    argseed = rep.get("argseed", 0)
    base = run_worker(ctx, "replay_ref", {"mode": "fork", "tasks": [[mod, {}]], "calc": True, "argseed": argseed}, 0)
    sp = dict(spec, calc=True, argseed=argseed)
    hs = sp.pop("hashseed", 0)
    other = run_worker(ctx, "replay_hist", sp, hs)
    a = base.get("modules", {}).get(mod, [{}])[0]
    b = other.get("modules", {}).get(mod)
    b = b[0] if isinstance(b, list) else b
    d = compare(a, b or {})
    for x in d[:10]:
        print("REPRODUCED difference:", x[0], x[1], "\n  reference:", x[2], "\n  history  :", x[3])
    if not d:
        print("not reproduced on this tree")
    return 1 if d else 0
