"""C13 -- circulation and flux integrals vs Stokes', Green's and Gauss' theorems  (PARTIAL).

static theorems : coq/theories/Properties/C13.v (pointwise identities between the INTEGRANDS, derivatives by our own D;
                  C13_full_statement -- the analytic step to the integrals -- is a visible Definition, not proved)
tie             : `integrate`/`simplify` are replaced *inside this process only* by recorders, the real
                  circulation_along_curve / circulation_along_surface_boundary / flux_across_curve / flux_across_surface /
                  flux_across_surface_boundary / flux_across_volume_boundary are run on a generic field over a generic
                  parametrised curve / surface (components = undefined functions of the parameters), and
                      Lemma corr_integrand_* : forall rho, side -> captured_integrand = ev rho (Forms.<integrand>)
                  is closed by ring/field; the integration limits handed to SymPy are compared structurally.
exploration     : the two independent computation paths the library offers are run end to end (real sympy.integrate) on
                  seeded polynomial/trigonometric fields with generic coefficients over circles, ellipses, rectangles
                  (four segments), discs, paraboloid caps, boxes, reparametrisations and both orientations."""
from __future__ import annotations

import contextlib

import sympy
from sympy import Function, Rational, Symbol, cos, pi, sin, sqrt

from vp import coqrun, sx
from vp.jets import JetSer

STATIC = ["C13_" + n for n in (
    "stokes_pointwise", "green_pointwise", "planar_surface_element", "flux_boundary_planar", "flux_boundary_three_components",
    "flux_curve_normalisation",
    "cross3_antisym", "curve_normal_reverses", "curve_normal_is_T_cross_k", "reparam_pointwise", "orientation_sign",
    "gauss_pointwise_cart", "gauss_pointwise_cyl", "gauss_pointwise_sph", "volume_integrand_code_eq", "partial",
    "reparam_integral")]


PREAMBLE = """From Coq Require Import ZArith Reals List Lra Lia Field.
From VP Require Import Model.DiffAlg Model.Ops Model.Forms Proofs.OpsProofs.
Import ListNotations.
Local Open Scope R_scope.
Ltac forms_cbn := cbv [line_integrand flux_surface_integrand stokes_surface_integrand flux_curve_integrand
  curl_at div_at jac_det surf_normal curve_normal khat tangent traj Fat Xs Xn dot3 cross3 Forms.c3
  volume_integrand volume_integrand_code gauss_integrand vol_elem flux_boundary_integrand norm3
  reparam_integrand original_integrand_at_phi curve_at_phi curve_velocity_at_phi phi Xphi
  Nat.ltb Nat.leb Nat.add Nat.min]; ev_cbn.
Ltac abs_sqrt_pos :=
  repeat match goal with
  | H : 0 < ?t |- context [sqrt ?t] =>
      let s := fresh "s" in let Hs := fresh "Hs" in
      assert (Hs : sqrt t <> 0) by (apply Rgt_not_eq, sqrt_lt_R0, H);
      set (s := sqrt t) in *; clearbody s
  end.
Ltac c13_tie := intros; unfold tan, Rdiv; forms_cbn; abs_sqrt_pos;
  first [ solve [ring] | solve [field; repeat split; auto] | solve [field_simplify_eq; [ring | repeat split; auto ..]] ].
Ltac unify_sqrt :=
  repeat match goal with
  | |- context [sqrt ?a] =>
      match goal with
      | |- context [sqrt ?b] =>
          tryif constr_eq a b then fail else (replace (sqrt a) with (sqrt b) by (apply f_equal; ring))
      end
  end.
Ltac c13_rw := repeat match goal with H : vk _ _ _ _ _ = _ |- _ => try rewrite !H; clear H end.
Ltac c13_tie_const := intros; unfold Rdiv; forms_cbn; c13_rw; abs_sqrt_pos;
  first [ solve [ring] | solve [field; repeat split; auto] | solve [field_simplify_eq; [ring | repeat split; auto ..]] ].
Ltac c13_tie_sqrt := intros; forms_cbn; unify_sqrt; ring.
"""


# ---------------------------------------------------------------------------------------------
# the implementation under test, with integrate / simplify recorded
# ---------------------------------------------------------------------------------------------

def impl():
    import symplyphysics.core.fields.analysis as A      # pylint: disable=import-outside-toplevel
    from symplyphysics.core.coordinate_systems.coordinate_systems import CoordinateSystem  # pylint: disable=import-outside-toplevel
    from symplyphysics.core.fields.vector_field import VectorField  # pylint: disable=import-outside-toplevel
    return A, CoordinateSystem, VectorField


@contextlib.contextmanager
def recording():
    """Replace the names `integrate` and `simplify` in analysis' module globals for the duration of the block
    (this process only; /repo is not touched)."""
    A = impl()[0]
    cap = []
    token = Symbol("VP_INTEGRAL")

    def fake_integrate(e, *lims):
        cap.append((sympy.sympify(e), tuple(tuple(l) for l in lims)))
        return token
    old = (A.integrate, A.simplify)
    A.integrate, A.simplify = fake_integrate, (lambda e, **_k: e)
    try:
        yield cap
    finally:
        A.integrate, A.simplify = old


def cart_cs():
    return impl()[1]()


def make_cs(name):
    CoordinateSystem = impl()[1]
    st = {"cart": CoordinateSystem.System.CARTESIAN, "cyl": CoordinateSystem.System.CYLINDRICAL,
        "sph": CoordinateSystem.System.SPHERICAL}[name]
    cs = CoordinateSystem(st)
    return cs, list(cs.coord_system.base_scalars())


FPATHS = ["lambda", "from_vector", "from_sympy_vector"]    # ways to construct a field of the point (plus value lists of constants)


def field_of(cs, fns, path="lambda"):
    """`path` = how the VectorField object is constructed (point function / VectorField.from_vector /
    VectorField.from_sympy_vector / stored value list)."""
    VectorField = impl()[2]
    if path == "lambda":
        return VectorField(lambda p: [fn(p.coordinate(0), p.coordinate(1), p.coordinate(2)) for fn in fns], cs)
    es = [sympy.sympify(fn(*cs.coord_system.base_scalars())) for fn in fns]
    if path == "list":
        return VectorField(es, cs)
    if path == "from_vector":
        from symplyphysics.core.vectors.vectors import Vector  # pylint: disable=import-outside-toplevel
        return VectorField.from_vector(Vector(es, cs))
    if path == "from_sympy_vector":
        from sympy.vector import Vector as SymVector  # pylint: disable=import-outside-toplevel
        v = SymVector.zero
        for e, bv in zip(es, cs.coord_system.base_vectors()):
            v = v + e * bv
        return VectorField.from_sympy_vector(v, cs)
    raise ValueError(path)


# ---------------------------------------------------------------------------------------------
# generic run -> corr_integrand_* lemmas
# ---------------------------------------------------------------------------------------------

T, U, V = Symbol("t"), Symbol("u"), Symbol("v")
FG = [Function(f"vpF{k}") for k in range(1, 4)]          # generic field components F1..F3 of the Cartesian point
SG = [Function(n) for n in ("vpX", "vpY", "vpZ")]        # generic trajectory / surface components


def stmt(hyps, lhs, rhs, extra_binders=""):
    h = "".join(f"{x} -> " for x in hyps)
    return f"forall (rho : val){extra_binders}, {h}{lhs} = {rhs}"


def sqrt_hyps(js, expr):
    """one hypothesis 0 < base per distinct sqrt base in the captured expression"""
    out = []
    for p in sorted(sympy.sympify(expr).atoms(sympy.Pow), key=sympy.default_sort_key):
        if p.exp.is_Rational and p.exp.q == 2:
            h = f"0 < {js.term(p.base)}"
            if h not in out:
                out.append(h)
    return out


def generic_lemmas(ctx):
    A = impl()[0]
    lemmas, limits_bad, outputs = [], [], {}

    def ser(coords, n):
        params = tuple(coords)
        pts = [SG[k](*params) for k in range(n)] + [sympy.S.Zero] * (3 - n)
        return JetSer(list(coords), {SG[k]: 11 + k for k in range(3)}, {FG[k]: (k + 1, tuple(pts)) for k in range(3)})

    sfx = [""]

    def add(name, js, expr, model, item, proof="c13_tie.", hyps=None):
        name = name + sfx[0]
        item = item + (f" (field built by {sfx[0][1:]})" if sfx[0] else "")
        try:
            t = js.term(expr)
            hy = (hyps or []) + sqrt_hyps(js, expr)
        except sx.Unsupported as e:
            return str(e)
        lemmas.append(coqrun.Lemma(name, stmt(hy, t, model), proof, item))
        outputs[name] = expr
        return None

    def expect_limits(name, got, want):
        if tuple(got) != tuple(want):
            limits_bad.append((name, str(got), str(want)))

    cs = cart_cs()
    la, lb, lc, ld = Symbol("la"), Symbol("lb"), Symbol("lc"), Symbol("ld")
    broken = []
    for path in FPATHS:
        sfx[0] = "" if path == "lambda" else f"_{path}"
        for m in (2, 3):
            fld = field_of(cs, [(lambda a, b, c, k=k: FG[k](a, b, c)) for k in range(m)], path)
            for n in (2, 3):
                # curve, parameter t
                traj = [SG[k](T) for k in range(n)]
                with recording() as cap:
                    A.circulation_along_curve(fld, traj, (T, la, lb))
                e, lims = cap[-1]
                expect_limits(f"line_{m}_{n}", lims, ((T, la, lb),))
                r = add(f"corr_integrand_line_{m}_{n}", ser([T], n), e, f"ev rho (line_integrand 0 {m} {n})",
                    f"circulation_along_curve, {m}-component field, {n}-component trajectory")
                if r:
                    broken.append((f"corr_integrand_line_{m}_{n}" + sfx[0], "circulation_along_curve", r))
                # surface, parameters u v
                surf = [SG[k](U, V) for k in range(n)]
                for i, par in enumerate((U, V)):
                    with recording() as cap:
                        A.circulation_along_curve(fld, surf, (par, la, lb))
                    e, lims = cap[-1]
                    r = add(f"corr_integrand_pullback_{'PQ'[i]}_{m}_{n}", ser([U, V], n), e, f"ev rho (line_integrand {i} {m} {n})",
                        f"circulation_along_curve along the {'uv'[i]}-lines of a surface ({m},{n})")
                    if r:
                        broken.append((f"corr_integrand_pullback_{'PQ'[i]}_{m}_{n}" + sfx[0], "circulation_along_curve", r))
                with recording() as cap:
                    A.circulation_along_surface_boundary(fld, surf, (U, la, lb), (V, lc, ld))
                e, lims = cap[-1]
                expect_limits(f"stokes_{m}_{n}", lims, ((U, la, lb), (V, lc, ld)))
                r = add(f"corr_integrand_stokes_{m}_{n}", ser([U, V], n), e, f"ev rho (stokes_surface_integrand {m} {n})",
                    f"circulation_along_surface_boundary = flux_across_surface(curl F) ({m},{n})")
                if r:
                    broken.append((f"corr_integrand_stokes_{m}_{n}" + sfx[0], "circulation_along_surface_boundary", r))
                with recording() as cap:
                    A.flux_across_surface(fld, surf, (U, la, lb), (V, lc, ld))
                e, lims = cap[-1]
                expect_limits(f"flux_surface_{m}_{n}", lims, ((U, la, lb), (V, lc, ld)))
                r = add(f"corr_integrand_flux_surface_{m}_{n}", ser([U, V], n), e, f"ev rho (flux_surface_integrand {m} {n})",
                    f"flux_across_surface ({m},{n})")
                if r:
                    broken.append((f"corr_integrand_flux_surface_{m}_{n}" + sfx[0], "flux_across_surface", r))
            # planar: flux across a curve (as a curve in t, and along the u/v lines of a planar surface)
            with recording() as cap:
                A.flux_across_curve(fld, [SG[0](T), SG[1](T)], (T, la, lb))
            e, lims = cap[-1]
            expect_limits(f"flux_curve_{m}", lims, ((T, la, lb),))
            r = add(f"corr_integrand_flux_curve_{m}", ser([T], 2), e, f"ev rho (flux_curve_integrand 0 {m} 2)",
                f"flux_across_curve, {m}-component field")
            if r:
                broken.append((f"corr_integrand_flux_curve_{m}" + sfx[0], "flux_across_curve", r))
            surf2 = [SG[0](U, V), SG[1](U, V)]
            for i, par in enumerate((U, V)):
                with recording() as cap:
                    A.flux_across_curve(fld, surf2, (par, la, lb))
                e, lims = cap[-1]
                r = add(f"corr_integrand_fluxform_{'AB'[i]}_{m}", ser([U, V], 2), e, f"ev rho (flux_curve_integrand {i} {m} 2)",
                    f"flux_across_curve along the {'uv'[i]}-lines of a planar surface, {m}-component field")
                if r:
                    broken.append((f"corr_integrand_fluxform_{'AB'[i]}_{m}" + sfx[0], "flux_across_curve", r))
            # flux_across_surface_boundary: generic field, (div F)(S(u,v)) |S_u x S_v|.  For m = 3 the code takes the 3-D
            # divergence at z = 0 (model flux_boundary_integrand rho 3 2; C13_flux_boundary_three_components says what that means)
            with recording() as cap:
                A.flux_across_surface_boundary(fld, surf2, (U, la, lb), (V, lc, ld))
            e, lims = cap[-1]
            expect_limits(f"flux_boundary_{m}", lims, ((U, la, lb), (V, lc, ld)))
            r = add(f"corr_integrand_flux_boundary_{m}", ser([U, V], 2), e, f"flux_boundary_integrand rho {m} 2",
                f"flux_across_surface_boundary, generic {m}-component field on a parametrised planar surface", proof="c13_tie_sqrt.")
            if r:
                broken.append((f"corr_integrand_flux_boundary_{m}" + sfx[0], "flux_across_surface_boundary", r))
    sfx[0] = ""
    # stored value lists of constants k1 k2 k3 (VectorField([k1, k2, k3])): the field whose value on every trajectory is
    # (k1, k2, k3) and whose derivatives vanish
    ks = sympy.symbols("vpk1 vpk2 vpk3")
    ksym = {k_: f"k{i + 1}" for i, k_ in enumerate(ks)}

    def add_const(name, coords, expr, model, item, m):
        js = JetSer(list(coords), {SG[k]: 11 + k for k in range(3)}, {}, symbols=ksym)
        try:
            t = js.term(expr)
            hy = sqrt_hyps(js, expr)
        except sx.Unsupported as e:
            broken.append((name, item.split(",")[0], str(e)))
            return
        for i in range(1, m + 1):
            hy += [f"vk rho {i} 0 0 0 = k{i}", f"vk rho {i} 1 0 0 = 0", f"vk rho {i} 0 1 0 = 0", f"vk rho {i} 0 0 1 = 0"]
        h = "".join(f"{x} -> " for x in hy)
        lemmas.append(coqrun.Lemma(name, f"forall (rho : val) (k1 k2 k3 : R), {h}{t} = {model}", "c13_tie_const.", item))
        outputs[name] = expr

    for m in (2, 3):
        cfld = field_of(cs, [(lambda a, b, c, k_=k_: k_) for k_ in ks[:m]], "list")
        for n in (2, 3):
            surf = [SG[k](U, V) for k in range(n)]
            with recording() as cap:
                A.circulation_along_curve(cfld, [SG[k](T) for k in range(n)], (T, la, lb))
            add_const(f"corr_integrand_line_{m}_{n}_constlist", [T], cap[-1][0], f"ev rho (line_integrand 0 {m} {n})",
                f"circulation_along_curve, value list of {m} constants, {n}-component trajectory", m)
            with recording() as cap:
                A.circulation_along_surface_boundary(cfld, surf, (U, la, lb), (V, lc, ld))
            add_const(f"corr_integrand_stokes_{m}_{n}_constlist", [U, V], cap[-1][0], f"ev rho (stokes_surface_integrand {m} {n})",
                f"circulation_along_surface_boundary, value list of {m} constants ({n}-component surface)", m)
            with recording() as cap:
                A.flux_across_surface(cfld, surf, (U, la, lb), (V, lc, ld))
            add_const(f"corr_integrand_flux_surface_{m}_{n}_constlist", [U, V], cap[-1][0], f"ev rho (flux_surface_integrand {m} {n})",
                f"flux_across_surface, value list of {m} constants ({n}-component surface)", m)
        with recording() as cap:
            A.flux_across_curve(cfld, [SG[0](T), SG[1](T)], (T, la, lb))
        add_const(f"corr_integrand_flux_curve_{m}_constlist", [T], cap[-1][0], f"ev rho (flux_curve_integrand 0 {m} 2)",
            f"flux_across_curve, value list of {m} constants", m)
        with recording() as cap:
            A.flux_across_surface_boundary(cfld, [SG[0](U, V), SG[1](U, V)], (U, la, lb), (V, lc, ld))
        add_const(f"corr_integrand_flux_boundary_{m}_constlist", [U, V], cap[-1][0], f"flux_boundary_integrand rho {m} 2",
            f"flux_across_surface_boundary, value list of {m} constants", m)
    # flux_across_surface_boundary with a field of constant (symbolic) divergence: ties the surface element
    c0, c1, c2 = Symbol("c0"), Symbol("c1"), Symbol("c2")
    lin = field_of(cs, [lambda a, b, c: c1 * a + c0 * b, lambda a, b, c: c2 * b + c0])
    with recording() as cap:
        A.flux_across_surface_boundary(lin, [SG[0](U, V), SG[1](U, V)], (U, la, lb), (V, lc, ld))
    e, lims = cap[-1]
    js = JetSer([U, V], {SG[k]: 11 + k for k in range(3)}, {}, symbols={c0: "c0", c1: "c1", c2: "c2"})
    try:
        lemmas.append(coqrun.Lemma("corr_integrand_flux_boundary_linear",
            f"forall (rho : val) (c0 c1 c2 : R), {js.term(e)} = (c1 + c2) * norm3 (ev3 rho (surf_normal 2))", "c13_tie_sqrt.",
            "flux_across_surface_boundary, field (c1 x + c0 y, c2 y + c0): surface element |S_u x S_v|"))
    except sx.Unsupported as ex:
        broken.append(("corr_integrand_flux_boundary_linear", "flux_across_surface_boundary", str(ex)))
    # volume integrals (non-parametrised; coordinates of the system)
    for s, S in (("cart", "Cart"), ("cyl", "Cyl"), ("sph", "Sph")):
        c, q = make_cs(s)
        fld = field_of(c, [(lambda a, b, cc, k=k: FG[k](a, b, cc)) for k in range(3)])
        l = [Symbol(f"l{i}") for i in range(6)]
        with recording() as cap:
            A.flux_across_volume_boundary(fld, (l[0], l[1]), (l[2], l[3]), (l[4], l[5]))
        e, lims = cap[-1]
        expect_limits(f"volume_{s}", lims, ((q[2], l[4], l[5]), (q[1], l[2], l[3]), (q[0], l[0], l[1])))
        js = JetSer(q, {FG[k]: k + 1 for k in range(3)})
        hyps = [] if s == "cart" else ["vq rho 0%nat <> 0"]
        model = f"ev rho (volume_integrand {S})"
        if s == "sph":
            hyps.append("sin (vq rho 2%nat) <> 0")
            if e.has(sympy.tan):
                hyps.append("cos (vq rho 2%nat) <> 0")
                model = "ev rho volume_integrand_code"
        r = add(f"corr_integrand_volume_{s}", js, e, model, f"flux_across_volume_boundary [{s}]", hyps=hyps)
        if r:
            broken.append((f"corr_integrand_volume_{s}" + sfx[0], "flux_across_volume_boundary", r))
    # reparametrisation t = phi(s)
    PHI = Function("vpphi")
    for m, n in ((3, 3), (2, 2)):
        fld = field_of(cs, [(lambda a, b, c, k=k: FG[k](a, b, c)) for k in range(m)])
        traj = [SG[k](PHI(T)) for k in range(n)]
        with recording() as cap:
            A.circulation_along_curve(fld, traj, (T, la, lb))
        e, lims = cap[-1]
        pts = tuple(traj + [sympy.S.Zero] * (3 - n))
        kf = {FG[k]: (k + 1, pts) for k in range(3)}
        kf.update({SG[k]: (11 + k, (PHI(T),)) for k in range(3)})
        js = JetSer([T], {PHI: 20}, kf)
        r = add(f"corr_integrand_reparam_{m}_{n}", js, e.doit(), f"ev rho (reparam_integrand {m} {n})",
            f"circulation_along_curve on a reparametrised trajectory C(phi(s)) ({m},{n})")
        if r:
            broken.append((f"corr_integrand_reparam_{m}_{n}" + sfx[0], "circulation_along_curve", r))
    return lemmas, broken, limits_bad, outputs


# ---------------------------------------------------------------------------------------------
# end-to-end exploration: the two computation paths the library offers
# ---------------------------------------------------------------------------------------------

X, Y, Z = sympy.symbols("x y z", real=True)
COEF = sympy.symbols("a b c", real=True)


def rand_mono(rng, vars_, deg):
    m = sympy.Integer(rng.choice([-2, -1, 1, 2, 3]))
    for _ in range(rng.randint(0, deg)):
        m = m * rng.choice(vars_)
    return m


def rand_field(rng, dim, trig=False, lin=False):
    """polynomial field with generic coefficients a b c; optionally one trigonometric term"""
    vars_ = [X, Y, Z][:dim]
    comps = []
    for _ in range(dim):
        if lin:
            e = sum(rng.choice(COEF) * v * rng.choice([1, 2, -1]) for v in rng.sample(vars_, k=min(2, dim))) + rng.choice([0, 1, 2])
        else:
            e = rng.choice(COEF) * rand_mono(rng, vars_, 2) + rand_mono(rng, vars_, 2)
            if trig and rng.random() < 0.5:
                e = e + rng.choice([sin(X), cos(Y), X * cos(X), sin(Y) * rng.choice(COEF)])
        comps.append(sympy.sympify(e))
    return comps


def lam_field(cs, comps, path="lambda"):
    comps = [sympy.sympify(c) for c in comps]
    return field_of(cs, [(lambda a, b, c, e=e: e.subs({X: a, Y: b, Z: c}, simultaneous=True)) for e in comps], path)


def is_zero(e):
    e = sympy.sympify(e)
    if e == 0:
        return True
    if e.free_symbols - set(COEF):
        return False
    if not e.has(sympy.Integral):
        s = sympy.simplify(e)
        if s == 0:
            return True
        if s.free_symbols - set(COEF):
            return False
        e = s
    # numeric fallback at three coefficient assignments (unevaluated Integrals are evaluated by quadrature)
    tol = sympy.Float("1e-9") if e.has(sympy.Integral) else sympy.Float("1e-18")
    for vals in ((1, 2, 3), (Rational(-1, 2), 3, Rational(5, 7)), (2, -3, Rational(1, 3))):
        v = sympy.N(e.subs(dict(zip(COEF, vals))), 30)
        if not (v.is_number and v.is_finite and abs(v) < tol):
            return False
    return True


def free_of_coordinates(res, allowed=()):
    return not (sympy.sympify(res).free_symbols - set(COEF) - set(allowed))


def parse(exprs):
    loc = {"x": X, "y": Y, "z": Z, "a": COEF[0], "b": COEF[1], "c": COEF[2], "t": T, "u": U, "v": V}
    return [sympy.sympify(e, locals=loc) for e in exprs]


def run_case(case, cs=None, pick=None):
    """Returns (ok, detail).  The predicate is the property text instantiated at the case.  `cs`: an existing
    CoordinateSystem object to build the field on (history stream); default a fresh one."""
    A = impl()[0]
    cs = cs if cs is not None else cart_cs()
    kind = case["kind"]
    F = parse(case["field"])
    path = case.get("path", "lambda")
    fld = pick(lambda: lam_field(cs, F, path)) if pick is not None else lam_field(cs, F, path)
    detail = {}
    skipped = []
    real_integrate = A.integrate
    count = [0]

    def counting_integrate(*a_, **k_):
        count[0] += 1
        return real_integrate(*a_, **k_)

    def call(fn_, *args):
        """run a library function; it must hand an integrand to sympy.integrate (a result produced without integrating is
        a broken tie: the captured-integrand lemmas say nothing about it)"""
        before = count[0]
        A.integrate = counting_integrate
        try:
            out = fn_(*args)
        finally:
            A.integrate = real_integrate
        if count[0] == before:
            skipped.append(f"{fn_.__name__} returned {out} without calling integrate")
        return out
    if kind == "stokes":         # closed boundary curve(s) vs surface
        if case.get("params") == "base_scalars":     # non-parametrised: the base scalars x, y are the parameters
            bx, by = cs.coord_system.base_scalars()[0], cs.coord_system.base_scalars()[1]
            loc = {"x": bx, "y": by}
            surf = [sympy.sympify(e, locals=loc) for e in case["surface"]]
            (ua, ub), (va, vb) = [[sympy.sympify(e, locals=loc) for e in l] for l in case["limits"]]
            rhs = call(A.circulation_along_surface_boundary, fld, surf, (bx, ua, ub), (by, va, vb))
        else:
            surf = parse(case["surface"])
            (ua, ub), (va, vb) = [parse(l) for l in case["limits"]]
            rhs = call(A.circulation_along_surface_boundary, fld, surf, (U, ua, ub), (V, va, vb))
        lhs = 0
        for seg in case["boundary"]:
            tr = parse(seg["trajectory"])
            t0, t1 = parse(seg["limits"])
            lhs += call(A.circulation_along_curve, fld, tr, (T, t0, t1))
        detail = {"circulation_along_curve": str(lhs), "circulation_along_surface_boundary": str(rhs)}
        ok = is_zero(lhs - rhs) and free_of_coordinates(lhs) and free_of_coordinates(rhs)
    elif kind == "green":        # flux across closed curve vs divergence over the region
        lhs = 0
        for seg in case["boundary"]:
            tr = parse(seg["trajectory"])
            t0, t1 = parse(seg["limits"])
            lhs += call(A.flux_across_curve, fld, tr, (T, t0, t1))
        reg = case["region"]
        if reg["type"] == "base_scalars":       # non-parametrised: the base scalars are the parameters
            bx, by = cs.coord_system.base_scalars()[0], cs.coord_system.base_scalars()[1]
            loc = {"x": bx, "y": by}
            lim1 = [sympy.sympify(e, locals=loc) for e in reg["xlimits"]]
            lim2 = [sympy.sympify(e, locals=loc) for e in reg["ylimits"]]
            rhs = call(A.flux_across_surface_boundary, fld, [bx, by], (bx, lim1[0], lim1[1]), (by, lim2[0], lim2[1]))
        else:
            surf = parse(reg["surface"])
            (ua, ub), (va, vb) = [parse(l) for l in reg["limits"]]
            rhs = call(A.flux_across_surface_boundary, fld, surf, (U, ua, ub), (V, va, vb))
        detail = {"flux_across_curve": str(lhs), "flux_across_surface_boundary": str(rhs)}
        ok = is_zero(lhs - rhs) and free_of_coordinates(lhs) and free_of_coordinates(rhs)
    elif kind == "gauss":        # six faces vs volume
        (a1, b1), (a2, b2), (a3, b3) = [parse(l) for l in case["box"]]
        faces = [([b1, U, V], (a2, b2), (a3, b3)), ([a1, V, U], (a3, b3), (a2, b2)),
                 ([V, b2, U], (a3, b3), (a1, b1)), ([U, a2, V], (a1, b1), (a3, b3)),
                 ([U, V, b3], (a1, b1), (a2, b2)), ([V, U, a3], (a2, b2), (a1, b1))]
        lhs = 0
        for surf, lu, lv in faces:
            lhs += call(A.flux_across_surface, fld, surf, (U, lu[0], lu[1]), (V, lv[0], lv[1]))
        rhs = call(A.flux_across_volume_boundary, fld, (a1, b1), (a2, b2), (a3, b3))
        detail = {"flux_across_surface(6 faces)": str(lhs), "flux_across_volume_boundary": str(rhs)}
        ok = is_zero(lhs - rhs) and free_of_coordinates(lhs) and free_of_coordinates(rhs)
    elif kind == "gauss_curvilinear":   # coordinate box of a cylindrical / spherical system vs Cartesian boundary flux
        c2, q = make_cs(case["sys"])
        Fq = [sympy.sympify(e, locals={"q0": q[0], "q1": q[1], "q2": q[2], "a": COEF[0], "b": COEF[1], "c": COEF[2]})
            for e in case["field_local"]]
        fq = field_of(c2, [(lambda a_, b_, c_, e=e: e.subs(dict(zip(q, (a_, b_, c_))), simultaneous=True)) for e in Fq], path)
        lims = [parse(l) for l in case["box"]]
        rhs = call(A.flux_across_volume_boundary, fq, tuple(lims[0]), tuple(lims[1]), tuple(lims[2]))
        lhs = 0
        for f in case["faces"]:
            lhs += call(A.flux_across_surface, fld, parse(f["surface"]), (U, *parse(f["ulimits"])), (V, *parse(f["vlimits"])))
        detail = {"flux_across_surface(faces, Cartesian)": str(lhs), "flux_across_volume_boundary": str(rhs)}
        ok = is_zero(lhs - rhs) and free_of_coordinates(rhs)
    elif kind in ("reparam", "reverse"):
        fn = {"circulation": A.circulation_along_curve, "flux_curve": A.flux_across_curve}[case["function"]]
        tr = parse(case["trajectory"])
        t0, t1 = parse(case["limits"])
        base = call(fn, fld, tr, (T, t0, t1))
        tr2 = parse(case["trajectory2"])
        s0, s1 = parse(case["limits2"])
        other = call(fn, fld, tr2, (T, s0, s1))
        detail = {"original": str(base), "transformed": str(other)}
        ok = is_zero(base - other) if kind == "reparam" else is_zero(base + other)
        ok = ok and free_of_coordinates(base) and free_of_coordinates(other)
    elif kind == "swap_surface":     # exchanging the surface parameters: vector flux changes sign, |dS| integral does not
        surf = parse(case["surface"])
        (ua, ub), (va, vb) = [parse(l) for l in case["limits"]]
        swapped = [e.subs({U: V, V: U}, simultaneous=True) for e in surf]
        f1 = call(A.flux_across_surface, fld, surf, (U, ua, ub), (V, va, vb))
        f2 = call(A.flux_across_surface, fld, swapped, (U, va, vb), (V, ua, ub))
        c1_ = call(A.circulation_along_surface_boundary, fld, surf, (U, ua, ub), (V, va, vb))
        c2_ = call(A.circulation_along_surface_boundary, fld, swapped, (U, va, vb), (V, ua, ub))
        detail = {"flux": str(f1), "flux_swapped": str(f2), "circulation": str(c1_), "circulation_swapped": str(c2_)}
        ok = is_zero(f1 + f2) and is_zero(c1_ + c2_) and free_of_coordinates(f1) and free_of_coordinates(c1_)
        # the planar projection: the |dS| integral of flux_across_surface_boundary is orientation independent
        lin = lam_field(cs, parse(case["linear_field"]), path)
        b1_ = call(A.flux_across_surface_boundary, lin, surf[:2], (U, ua, ub), (V, va, vb))
        b2_ = call(A.flux_across_surface_boundary, lin, swapped[:2], (U, va, vb), (V, ua, ub))
        detail.update({"boundary_flux": str(b1_), "boundary_flux_swapped": str(b2_)})
        ok = ok and is_zero(b1_ - b2_)
    else:
        raise ValueError(kind)
    if skipped:
        detail["no_integrand"] = skipped
        ok = False
    return ok, detail


def S(e):
    return str(e)


def circle_boundary(a_, b_, z=None):
    tr = [S(a_ * cos(T)), S(b_ * sin(T))] + ([S(z)] if z is not None else [])
    return [{"trajectory": tr, "limits": ["0", S(2 * pi)]}]


def rect_boundary(x0, x1, y0, y1, zexpr=None):
    def seg(xe, ye, t0, t1):
        tr = [S(xe), S(ye)]
        if zexpr is not None:
            tr.append(S(sympy.sympify(zexpr).subs({U: xe, V: ye}, simultaneous=True)))
        return {"trajectory": tr, "limits": [S(t0), S(t1)]}
    return [seg(T, sympy.Integer(y0), x0, x1), seg(sympy.Integer(x1), T, y0, y1), seg(T, sympy.Integer(y1), x1, x0),
        seg(sympy.Integer(x0), T, y1, y0)]


def gen_cases(rng, tier_quick, only=None):
    """Seeded end-to-end cases.  Quick: ~10, thorough: ~40."""
    cases = []

    def add(c):
        if only is None or c["kind"] in only:
            c["id"] = f"{c['kind']}:{len(cases)}"
            c.setdefault("path", FPATHS[len(cases) % len(FPATHS)])     # rotate the way the field object is constructed
            cases.append(c)
    reps = 2 if tier_quick else 30
    for r in range(reps):
        trig = (r % 2 == 1)
        # Stokes: disc / ellipse, flat or paraboloid cap, boundary = circle / ellipse
        a_, b_ = rng.choice([(1, 1), (2, 1), (1, 3), (2, 2)])
        zc = rng.choice([None, U**2, 1 - U**2, U * cos(V)])
        surf = [a_ * U * cos(V), b_ * U * sin(V)] + ([zc] if zc is not None else [])
        zb = None if zc is None else sympy.sympify(zc).subs({U: 1, V: T}, simultaneous=True)
        add({"kind": "stokes", "field": [S(e) for e in rand_field(rng, 3)], "surface": [S(e) for e in surf],
            "limits": [["0", "1"], ["0", S(2 * pi)]], "boundary": circle_boundary(a_, b_, zb)})
        # Stokes: rectangle graph surface, boundary = four segments
        x0, x1, y0, y1 = rng.choice([(0, 1, 0, 2), (-1, 1, 0, 1), (0, 2, -1, 1)])
        zc = rng.choice([None, U * V, U**2 + V, sin(U)])
        surf = [U, V] + ([zc] if zc is not None else [])
        add({"kind": "stokes", "field": [S(e) for e in rand_field(rng, 3, trig)], "surface": [S(e) for e in surf],
            "limits": [[S(x0), S(x1)], [S(y0), S(y1)]], "boundary": rect_boundary(x0, x1, y0, y1, zc)})
        # Stokes with the base scalars as parameters (non-parametrised graph surface z = h(x, y))
        x0, x1, y0, y1 = rng.choice([(0, 1, 0, 2), (-1, 1, 0, 1)])
        zc = rng.choice([U * V, U + V**2])
        add({"kind": "stokes", "params": "base_scalars", "field": [S(e) for e in rand_field(rng, 3, trig)],
            "surface": ["x", "y", S(zc.subs({U: X, V: Y}, simultaneous=True))], "limits": [[S(x0), S(x1)], [S(y0), S(y1)]],
            "boundary": rect_boundary(x0, x1, y0, y1, zc)})
        # Green: rectangle (four segments) vs non-parametrised region, any field
        x0, x1, y0, y1 = rng.choice([(0, 1, 0, 2), (-1, 1, 0, 1), (0, 2, -1, 1)])
        add({"kind": "green", "field": [S(e) for e in rand_field(rng, 2, trig)], "boundary": rect_boundary(x0, x1, y0, y1),
            "region": {"type": "base_scalars", "xlimits": [S(x0), S(x1)], "ylimits": [S(y0), S(y1)]}})
        # Green: circle / ellipse vs parametrised disc, field of constant divergence
        a_, b_ = rng.choice([(1, 1), (2, 1), (1, 3), (2, 2)])
        add({"kind": "green", "field": [S(e) for e in rand_field(rng, 2, lin=True)], "boundary": circle_boundary(a_, b_),
            "region": {"type": "parametrised", "surface": [S(a_ * U * cos(V)), S(b_ * U * sin(V))],
                "limits": [["0", "1"], ["0", S(2 * pi)]]}})
        # Gauss: box
        box = [[S(rng.choice([-1, 0])), S(rng.choice([1, 2]))] for _ in range(3)]
        add({"kind": "gauss", "field": [S(e) for e in rand_field(rng, 3, trig)], "box": box})
        # speed / affine reparametrisation, orientation reversal
        circ = [2 * cos(T), sin(T)]
        phi = rng.choice([2 * T, T / 3 + 1, T**2])
        inv = {S(2 * T): (0, pi), S(T / 3 + 1): (-3, 6 * pi - 3), S(T**2): (0, sqrt(2 * pi))}[S(phi)]
        fn = rng.choice(["circulation", "flux_curve"])
        add({"kind": "reparam", "function": fn, "field": [S(e) for e in rand_field(rng, 2)],
            "trajectory": [S(e) for e in circ], "limits": ["0", S(2 * pi)],
            "trajectory2": [S(e.subs(T, phi)) for e in circ], "limits2": [S(inv[0]), S(inv[1])]})
        fn = rng.choice(["circulation", "flux_curve"])
        add({"kind": "reverse", "function": fn, "field": [S(e) for e in rand_field(rng, 2)],
            "trajectory": [S(e) for e in circ], "limits": ["0", S(2 * pi)],
            "trajectory2": [S(e.subs(T, -T)) for e in circ], "limits2": [S(-2 * pi), "0"]})
        # exchange of the surface parameters
        zc = rng.choice([None, U**2, U * cos(V)])
        surf = [U * cos(V), 2 * U * sin(V)] + ([zc] if zc is not None else [])
        add({"kind": "swap_surface", "field": [S(e) for e in rand_field(rng, 3)], "surface": [S(e) for e in surf],
            "limits": [["0", "1"], ["0", S(2 * pi)]], "linear_field": [S(e) for e in rand_field(rng, 2, lin=True)]})
    # a disc given by Cartesian inequalities (non-rectangular parameter domain: the ORDER of the iterated integral matters)
    add({"kind": "stokes", "field": [S(e) for e in rand_field(rng, 3)], "surface": ["u", "v", "u*v"],
        "limits": [["-sqrt(1 - v**2)", "sqrt(1 - v**2)"], ["-1", "1"]],
        "boundary": circle_boundary(1, 1, sympy.sympify("cos(t)*sin(t)", locals={"t": T}))})
    # a two-component field that mentions z, over a surface whose normal is not vertical
    for p2 in ("lambda", "from_vector"):
        add({"kind": "stokes", "path": p2,
            "field": [S(COEF[0] * Z + Y + rand_mono(rng, [X, Y], 2)), S(X * Z + COEF[1] * Z + rand_mono(rng, [X, Y], 2))],
            "surface": [S(U * cos(V)), S(U * sin(V)), S(1 - U**2)], "limits": [["0", "1"], ["0", S(2 * pi)]],
            "boundary": circle_boundary(1, 1, sympy.Integer(0))})
    # Gauss on boxes with constant numeric limits: every combination of intervals symmetric / not symmetric about 0, with
    # fields whose divergence is odd / even / mixed under the reflection through the origin
    sym = [["-1", "1"], ["-2", "2"], ["-3/2", "3/2"]]
    asym = [["0", "1"], ["-1", "2"], ["0", "3"]]
    gfields = [["x**2 + y*z", "cos(y) + 3*x**2", "z**2 - x*y"], ["x**3", "y", "z*x**2"], ["x**2 + x", "y*z", "a*z**2"]]
    for m in range(8):
        box = [(sym if (m >> k) & 1 else asym)[k] for k in range(3)]
        for fi, gf in enumerate(gfields):
            if tier_quick and fi != m % 3 and fi != 0:
                continue
            add({"kind": "gauss", "field": gf, "box": box})
    # Stokes cases built FROM the curve: closed curve with implicit equation g(x, y) = 0, fields whose curl_z = g*h vanishes on
    # the curve but not inside (Q = integral of g*h dx, or P = -integral of g*h dy)
    for a_, b_ in ((1, 1), (2, 1)) if tier_quick else ((1, 1), (2, 1), (1, 3)):
        g = X**2 / a_**2 + Y**2 / b_**2 - 1
        for k, h in enumerate([sympy.Integer(1), Y + 2, COEF[0] * X + 3]):
            if tier_quick and k == 2:
                continue
            fq = [sympy.Integer(0), sympy.integrate(sympy.expand(g * h), X), sympy.Integer(0)]
            fp = [-sympy.integrate(sympy.expand(g * h), Y), sympy.Integer(0), Z]
            for f in (fq, fp) if k == 0 else (fq,):
                add({"kind": "stokes", "field": [S(e) for e in f], "surface": [S(a_ * U * cos(V)), S(b_ * U * sin(V))],
                    "limits": [["0", "1"], ["0", S(2 * pi)]], "boundary": circle_boundary(a_, b_)})
    # stored value lists of constants
    add({"kind": "stokes", "path": "list", "field": ["a", "b", "2"], "surface": [S(U * cos(V)), S(2 * U * sin(V)), S(U**2)],
        "limits": [["0", "1"], ["0", S(2 * pi)]], "boundary": circle_boundary(1, 2, sympy.Integer(1))})
    add({"kind": "green", "path": "list", "field": ["a", "3"], "boundary": rect_boundary(0, 1, 0, 2),
        "region": {"type": "base_scalars", "xlimits": ["0", "1"], "ylimits": ["0", "2"]}})
    add({"kind": "gauss", "path": "list", "field": ["a", "b", "c"], "box": [["0", "1"], ["-1", "1"], ["0", "2"]]})
    # regressions of the two repaired defects (fixed cases first, then seeded ones)
    for c in div_on_surface_cases(rng) + exchanged_base_scalar_cases(rng):
        add(c)
    # Green: ellipse vs non-parametrised region with curved limits (as analysis_test does), polynomial field
    a_, b_ = rng.choice([(1, 1), (2, 1), (3, 3)])
    add({"kind": "green", "field": [S(e) for e in rand_field(rng, 2)], "boundary": circle_boundary(a_, b_),
        "region": {"type": "base_scalars", "xlimits": [S(-a_ * sqrt(1 - Y**2 / b_**2)), S(a_ * sqrt(1 - Y**2 / b_**2))],
            "ylimits": [S(-b_), S(b_)]}})
    if True:
        # Gauss in a cylindrical coordinate box: local components (F_r, F_theta, F_z) = (a r^2, b r z, c z r)
        # Cartesian field: F_r e_r + F_theta e_theta + F_z e_z with r = sqrt(x^2+y^2)
        add({"kind": "gauss_curvilinear", "sys": "cyl", "field_local": ["a*q0**2", "0", "c*q2*q0**2"],
            "field": ["a*x*sqrt(x**2+y**2)", "a*y*sqrt(x**2+y**2)", "c*z*(x**2+y**2)"],
            "box": [["1", "2"], ["0", S(2 * pi)], ["0", "3"]],
            "faces": [
                {"surface": ["2*cos(u)", "2*sin(u)", "v"], "ulimits": ["0", S(2 * pi)], "vlimits": ["0", "3"]},
                {"surface": ["cos(v)", "sin(v)", "u"], "ulimits": ["0", "3"], "vlimits": ["0", S(2 * pi)]},
                {"surface": ["u*cos(v)", "u*sin(v)", "3"], "ulimits": ["1", "2"], "vlimits": ["0", S(2 * pi)]},
                {"surface": ["v*cos(u)", "v*sin(u)", "0"], "ulimits": ["0", S(2 * pi)], "vlimits": ["1", "2"]}]})
        # Gauss on a ball in spherical coordinates: F = a r^2 e_r ; Cartesian F = a r (x, y, z)
        add({"kind": "gauss_curvilinear", "sys": "sph", "field_local": ["a*q0**2", "0", "0"],
            "field": ["a*x*sqrt(x**2+y**2+z**2)", "a*y*sqrt(x**2+y**2+z**2)", "a*z*sqrt(x**2+y**2+z**2)"],
            "box": [["0", "2"], ["0", S(2 * pi)], ["0", S(pi)]],
            "faces": [{"surface": ["2*cos(v)*sin(u)", "2*sin(v)*sin(u)", "2*cos(u)"], "ulimits": ["0", S(pi)],
                "vlimits": ["0", S(2 * pi)]}]})
    return cases


def div_on_surface_cases(rng):
    """Parametrised disc / ellipse, field of NON-constant divergence: flux_across_surface_boundary must evaluate the
    divergence on the surface (repaired in b8d7c4a).  (x^3, y) on the unit disc: both paths give 7*pi/4."""
    out = []
    fields = [(["x**3", "y"], 1, 1), (["x**2", "0"], 1, 1),
        ([S(e) for e in rand_field(rng, 2)], *rng.choice([(1, 1), (2, 1), (1, 3)]))]
    for f, a_, b_ in fields:
        out.append({"kind": "green", "field": f, "boundary": circle_boundary(a_, b_),
            "region": {"type": "parametrised", "surface": [S(a_ * U * cos(V)), S(b_ * U * sin(V))],
                "limits": [["0", "1"], ["0", S(2 * pi)]]}})
    return out


def exchanged_base_scalar_cases(rng):
    """Surface written through the base scalars in exchanged order, X = y, Y = x (a reflected rectangle):
    the substitution of the base scalars must be simultaneous (repaired in 137cb62; (0, x^2, 0): both paths give -4)."""
    def seg(xe, ye, t0, t1):
        return {"trajectory": [S(xe), S(ye)], "limits": [S(t0), S(t1)]}
    zero = sympy.Integer(0)
    boundary = [seg(zero, T, 0, 1), seg(T, sympy.Integer(1), 0, 2), seg(sympy.Integer(2), T, 1, 0), seg(T, zero, 2, 0)]
    return [{"kind": "stokes", "params": "base_scalars", "field": f,
        "surface": ["y", "x"], "limits": [["0", "1"], ["0", "2"]], "boundary": boundary}
        for f in (["0", "x**2", "0"], ["a*y**2", "x*y", "0"], [S(e) for e in rand_field(rng, 3)])]


# ---------------------------------------------------------------------------------------------
# run
# ---------------------------------------------------------------------------------------------

FUNCS_OF_KIND = {"stokes": ["circulation_along_curve", "circulation_along_surface_boundary", "flux_across_surface"],
    "green": ["flux_across_curve", "flux_across_surface_boundary"],
    "gauss": ["flux_across_surface", "flux_across_volume_boundary"],
    "gauss_curvilinear": ["flux_across_surface", "flux_across_volume_boundary"],
    "reparam": ["circulation_along_curve", "flux_across_curve"], "reverse": ["circulation_along_curve", "flux_across_curve"],
    "swap_surface": ["flux_across_surface", "circulation_along_surface_boundary", "flux_across_surface_boundary"]}


KNOWN_KEY_VALUE_LIST = "C13:value-list-field:not-evaluated-on-trajectory"


def value_list_probe():
    """A field stored as a value list of EXPRESSIONS in the base scalars (VectorField([y, -x, 0])): operators.py treats
    it as the field with those components (curl = (0,0,-2)), VectorField.__call__ returns the stored list unevaluated."""
    return [{"kind": "stokes", "path": "list", "field": ["y", "-x", "0"], "surface": [S(U * cos(V)), S(U * sin(V))],
        "limits": [["0", "1"], ["0", S(2 * pi)]], "boundary": circle_boundary(1, 1)}]


def history_sequence(rng, n):
    """Many different fields created and dropped one after the other on ONE shared CoordinateSystem object, the
    operators interleaved (circulation_along_curve / circulation_along_surface_boundary, flux_across_curve /
    flux_across_surface_boundary, flux_across_surface / flux_across_volume_boundary)."""
    seq = []
    for i in range(n):
        a_, b_ = rng.choice([1, 2, 3, -1, -2]), rng.choice([1, 2, 3, -1])
        if i % 4 == 2:
            x0, x1, y0, y1 = rng.choice([(0, 1, 0, 2), (-1, 1, 0, 1)])
            seq.append({"kind": "green", "field": [S(e) for e in rand_field(rng, 2)], "boundary": rect_boundary(x0, x1, y0, y1),
                "region": {"type": "base_scalars", "xlimits": [S(x0), S(x1)], "ylimits": [S(y0), S(y1)]}})
        elif i % 8 == 5:
            seq.append({"kind": "gauss", "field": [S(e) for e in rand_field(rng, 3)], "box": [["0", "1"], ["-1", "1"], ["0", "2"]]})
        else:
            f = [S(-a_ * COEF[0] * Y + rand_mono(rng, [X, Y], 1)), S(b_ * COEF[1] * X + rng.choice([1, 2, -1]) * X * Y), S(Z + rand_mono(rng, [X, Z], 1))]
            zc = rng.choice([None, None, U**2])
            surf = [U * cos(V), U * sin(V)] + ([zc] if zc is not None else [])
            seq.append({"kind": "stokes", "field": f, "surface": [S(e) for e in surf], "limits": [["0", "1"], ["0", S(2 * pi)]],
                "boundary": circle_boundary(1, 1, None if zc is None else sympy.Integer(1))})
        seq[-1]["path"] = FPATHS[i % len(FPATHS)]
    return seq


def run_history(seq):
    """Returns None if every step agrees, else (index, detail)."""
    cs = cart_cs()      # ONE coordinate-system object for the whole sequence
    dead_ids, last = set(), []

    def pick(mk):
        """build the step's field object so that it REUSES the address of a field object dropped earlier, whenever the
        allocator offers one (objects built on the way are kept alive until the choice is made)"""
        keep = []
        for _ in range(300):
            o = mk()
            if id(o) in dead_ids:
                break
            keep.append(o)
        last[:] = [id(o)]
        return o
    for i, c in enumerate(seq):
        try:
            okc, detail = run_case(c, cs, pick)
            dead_ids.update(last)
        except Exception as e:  # pylint: disable=broad-except
            okc, detail = False, {"exception": f"{type(e).__name__}: {e}"}
        if not okc:
            return i, detail
    return None


def report_case(ctx, c, detail, key=None):
    ctx.violation(key or f"C13:e2e:{c['kind']}:{c['field']}:{c.get('surface', c.get('trajectory', c.get('box', '')))}",
        f"the two computation paths disagree / leave coordinate variables ({c['kind']}) on field {c['field']} "
        f"(field object built by {c.get('path', 'lambda')}): {detail}",
        {"kind": "e2e", "item": c["kind"], "input": c, "observed": detail,
            "expected": "equal results (negated for orientation reversal), free of coordinate variables",
            "theorem_or_tie": "end-to-end agreement of the library's two computation paths"}, found_input=True)


def run(ctx):
    ctx.level = "proof"
    ctx.static(STATIC)
    ctx.coverage["claim_scope"] = ("PARTIAL: integrand identities are proved for all fields/curves/surfaces; equality of the "
        "integrals is explored end-to-end on seeded cases, not proved (C13_full_statement is a Definition)")
    ctx.trust("Coq 8.16.1 kernel; stdlib axioms of the classical reals; Coquelicot 3 only for stating C13_full_statement and "
        "for C13_reparam_integral (RInt_comp)",
        "NOT proved: Green's theorem on a parameter rectangle, FTC + Fubini on a coordinate box (green_on_rectangle, "
        "gauss_on_box in FormsProofs.v), correctness of sympy.integrate / sympy.simplify",
        "Schwarz' theorem (jets indexed by derivative counts), a C^k function has arbitrary jets",
        "vp/jets.py + vp/sx.py reading of SymPy nodes: Derivative(F(X(u,v),..), X(u,v)) and Subs(Derivative(..)) are jets "
        "of F at the mapped point; sqrt is Coq's sqrt",
        "recording integrate/simplify by replacing the names in analysis' module globals (this process only)")
    ctx.assume("integrand builders are value-oblivious (no branch on field/trajectory values)",
        "curves are regular where flux_across_curve is tied (0 < |T|^2 is a hypothesis of those lemmas)")

    # 1. generic integrands -> ties
    lemmas, broken, limits_bad, outputs = generic_lemmas(ctx)
    res = coqrun.prove_lemmas(ctx, "c13", PREAMBLE, lemmas, per_file=6, timeout=600)
    ok = sum(v == "ok" for v in res.values())
    ctx.obligations(len(res) + len(broken), ok)
    ctx.coverage["generic_lemmas"] = len(lemmas)
    ctx.coverage["untranslatable_integrands"] = [b[0] for b in broken]
    ctx.log(f"integrand ties: {ok}/{len(res)} closed, {len(broken)} untranslatable")
    if lemmas:
        ctx.sample({"lemma": lemmas[0].name, "statement": lemmas[0].statement[:400]})
    for name, got, want in limits_bad:
        ctx.violation(f"C13:limits:{name}", f"integration limits handed to integrate for {name} are {got}, expected {want}",
            {"kind": "broken-tie", "theorem_or_tie": f"limits of {name}", "observed": got, "expected": want}, found_input=False)

    # 2. end-to-end exploration
    cases = gen_cases(ctx.rng, ctx.quick)
    bad_funcs = set()
    n_ok = 0
    for c in cases:
        try:
            okc, detail = run_case(c)
        except Exception as e:  # pylint: disable=broad-except
            okc, detail = False, {"exception": f"{type(e).__name__}: {e}"}
        if okc:
            n_ok += 1
        else:
            report_case(ctx, c, detail)
            bad_funcs.update(FUNCS_OF_KIND[c["kind"]])
    ctx.evaluated(len(cases), len({(c["kind"], str(c["field"])) for c in cases}))
    ctx.coverage["e2e_cases"] = len(cases)
    ctx.coverage["e2e_agree"] = n_ok
    ctx.coverage["e2e_kinds"] = {k: sum(c["kind"] == k for c in cases) for k in sorted({c["kind"] for c in cases})}
    if cases:
        ctx.sample({"e2e_case": cases[0]})
    ctx.log(f"end-to-end: {n_ok}/{len(cases)} agree")

    # 2a. history: many fields created and dropped on one shared coordinate-system object, operators interleaved
    seq = history_sequence(ctx.rng, ctx.pick(24, 90))
    hres = run_history(seq)
    ctx.evaluated(len(seq), len({str(c["field"]) for c in seq}))
    ctx.coverage["history_steps"] = len(seq)
    if hres is not None:
        i, detail = hres
        ctx.violation(f"C13:history:step{i}:{seq[i]['kind']}:{seq[i]['field']}",
            f"after {i} other fields were created and dropped on the same CoordinateSystem object, the two computation paths "
            f"disagree ({seq[i]['kind']}) on field {seq[i]['field']}: {detail}",
            {"kind": "history", "item": seq[i]["kind"], "input": {"sequence": seq[:i + 1]}, "observed": detail,
                "failing_step": i, "expected": "every step of the sequence: equal results on both paths, free of coordinate variables",
                "theorem_or_tie": "end-to-end agreement along a history on one shared coordinate system"}, found_input=True)
        bad_funcs.update(FUNCS_OF_KIND[seq[i]["kind"]])
    ctx.log(f"history: {len(seq)} steps on one shared coordinate system, {'all agree' if hres is None else 'step %d fails' % hres[0]}")

    # 2b. probe: value list of expressions in the base scalars
    for c in value_list_probe():
        try:
            okc, detail = run_case(c)
        except Exception as e:  # pylint: disable=broad-except
            okc, detail = False, {"exception": f"{type(e).__name__}: {e}"}
        ctx.evaluated(1, 1)
        if not okc:
            report_case(ctx, c, detail, key=KNOWN_KEY_VALUE_LIST)

    # 3. decide failed / untranslatable ties
    failed = [(lm.name, lm.item, res[lm.name], lm.statement) for lm in lemmas if res.get(lm.name) != "ok"]
    failed += [(n, f, "untranslatable: " + r, "") for n, f, r in broken]
    for name, item, err, st in failed:
        func = next((f for f in ("circulation_along_surface_boundary", "circulation_along_curve", "flux_across_surface_boundary",
            "flux_across_surface", "flux_across_curve", "flux_across_volume_boundary") if f in item), None)
        if func in bad_funcs:
            continue      # a concrete failing input involving this function is already reported
        kinds = [k for k, fs in FUNCS_OF_KIND.items() if func in fs]
        found = False
        pool = gen_cases(ctx.rng, False, only=set(kinds))
        pool = [c for c in pool if c["kind"] == "gauss_curvilinear"] + [c for c in pool if c["kind"] != "gauss_curvilinear"]
        for c in pool[:20]:
            try:
                okc, detail = run_case(c)
            except Exception as e:  # pylint: disable=broad-except
                okc, detail = False, {"exception": f"{type(e).__name__}: {e}"}
            if not okc:
                report_case(ctx, c, detail)
                bad_funcs.update(FUNCS_OF_KIND[c["kind"]])
                found = True
                break
        if not found:
            ctx.violation(f"C13:corr:{name}", f"integrand tie {name} ({item}) is not closed: the integrand built by analysis.py "
                "is no longer the model's integrand", {"kind": "broken-proof", "theorem_or_tie": name, "item": item,
                    "statement": st[:1500], "coq_error": err[-600:], "observed": str(outputs.get(name, ""))}, found_input=False)

    ctx.coverage["rule"] = ("generic: every integrand builder of analysis.py on generic fields x generic curve/surface for "
        "component counts {2,3}x{2,3} (one lemma each), 3 volume elements, reparametrised curve; e2e: seeded polynomial/"
        "trigonometric fields with generic coefficients a b c over discs/ellipses/paraboloid caps (circle boundary), graph "
        "surfaces over rectangles (four segments), rectangles and ellipses for Green, boxes for Gauss, speed/affine "
        "reparametrisation, reversal, parameter exchange; distinct = distinct (kind, field)")


def replay(ctx, rep):
    if rep.get("kind") == "history":
        seq = rep["input"]["sequence"]
        hres = run_history(seq)
        print(f"replay history of {len(seq)} steps on one shared CoordinateSystem object; fields: {[c['field'] for c in seq]}")
        if hres is None:
            print("every step agrees now")
            return 0
        print(f"step {hres[0]} ({seq[hres[0]]['kind']} on {seq[hres[0]]['field']}) still fails: {hres[1]}")
        return 1
    if rep.get("kind") == "e2e":
        c = rep["input"]
        okc, detail = run_case(c)
        print(f"replay {c['kind']} field={c['field']}")
        print("observed:", detail)
        if okc:
            print("the two paths agree now")
            return 0
        print("still failing")
        return 1
    ctx.static(STATIC)
    lemmas, broken, limits_bad, _ = generic_lemmas(ctx)
    name = rep.get("theorem_or_tie")
    sel = [lm for lm in lemmas if lm.name == name] or lemmas
    res = coqrun.prove_lemmas(ctx, "replay", PREAMBLE, sel, per_file=6)
    badl = {k: v for k, v in res.items() if v != "ok"}
    print("lemmas re-checked:", len(res), "failing:", sorted(badl), "untranslatable:", [b[0] for b in broken],
        "limits:", limits_bad)
    return 1 if badl or any(b[0] == name for b in broken) or limits_bad else 0
