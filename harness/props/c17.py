"""C17 -- the plain-text ("code") rendering of formulas is meaning-preserving.

static theorems : coq/theories/Properties/C17.v   (about Model/CodeSyntax.v: the reference reader)
per-formula     : for every expression e with REAL output s = code_str(e) a generated Coq lemma
                    parse_code names s = Some a  /\\  forall phi x.., hyps -> aeval rho phi a = [[e]]
                  ([[e]] = reference reading of the SymPy tree, symbols keyed by display name)
inputs          : (i) the catalogue, exhaustively, in source form as the doc build obtains it
                  (ii) seeded canonical expression trees weighted toward bracket-sensitive shapes"""
from __future__ import annotations

import random
import resource
import signal

import sympy

from vp import coqrun
from vp import render_common as rc

STATIC = ["lex_total", "parse_total", "parse_fuel_monotone", "parse_code_deterministic", "parse_show_toks",
    "parse_show_spelled"]

PARSE_FN = "parse_code"


def code_str(e):
    from symplyphysics.docs.printer_code import code_str as cs  # pylint: disable=import-outside-toplevel
    return cs(e)


def sample_symbols():
    from symplyphysics import Symbol  # pylint: disable=import-outside-toplevel
    return [
        Symbol("a"), Symbol("b", positive=True), Symbol("c", real=True), Symbol("m_1", positive=True),
        Symbol("E_k"), Symbol("x", real=True), Symbol("T", positive=True), Symbol("w_0"),
        sympy.Symbol("y"), sympy.Symbol("z", positive=True), Symbol("n", integer=True), Symbol("t'", real=True),
    ]


def irregular_names(names):
    return sorted({n for n in names if not rc.IDENT.match(n)}, key=lambda n: (-len(n), n))


def make_case(key, origin, expr, vkey, **extra):
    """Render with the real printer and read the original tree with the reference reader."""
    c = {"key": key, "origin": origin, "expr": expr, "vkey": vkey, "sides": None, "names": [], "reason": None}
    c.update(extra)
    try:
        c["s"] = code_str(expr)
    except Exception as e:  # pylint: disable=broad-except
        c["s"] = None
        c["render_error"] = f"{type(e).__name__}: {e}"[:300]
        return c
    try:
        c["clashes"] = {nm: [repr(o) for o in objs] for nm, objs in rc.name_clashes(expr, "code").items()}
    except Exception:  # pylint: disable=broad-except
        c["clashes"] = {}
    rd = rc.Reader("code")
    try:
        c["sides"] = rd.read_top(expr)
        c["special"] = sorted(rd.special)
        c["collisions"] = rd.collisions()
        c["names"] = irregular_names(list(rd.names) + list(rd.heads))
        c["assume"] = dict(rd.assume)
    except rc.Unreadable as e:
        c["sides"] = None
        c["reason"] = f"no reference reading: {e}"
    return c


class _time_limit:
    """SIGALRM guard around one SymPy construction (main thread only; no-op elsewhere)"""

    def __init__(self, seconds):
        self.seconds = seconds
        self.armed = False

    def _raise(self, *_a):
        raise TimeoutError("sample construction took too long")

    def __enter__(self):
        try:
            self.old = signal.signal(signal.SIGALRM, self._raise)
            signal.alarm(self.seconds)
            self.armed = True
        except ValueError:
            self.armed = False
        return self

    def __exit__(self, *exc):
        if self.armed:
            signal.alarm(0)
            signal.signal(signal.SIGALRM, self.old)
        return False


def limit_memory(gb: int = 16):
    """a runaway SymPy evaluation must fail with MemoryError instead of exhausting the machine"""
    try:
        soft, hard = resource.getrlimit(resource.RLIMIT_AS)
        want = gb << 30
        if hard != resource.RLIM_INFINITY:
            want = min(want, hard)
        resource.setrlimit(resource.RLIMIT_AS, (want, hard))
    except (ValueError, OSError):
        pass


MAX_LEN = 110     # longer renderings add proof cost, not bracket shapes


def gen_samples(seed: int, n: int, render=None, symbols=None, max_len=None):
    """Deterministic stream of (index, expression): distinct auto-evaluated trees whose rendering is at most MAX_LEN
    characters.  `index` is the draw number, so a replay can regenerate exactly that expression."""
    render = render or code_str
    max_len = max_len or MAX_LEN
    rng = random.Random(seed)
    gen = rc.ExprGen(rng, symbols or sample_symbols())
    out = []
    seen = set()
    tries = 0
    while len(out) < n and tries < 8 * n:
        tries += 1
        idx = tries
        try:
            with _time_limit(5):
                e = gen.sample()
        except Exception:  # pylint: disable=broad-except
            continue   # SymPy refused to build it (e.g. zoo arithmetic) or took too long
        if not isinstance(e, sympy.Expr) or e.has(sympy.zoo, sympy.nan, sympy.oo, -sympy.oo):
            continue
        if e.is_Number or e.is_Symbol:
            continue
        if any(abs(f._mpf_[2] + f._mpf_[3]) > 400 for f in e.atoms(sympy.Float)):  # pylint: disable=protected-access
            continue   # astronomically large/small float produced by evaluation
        if any(p.exp.is_Integer and abs(p.exp) > 12 for p in e.atoms(sympy.Pow)):
            continue   # x^343: same printer path as x^3, but `ring` would have to expand it
        k = sympy.srepr(e)
        if k in seen:
            continue
        seen.add(k)
        try:
            if len(render(e)) > max_len:
                continue
        except Exception:  # pylint: disable=broad-except
            pass            # a printer exception is reported by the caller
        out.append((idx, e))
    return out


def gen_source_forms(seed: int, n: int, render=None, symbols=None, max_len=None):
    """Deterministic stream of (index, expression) of LAW-STYLE SOURCE FORMS (rc.SourceFormGen): unevaluated trees as
    the doc build sees them, e.g. -a*b/(4*c)/d**2, a/b/c, a*(b + c)/d - e."""
    render = render or code_str
    max_len = max_len or MAX_LEN
    rng = random.Random(seed ^ 0x5F5F)
    gen = rc.SourceFormGen(rng, symbols or sample_symbols())
    out = []
    seen = set()
    tries = 0
    while len(out) < n and tries < 8 * n:
        tries += 1
        try:
            with _time_limit(5):
                e = gen.sample()
        except Exception:  # pylint: disable=broad-except
            continue
        if not isinstance(e, sympy.Expr) or e.is_Atom:
            continue
        k = sympy.srepr(e)
        if k in seen:
            continue
        seen.add(k)
        try:
            if len(render(e)) > max_len:
                continue
        except Exception:  # pylint: disable=broad-except
            pass
        out.append((tries, e))
    return out


def run(ctx):
    limit_memory()
    ctx.level = "translation_validation"
    ctx.static(STATIC)
    ctx.trust("Coq 8.16.1 kernel incl. vm_compute (no native_compute)",
        "harness/vp/render_common.py Reader: reference reading of a SymPy tree (Add/Mul/Pow/functions -> + * ^ calls; "
        "symbols keyed by display name; special heads uninterpreted)",
        "Model/CodeSyntax.v is the definition of 'ordinary arithmetic precedence' (audited by parse_show)",
        "SymPy 1.14 as runtime of the printer (precedence tables, fraction, could_extract_minus_sign)")
    ctx.assume("a Float leaf denotes the decimal it carries at its declared precision (15 significant digits)",
        "one value per printed name: the first object printed under a display name owns its variable; a DIFFERENT symbol of the same category (plain symbols/quantities, bases of indexed families, heads of applied functions) printed under the same name gets a variable of its own that no rendering can mention, so such an equation is refuted, and the clash is also reported per equation (C17:name-clash); a symbol and an indexed base may share a name (m = Sum(m[i], i))",
        "the imaginary unit, oo and heads outside the elementary functions are uninterpreted (statement holds for every "
        "interpretation); matrix products are read as commutative products of uninterpreted lists",
        "value equality is stated on the domain of definition of the ORIGINAL expression over the reals (non-zero "
        "denominators, non-negative radicands, positive bases of non-integer powers, positive log arguments)")

    sub_seed = ctx.rng.getrandbits(48)
    cases = []
    skipped = []

    # (i) catalogue, exhaustive
    items, failures = rc.catalogue_items(ctx.log)
    ctx.coverage["catalogue_modules_failing"] = failures
    for f, msg in failures:
        ctx.violation(f"C17:catalogue-file:{f}", f"documentation source form of {f} cannot be obtained: {msg}",
            {"kind": "broken-tie", "item": f, "error": msg, "theorem_or_tie": "patch_sympy_evaluate + find_members_and_functions"},
            found_input=False)
    n_scope = 0
    out_of_scope = []
    for it in items:
        if "SYMBOL" not in it["directives"]:
            out_of_scope.append(it["key"])
            continue
        n_scope += 1
        cases.append(make_case(it["key"], "catalogue", it["value"], f"C17:{it['key']}"))
    ctx.coverage["catalogue_in_scope"] = n_scope
    # the printer must be a function of the expression: render the catalogue again in reverse order, same process
    n_order = 0
    for c in reversed([c for c in cases if c["origin"] == "catalogue" and c["s"] is not None]):
        try:
            again = code_str(c["expr"])
        except Exception as e:  # pylint: disable=broad-except
            again = f"<raises {type(e).__name__}>"
        n_order += 1
        if again != c["s"]:
            ctx.violation(f"C17:order:{c['key']}", f"rendering of {c['key']} depends on what was printed before: "
                f"{c['s']!r} in catalogue order, {again!r} when printed again in reverse order",
                {"kind": "violation", "item": c["key"], "origin": "catalogue", "rendering": c["s"],
                 "rendering_second_pass": again, "original": str(c["expr"])}, found_input=True)
    ctx.coverage["order_independence_rerenders"] = n_order
    ctx.coverage["catalogue_out_of_scope_no_symbol_directive"] = out_of_scope

    # (ii) canonical expression space, sampled
    n_samples = ctx.pick(1000, 20000)
    for idx, e in gen_samples(sub_seed, n_samples):
        c = make_case(f"sample#{idx}", "sample", e, None, sample_index=idx, srepr=sympy.srepr(e))
        c["vkey"] = f"C17:expr:{c['s']}" if c["s"] is not None else f"C17:expr-raises:{sympy.srepr(e)[:300]}"
        cases.append(c)
    # (iii) law-style source forms (evaluation disabled), sampled
    n_src = ctx.pick(400, 4000)
    for idx, e in gen_source_forms(sub_seed, n_src):
        c = make_case(f"source#{idx}", "source", e, None, sample_index=idx, srepr=sympy.srepr(e))
        c["vkey"] = f"C17:source:{c['s']}" if c["s"] is not None else f"C17:source-raises:{sympy.srepr(e)[:300]}"
        cases.append(c)
    # (iv) curated shape classes, every tier and seed
    for label, e in rc.curated_expressions(sample_symbols()):
        c = make_case(f"curated:{label}", "curated", e, f"C17:curated:{label}", srepr=sympy.srepr(e))
        cases.append(c)
    ctx.coverage["curated_cases"] = sum(1 for c in cases if c["origin"] == "curated")
    ctx.log(f"{len(cases)} cases built")

    # rendering failures
    live = []
    for c in cases:
        for nm, objs in (c.get("clashes") or {}).items():
            ctx.violation(f"C17:name-clash:{c['key']}:{nm}", f"{len(objs)} different symbols of {c['key']} are shown under "
                f"the same display name {nm!r}: read with one value per printed name the rendering {c['s']!r} cannot "
                f"denote the expression for all values", {"kind": "violation", "item": c["key"], "origin": c["origin"],
                "shared_name": nm, "symbols": objs, "rendering": c["s"], "original": str(c["expr"]),
                "sample_index": c.get("sample_index")}, found_input=True)
        if c["s"] is None:
            ctx.violation(c["vkey"] or f"C17:{c['key']}", f"code_str raises on {c['key']}: {c['render_error']}",
                {"kind": "violation", "item": c["key"], "original": str(c["expr"]), "error": c["render_error"]}, True)
        else:
            live.append(c)
    cases = live

    validate(ctx, cases, skipped)


def validate(ctx, cases, skipped):
    rc.parse_pass(ctx, "c17", PARSE_FN, cases)
    ctx.log("parse pass done")
    rc.classify_and_build("C17", cases, PARSE_FN)
    lemmas = []
    n_struct = 0
    special_hist = {}
    collisions = {}
    for c in cases:
        for h in c.get("special") or []:
            special_hist[h] = special_hist.get(h, 0) + 1
        if c.get("collisions"):
            collisions[c["key"]] = c["collisions"]
        if c["status"] == "bad":
            what, found = c["bad"]
            ctx.violation(c["vkey"], f"{c['key']}: {what}", {"kind": "violation", "item": c["key"], "origin": c["origin"],
                "rendering": c["s"], "original": str(c["expr"]), "parsed_as": c.get("parsed_text"),
                "sample_index": c.get("sample_index")}, found_input=found)
        elif c["status"] == "structure_only":
            n_struct += 1
            entry = {"item": c["key"], "rendering": c["s"], "reason": c.get("reason") or "no semantic reading"}
            entry["numeric_check"] = rc.numeric_only_check(ctx, c, random.Random(ctx.seed + 2))
            skipped.append(entry)
        else:
            lemmas.append(c)
    pre_rng = random.Random(ctx.seed + 3)
    n_pre = 0
    kept = []
    for c in lemmas:
        if rc.precheck(ctx, c, pre_rng):
            n_pre += 1
        else:
            kept.append(c)
    lemmas = kept
    ctx.coverage["refuted_numerically_before_coq"] = n_pre
    ctx.log(f"{len(lemmas)} lemmas, {n_struct} structure-only, {n_pre} refuted numerically")
    res = rc.prove_all(ctx, "c17", rc.PREAMBLE, [c["lemma"] for c in lemmas], per_file=40, timeout=900)
    ok = 0
    rng = random.Random(ctx.seed + 1)
    for c in lemmas:
        r = res.get(c["lemma"].name, "missing")
        if r == "ok":
            ok += 1
        else:
            rc.decide_failed(ctx, "C17", c, r, rng)
    ctx.obligations(len(lemmas), ok)
    first_ok = next((c["lemma"] for c in lemmas if res.get(c["lemma"].name) == "ok"), None)
    if first_ok is not None:
        rc.measure_axioms(ctx, rc.PREAMBLE, first_ok)
    cat = [c for c in cases if c["origin"] == "catalogue"]
    smp = [c for c in cases if c["origin"] == "sample"]
    src = [c for c in cases if c["origin"] == "source"]
    ctx.coverage["source_form_cases"] = len(src)
    bracket = sum(1 for c in smp if "(" in c["s"])
    ctx.evaluated(len(cases), len({c["s"] for c in cases if ("(" in c["s"] or "-" in c["s"] or "/" in c["s"] or "^" in c["s"])}))
    ctx.coverage["programs"] = len(cases)
    ctx.coverage["disagreements_checked"] = len(lemmas) - ok
    ctx.coverage["catalogue_cases"] = len(cat)
    ctx.coverage["catalogue_exhaustive"] = True
    ctx.coverage["sample_cases"] = len(smp)
    ctx.coverage["samples_with_brackets"] = bracket
    ctx.coverage["with_uninterpreted_heads"] = sum(1 for c in lemmas if c.get("special"))
    ctx.coverage["special_heads_histogram"] = dict(sorted(special_hist.items()))
    ctx.coverage["structure_only"] = n_struct
    ctx.coverage["skipped_items"] = skipped
    ctx.coverage["display_name_collisions"] = collisions
    ctx.coverage["rule"] = ("catalogue: every documented member whose docstring carries :laws:symbol::, in source form "
        "(patched AST executed as the doc build does), exhaustive; samples: seeded auto-evaluated trees (ExprGen) over 12 "
        "symbols, integers, rationals, floats, powers, roots, quotients, elementary functions and 22 bracket-sensitive "
        "templates, distinct by srepr; source forms: seeded law-style expressions built with evaluation disabled "
        "(SourceFormGen: chained products/quotients with signs, bracketed sums as factors, powers, functions); "
        "distinct_nontrivial = distinct renderings containing a bracket, sign, quotient or power")
    for c in (cat[:2] + smp[:3] + src[:2]):
        ctx.sample({"item": c["key"], "rendering": c["s"], "original": str(c["expr"]),
            "lemma": (c["lemma"].statement[:600] if c.get("lemma") else None), "status": c["status"]})


def replay(ctx, rep):
    """Re-render the item with the real printer, re-parse it in Coq and evaluate both readings at the valuation."""
    item = rep.get("item", "")
    expr = None
    if rep.get("origin") in ("sample", "source") or item.startswith(("sample#", "source#")):
        rng_ctx = random.Random(rep["seed"])
        sub_seed = rng_ctx.getrandbits(48)
        quick = rep.get("tier", "quick") == "quick"
        if rep.get("origin") == "source" or item.startswith("source#"):
            stream = gen_source_forms(sub_seed, 400 if quick else 4000)
        else:
            stream = gen_samples(sub_seed, 1000 if quick else 20000)
        for idx, e in stream:
            if idx == rep.get("sample_index"):
                expr = e
                break
    elif rep.get("origin") == "curated" or item.startswith("curated:"):
        for label, e in rc.curated_expressions(sample_symbols()):
            if f"curated:{label}" == item:
                expr = e
    else:
        items, _ = rc.catalogue_items()
        for it in items:
            if it["key"] == item:
                expr = it["value"]
    if expr is None:
        print(f"cannot find item {item}")
        return 2
    c = make_case(item, rep.get("origin", "catalogue"), expr, rep.get("key"))
    print("original   :", expr)
    print("rendering  :", c["s"], "(recorded:", rep.get("rendering"), ")")
    clash = 0
    for nm, objs in (c.get("clashes") or {}).items():
        print(f"{len(objs)} different symbols are shown under the same name {nm!r}: {objs}")
        clash = 1
    if clash:
        return 1
    if c["s"] is None or c["sides"] is None:
        print("no rendering / no reading:", c.get("render_error"), c.get("reason"))
        return 1
    rc.parse_pass(ctx, "c17_replay", PARSE_FN, [c])
    if c["parsed"] is None:
        print("rendering does not parse under the reference grammar")
        return 1
    print("parsed as  :", rc.aexpr_show(c["parsed"]))
    rc.classify_and_build("C17", [c], PARSE_FN)
    bad = rc.replay_values(c, rep.get("valuation"))
    if c["status"] != "lemma":
        print("status:", c["status"], c.get("bad"), c.get("reason"))
        return 1 if (c["status"] == "bad" or bad) else 0
    res = coqrun.prove_lemmas(ctx, "c17_replay", rc.PREAMBLE, [c["lemma"]], per_file=1)
    print("lemma:", res)
    return 1 if bad or any(v != "ok" for v in res.values()) else 0
