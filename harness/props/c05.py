"""C05 -- quantity construction computes the SI value and dimension, or refuses.

static theorems : coq/theories/Properties/C05.v  (about Model/CollectQ.v)
tie             : correspondence -- collect_quantity_factor_and_dimension and Quantity(...) vs the Gallina
                  model on seeded expression trees (valid / malformed / boundary streams)."""
from __future__ import annotations

from fractions import Fraction

import sympy
from sympy import S, Abs, Add, Derivative, Float, Integer, Max, Min, Mul, Pow, Rational, cos, exp, log, oo, nan, sin, sqrt, zoo
from sympy.physics import units
from sympy.physics.units import Quantity as SymQuantity
from sympy.physics.units.prefixes import Prefix

from vp import common, coqrun, qx
from props.c04 import rand_dimvec as _rand_dimvec4, unit_expr_from_vec as _unit_expr4, dimension_from_vec, base_units


def rand_dimvec(rng, with_angle=False):
    """integer exponents mostly; half-integers only where the unit expression below keeps scales exact"""
    vec = [Fraction(0)] * 7
    for _ in range(rng.choice([0, 1, 1, 2, 2, 3])):
        vec[rng.randrange(7)] += rng.choice([Fraction(n) for n in (-3, -2, -1, 1, 2, 3)] + [Fraction(1, 2), Fraction(-1, 2)])
    return tuple(vec), Fraction(0)


def unit_expr_from_vec(vec, ang, rng, exact_roots=False):
    """integer exponents: any base/derived/prefixed unit; fractional exponents: only units of scale 1 in SymPy's
    gram-based table (meter, gram, second, ampere, kelvin, mole, candela) so that scale factors stay rational"""
    if all(x.denominator == 1 for x in vec) and not exact_roots:
        return _unit_expr4(vec, ang, rng)
    u = units
    e = S.One
    for b, x in zip([u.meter, u.gram, u.second, u.ampere, u.kelvin, u.mole, u.candela], vec):
        if x != 0:
            e = e * b**Rational(x.numerator, x.denominator)
    return e

# exact rationals only: a Float times a non-dyadic rational (centimeter = 1/100, milli = 1/1000) rounds, and the
# model's arithmetic is exact; floats are exercised by the dedicated float stream (compared with a tolerance)
MAGS = [1, 2, 3, 5, -1, -2, Rational(1, 2), Rational(-3, 4), Rational(3, 2), Rational(-9, 4), 4, 9, Rational(1, 4),
    10**6, Rational(1, 10**6), 7, 11, 13]
ZERO = tuple(Fraction(0) for _ in range(7))


def vadd(a, b):
    return tuple(x + y for x, y in zip(a, b))


def vscale(a, k):
    return tuple(x * k for x in a)


def reduced_dimensionless(rng, n):
    """A product/quotient of quantities of DERIVED dimensions whose dimension is dimensionless only after reduction to
    base dimensions (e.g. energy/(force*length)), with exact value n."""
    from symplyphysics import Quantity  # pylint: disable=import-outside-toplevel
    u = units
    num, den = rng.choice([(u.joule, u.newton * u.meter), (u.watt * u.second, u.joule), (u.pascal * u.meter**2, u.newton),
        (u.volt * u.coulomb, u.joule), (u.newton * u.meter, u.watt * u.second)])
    k = rng.choice([1, 2, 5])
    return Quantity(n * k * num) / Quantity(k * den)


class Gen:
    def __init__(self, rng, p_bad=0.0):
        self.rng = rng
        self.p_bad = p_bad
        self.opaque_used = False

    def mag(self):
        return self.rng.choice(MAGS)

    def leaf(self, vec):
        from symplyphysics import Quantity  # pylint: disable=import-outside-toplevel
        rng = self.rng
        r = rng.random()
        if all(x == 0 for x in vec) and r < 0.5:
            k = rng.random()
            if k < 0.6:
                return sympy.sympify(self.mag())
            if k < 0.8:
                from sympy.physics.units.prefixes import kibi, mebi, gibi  # pylint: disable=import-outside-toplevel
                return rng.choice([units.kilo, units.milli, units.mega, units.micro, kibi, mebi, gibi, units.deci, units.hecto]) * self.mag()
            return Quantity(self.mag())
        if r < 0.08:
            # a zero-valued term (any dimension); +-oo / nan / 0.0 terms live in the curated boundary stream because
            # SymPy's arithmetic on them inside deep trees (zoo, float contamination) is outside the modelled domain
            return Quantity(S.Zero, dimension=dimension_from_vec(vec, Fraction(0), rng))
        if r < 0.55:
            return Quantity(self.mag() * unit_expr_from_vec(vec, 0, rng))
        return self.mag() * unit_expr_from_vec(vec, 0, rng)

    def other_vec(self, vec):
        for _ in range(10):
            v2, _a = rand_dimvec(self.rng, with_angle=False)
            if v2 != vec:
                return v2
        return vec

    def expr(self, vec, depth):
        rng = self.rng
        if depth <= 0 or rng.random() < 0.25:
            return self.leaf(vec)
        r = rng.random()
        if r < 0.30:   # sum
            n = rng.choice([2, 2, 3, 4])
            terms = []
            for _ in range(n):
                v = self.other_vec(vec) if rng.random() < self.p_bad else vec
                terms.append(self.expr(v, depth - 1))
            return Add(*terms, evaluate=rng.random() < 0.5)
        if r < 0.55:   # product
            v1, _a = rand_dimvec(rng, with_angle=False)
            v2 = tuple(x - y for x, y in zip(vec, v1))
            return Mul(self.expr(v1, depth - 1), self.expr(v2, depth - 1), evaluate=rng.random() < 0.7)
        if r < 0.72:   # power
            if rng.random() < self.p_bad:
                return Pow(self.expr(vec, depth - 1), self.expr(self.other_vec(ZERO), 0))
            n = rng.choice([2, 3, -1, -2, 2, Rational(1, 2)])
            if n != Rational(1, 2) and rng.random() < 0.25:
                # the exponent is a quantity expression that is dimensionless only after reduction to base dimensions
                return Pow(self.expr(vscale(vec, Fraction(1, n)), depth - 1), reduced_dimensionless(rng, n))
            if n == Rational(1, 2):
                from symplyphysics import Quantity  # pylint: disable=import-outside-toplevel
                s = rng.choice([1, 2, 3, Rational(1, 2), 5])
                base = Quantity(s * s * unit_expr_from_vec(tuple(x + Fraction(0, 1) for x in vscale(vec, 2)), 0, rng, exact_roots=True))
                return Pow(base, n)
            nn = Fraction(int(n.p), int(n.q)) if isinstance(n, Rational) else Fraction(n)
            return Pow(self.expr(vscale(vec, 1 / nn), depth - 1), n)
        if r < 0.80:
            return Abs(self.expr(vec, depth - 1))
        if r < 0.90:
            cls = rng.choice([Min, Max])
            n = rng.choice([2, 3])
            terms = [self.expr(self.other_vec(vec) if rng.random() < self.p_bad else vec, depth - 1) for _ in range(n)]
            return cls(*terms, evaluate=False)
        if all(x == 0 for x in vec) and not self.opaque_used:
            self.opaque_used = True
            if rng.random() < 0.3:
                # a function of two arguments (one of them possibly dimensional in the malformed stream)
                a1 = self.expr(self.other_vec(ZERO) if rng.random() < self.p_bad else ZERO, 0)
                a2 = self.expr(self.other_vec(ZERO) if rng.random() < self.p_bad else ZERO, depth - 1)
                return sympy.besselj(a1, a2) if rng.random() < 0.5 else sympy.atan2(a1, a2, evaluate=False)
            f = rng.choice([sin, cos, exp, log])
            if rng.random() < 0.3 and not rng.random() < self.p_bad:
                return f(reduced_dimensionless(rng, rng.choice([1, 2, 3])))
            arg = self.expr(self.other_vec(ZERO) if rng.random() < self.p_bad else ZERO, depth - 1)
            return f(arg)
        return self.leaf(vec)


def in_modelled_domain(expr) -> bool:
    """Every intermediate value (computed bottom-up by plain SymPy arithmetic on scale factors, not by the collectors)
    is an exact rational, except the result of the single elementary-function node and what is built on top of it by
    + and *; Min/Max/Abs/Pow never see such an opaque value."""
    def walk(e):
        """(ok, value)"""
        if isinstance(e, (SymQuantity, Prefix)):
            v = e.scale_factor
            return qx.val_class(v)[0] == "Q", v
        if not e.args:
            k = qx.val_class(e)[0]
            return k in ("Q", "Sym"), e
        vals = []
        for a in e.args:
            ok, v = walk(a)
            if not ok:
                return False, None
            vals.append(v)
        if isinstance(e, Pow) and getattr(vals[1], "is_number", False) and abs(vals[1]) > 12:
            return False, None   # huge powers: outside anything the catalogue does, and slow
        if isinstance(e, Pow) and getattr(vals[1], "is_Rational", False) and not vals[1].is_Integer and getattr(vals[0], "is_Rational", False) \
                and max(abs(vals[0].p), vals[0].q) > 10**15:
            return False, None   # a root of a huge rational: SymPy factors the number first (minutes)
        try:
            v = e.func(*vals)
            k = qx.val_class(v)[0]
        except Exception:  # pylint: disable=broad-except
            return False, None
        if k == "Sym" and isinstance(e, sympy.Function) and not getattr(v, "free_symbols", None):
            return False, None   # a closed function value SymPy cannot evaluate numerically (besselj(1500, 5120): hypsum does not converge)
        opaque_args = any(qx.val_class(x)[0] == "Other" for x in vals)
        if isinstance(e, (Abs, sympy.Min, sympy.Max, Pow)) and opaque_args:
            return False, None
        if opaque_args and k != "Other":
            return False, None   # the opaque value cancelled or was absorbed: the model cannot know
        if k in ("Q", "Sym"):
            return True, v
        if k != "Other":
            return False, None
        if isinstance(e, (Add, Mul)) or isinstance(e, sympy.Function):
            return True, v
        return False, None
    try:
        with common.time_limit(5):
            return walk(sympy.sympify(expr))[0]
    except common.SlowEvaluation:
        return False   # SymPy itself needs more than 5 s to evaluate the tree on plain numbers (e.g. a root of a 60-digit integer)


def malformed(rng):
    from symplyphysics import Quantity, Symbol  # pylint: disable=import-outside-toplevel
    x = sympy.Symbol("free_x")
    t = sympy.Symbol("t")
    f = sympy.Function("f")
    k = rng.randrange(8)
    if k == 0:
        return x * units.meter
    if k == 1:
        return Quantity(2 * units.meter) + x
    if k == 2:
        return Derivative(f(t), t) * units.second
    if k == 3:
        return 2**units.meter
    if k == 4:
        return sin(Quantity(3 * units.meter))
    if k == 5:
        return Quantity(1 * units.meter) + Quantity(1 * units.second)
    if k == 6:
        return Symbol("s", units.length) * 2
    return exp(Quantity(2 * units.second)) * units.meter


def boundary(rng, k=None):
    from symplyphysics import Quantity  # pylint: disable=import-outside-toplevel
    m, s, kg = units.meter, units.second, units.kilogram
    a, b, c = Quantity(1 * m), Quantity(-1 * m), Quantity(1 * s)
    z, zs = Quantity(0), Quantity(0 * s)
    inf = Quantity(oo, dimension=units.length)
    cases = [
        lambda: Add(a, b, c, evaluate=False),                 # cancelling prefix, then another dimension: must refuse
        lambda: Add(c, a, b, evaluate=False),
        lambda: Add(z, a, zs, evaluate=False),
        lambda: Add(z, zs, evaluate=False),
        lambda: Min(a, z, c, evaluate=False),
        lambda: Max(b, zs, a, evaluate=False),
        lambda: Pow(Min(Quantity(4 * m**2), z, evaluate=False), Rational(1, 2)),
        lambda: units.kilo * units.joule,
        lambda: (units.milli * units.newton)**2,
        # binary prefixes: the scale is a power of TWO (Prefix.base), kept as a Prefix node in `number * prefix * unit`
        lambda: Mul(3, sympy.physics.units.prefixes.kibi, units.meter, evaluate=False),
        lambda: 5 * sympy.physics.units.prefixes.kibi,
        lambda: sympy.physics.units.prefixes.gibi**2 * units.second,
        lambda: 4 * sympy.physics.units.prefixes.mebi * units.joule,
        lambda: Quantity(4 * m**3 / s)**Rational(3, 2),
        lambda: Add(inf, a, evaluate=False),
        lambda: Mul(z, units.meter, units.second, evaluate=False),
        lambda: Quantity(nan, dimension=units.time) + Quantity(2 * units.kelvin),
        lambda: Quantity(Float(0.0)) + Quantity(3 * kg),
        lambda: Abs(Quantity(-5 * units.volt)),
        lambda: 2**Quantity(0 * m),
        lambda: sympy.zoo,
        lambda: Quantity(9 * m)**reduced_dimensionless(rng, 2),
        lambda: exp(reduced_dimensionless(rng, 1)) * units.second,
        lambda: Quantity(sympy.zoo) * units.meter,
        # exact magnitudes outside the range of a double are finite and non-zero: not "any dimension"
        lambda: Add(Quantity(Rational(1, 10**400) * m), Quantity(1 * s), evaluate=False),
        lambda: Add(Quantity(Integer(10)**400 * m), Quantity(1 * s), evaluate=False),
        lambda: Mul(Quantity(Rational(1, 10**200) * m), Quantity(Rational(1, 10**200) * m), evaluate=False),
        lambda: sin(Quantity(Rational(1, 10**400) * m)),
        lambda: Quantity(Integer(10)**400 * m) + Quantity(3 * m),
        # functions of several arguments: EVERY argument must be of any dimension or dimensionless
        lambda: sympy.besselj(0, Quantity(3 * m)),
        lambda: sympy.besselj(Quantity(2), Quantity(3 * units.joule) / Quantity(1 * units.newton * m)),
        lambda: sympy.atan2(Quantity(0 * m), Quantity(2 * s), evaluate=False),
        lambda: sympy.atan2(Quantity(2), Quantity(0 * s), evaluate=False),
        lambda: 1 + sympy.besselj(2, Quantity(3 * m) / 2)**2,
        # a factor of any dimension does not excuse the factors after it
        lambda: Mul(zs, sin(Quantity(1 * m)), evaluate=False),
        lambda: Mul(z, sympy.Symbol("free_x"), evaluate=False),
        lambda: Mul(Quantity(0 * m), inf, evaluate=False),
        lambda: Mul(inf, Quantity(-2 * m), evaluate=False),
        lambda: Mul(z, 2**Quantity(3 * s), evaluate=False),
        lambda: Mul(Quantity(nan, dimension=units.mass), Quantity(1 * m) + Quantity(1 * s), evaluate=False),
    ]
    if k is None:
        k = rng.randrange(len(cases))
    return cases[k % len(cases)]()


# ---- "built by ordinary evaluation" stream -----------------------------------------------------------
# The property speaks about the expression the user wrote.  When it is built with SymPy's ordinary evaluation, SymPy consults
# the assumptions symplyphysics' Quantity class publishes about itself (quantities.py: _eval_is_positive, _eval_Abs, ...) and
# may rewrite Max(q, 0) -> q before the collector sees anything.  Here an ABSTRACT tree is built twice -- unevaluated in a
# fixed order (what the model reads) and by ordinary evaluation (what Quantity(...) receives) -- and the two must agree on
# the value and, unless that value is of any dimension, on the dimension.

EXTREME_SIGNED = [Rational(1, 10**30), -Rational(1, 10**30), Integer(10)**30, -Integer(10)**30, Rational(-5, 3), Rational(7, 9)]
EV_VALUES = [0, 1, 3, -3, Rational(1, 2), Rational(-7, 2), 5, -1, oo, -oo, oo, 10**6]


def ev_tree(rng, vec, depth):
    from symplyphysics import Quantity  # pylint: disable=import-outside-toplevel
    if depth <= 0 or rng.random() < 0.3:
        r = rng.random()
        if r < 0.15:
            return ("num", S.Zero)
        if r < 0.25 and all(x == 0 for x in vec):
            return ("num", sympy.sympify(rng.choice([1, -2, 3, Rational(1, 2)])))
        v = rng.choice(EV_VALUES)
        # every leaf is a fresh Quantity object (a fresh SymPy symbol): no two leaves can cancel symbolically
        return ("q", Quantity(v * unit_expr_from_vec(vec, 0, rng)) if v not in (oo, -oo)
            else Quantity(v, dimension=dimension_from_vec(vec, Fraction(0), rng)))
    r = rng.random()
    if r < 0.25:
        return ("add", [ev_tree(rng, vec, depth - 1) for _ in range(rng.choice([2, 3]))])
    if r < 0.40:
        v1, _a = rand_dimvec(rng)
        v1 = tuple(Fraction(int(x)) for x in v1)
        return ("mul", [ev_tree(rng, v1, depth - 1), ev_tree(rng, tuple(x - y for x, y in zip(vec, v1)), depth - 1)])
    if r < 0.50 and all(x.denominator == 1 and x % 2 == 0 for x in vec):
        return ("pow", ev_tree(rng, vscale(vec, Fraction(1, 2)), depth - 1), 2)
    if r < 0.60:
        return ("abs", ev_tree(rng, vec, depth - 1))
    return (rng.choice(["min", "max"]), [ev_tree(rng, vec, depth - 1) for _ in range(rng.choice([2, 2, 3]))])


def ev_build(t, evaluate):
    k = t[0]
    if k in ("num", "q"):
        return t[1]
    if k == "pow":
        return Pow(ev_build(t[1], evaluate), t[2], evaluate=evaluate)
    if k == "abs":
        return Abs(ev_build(t[1], evaluate), evaluate=evaluate)
    args = [ev_build(a, evaluate) for a in t[1]]
    cls = {"add": Add, "mul": Mul, "min": Min, "max": Max}[k]
    return cls(*args, evaluate=evaluate) if evaluate is False else cls(*args)


def ev_value(t):
    """value of the abstract tree by plain SymPy arithmetic on scale factors; None when zoo / nan appears anywhere (SymPy's Min/Max
    refuse nan, and products 0*oo depend on evaluation order) -- such trees are not generated"""
    k = t[0]
    if k == "num":
        return t[1]
    if k == "q":
        return sympy.sympify(t[1].scale_factor)
    if k == "pow":
        v = ev_value(t[1])
        r = None if v is None else v**t[2]
    elif k == "abs":
        v = ev_value(t[1])
        r = None if v is None else Abs(v)
    else:
        vs = [ev_value(a) for a in t[1]]
        if any(v is None for v in vs):
            return None
        r = {"add": Add, "mul": Mul, "min": Min, "max": Max}[k](*vs)
    if r is None or r in (nan, zoo) or not (r.is_Rational or r in (oo, -oo)):
        return None
    return r


def evalbuild_cases(ctx, n):
    from symplyphysics import Quantity  # pylint: disable=import-outside-toplevel
    from symplyphysics.core.dimensions import collect_quantity_factor_and_dimension as cq  # pylint: disable=import-outside-toplevel
    rng = ctx.rng
    m = units.meter
    fixed = [
        ("max", [("q", Quantity(oo, dimension=units.length)), ("num", S.Zero)]),
        ("min", [("q", Quantity(oo, dimension=units.length)), ("num", S.Zero)]),
        ("max", [("num", S.Zero), ("q", Quantity(oo * m)), ("q", Quantity(-5 * m))]),
        ("min", [("q", Quantity(-oo, dimension=units.time)), ("num", S.Zero)]),
        ("max", [("q", Quantity(-oo, dimension=units.time)), ("q", Quantity(0))]),
        ("add", [("q", Quantity(3 * m)), ("max", [("q", Quantity(oo * m)), ("num", S.Zero)])]),
        ("abs", ("q", Quantity(-oo, dimension=units.mass))),
        ("max", [("q", Quantity(3 * m)), ("num", S.Zero)]),
        ("max", [("q", Quantity(-Rational(1, 10**400) * m)), ("num", S.Zero)]),      # below the double range: -0.0 as a float
        ("min", [("q", Quantity(-Rational(1, 10**400) * m)), ("num", S.Zero)]),
        ("min", [("q", Quantity(Integer(10)**400 * m)), ("num", S.Zero)]),
        ("min", [("q", Quantity(-3 * m)), ("num", S.Zero)]),
        ("max", [("q", Quantity(0 * m)), ("num", S.Zero)]),
        ("pow", ("abs", ("q", Quantity(-2 * m))), 2),
        ("abs", ("mul", [("q", Quantity(-2 * m)), ("q", Quantity(3 * units.second))])),
        ("min", [("abs", ("q", Quantity(-2 * m))), ("q", Quantity(1 * m)), ("num", S.Zero)]),
    ]
    out, skipped = [], 0
    trees = list(fixed)
    # terms of inequivalent dimensions written under Min / Max / + and built by ordinary evaluation: SymPy asks the quantities
    # to compare themselves (quantities.py `_eval_is_ge`); quantities of inequivalent dimensions are not comparable, the node
    # stays as written and construction is refused.  Only finite non-zero leaves: a zero or infinite term legitimately decides
    # a Min/Max whatever its dimension (it is of any dimension).
    def mixed(kind, k):
        vec, _a = rand_dimvec(rng)
        vec = tuple(Fraction(int(x)) for x in vec)
        for _ in range(10):
            other, _a = rand_dimvec(rng)
            other = tuple(Fraction(int(x)) for x in other)
            if other != vec:
                break
        # all leaves of one sign: with mixed signs SymPy orders the terms by their sign claims alone, whatever the dimensions
        # (known finding C05:evalbuild:sign-decided, see the two curated cases below)
        sgn = rng.choice([1, -1])
        finite = [sgn * abs(v) for v in EV_VALUES if v not in (0, oo, -oo)]
        kids = [("q", Quantity(rng.choice(finite) * unit_expr_from_vec(vec, 0, rng))) for _ in range(k)]
        kids.insert(rng.randrange(len(kids) + 1), ("q", Quantity(rng.choice(finite) * unit_expr_from_vec(other, 0, rng))))
        t = (kind, kids)
        w = rng.random()
        if w < 0.2:
            return ("abs", t)
        if w < 0.4:
            return ("mul", [("q", Quantity(2 * units.meter)), t])
        return t
    trees += [("max", [("q", Quantity(1 * m)), ("q", Quantity(2 * units.second))]),
              ("min", [("q", Quantity(5 * m)), ("q", Quantity(2 * units.second)), ("q", Quantity(7 * m))]),
              ("max", [("q", Quantity(-1 * units.kilogram)), ("q", Quantity(-2 * units.second))]),
              # mixed signs (known finding): decided by SymPy from `is_positive` / `is_negative` before any dimension is looked at
              ("named", "sign-decided:Max(Quantity(-1 kg), Quantity(2 s))", ("max", [("q", Quantity(-1 * units.kilogram)), ("q", Quantity(2 * units.second))])),
              ("named", "sign-decided:Min(Quantity(-3 m), Quantity(2 s))", ("min", [("q", Quantity(-3 * m)), ("q", Quantity(2 * units.second))]))]
    for _ in range(max(20, n // 5)):
        t = mixed(rng.choice(["min", "max", "max", "min", "add"]), rng.choice([1, 2, 3]))
        trees.append(t)
    for _ in range(n):
        vec, _a = rand_dimvec(rng)
        vec = tuple(Fraction(int(x)) for x in vec)
        trees.append(ev_tree(rng, vec, rng.choice([1, 2, 2, 3])))
    for t in trees:
        name = None
        if t[0] == "named":
            name, t = t[1], t[2]
        if ev_value(t) is None:
            skipped += 1
            continue
        try:
            un = ev_build(t, False)
            lit = qx.qexpr_lit(un)
            obs = qx.cres_of_impl(cq, un)
            olit = qx.cres_lit(obs)
        except (qx.Unsupported, Exception):  # pylint: disable=broad-except
            skipped += 1
            continue

        def ctor(t=t):
            q = Quantity(ev_build(t, True))
            return q.scale_factor, q.dimension
        try:
            obs2 = qx.cres_of_impl(ctor)
            o2lit = qx.cres_lit(obs2)
        except qx.Unsupported:
            skipped += 1
            continue
        try:
            shown = str(ev_build(t, True))
        except Exception as e:  # pylint: disable=broad-except
            shown = f"<building raised {type(e).__name__}: {e}>"
        out.append({"lit": f"({lit}, {olit}, {o2lit})", "expr": un, "obs": obs, "obs2": obs2, "stream": "evalbuild",
            "desc": f"{un} with { {str(q): str(q.scale_factor) for q in un.atoms(SymQuantity)} }, built by evaluation as {shown}",
            "value": str(ev_value(t)), "name": name})
    return out, skipped


def sign_cases(ctx, n):
    """Quantity(...).is_positive on seeded values of every class vs Model/QSign.qty_is_positive"""
    from symplyphysics import Quantity  # pylint: disable=import-outside-toplevel
    rng = ctx.rng
    vals = [S.Zero, Float(0.0), oo, -oo, nan, zoo, Integer(1), Integer(-1), Rational(1, 10**400), -Rational(1, 10**400),
        Integer(10)**400, -Integer(10)**400, Float(2.5), Float(-2.5), Rational(-3, 7)]
    for _ in range(n):
        vals.append(rng.choice(MAGS + EXTREME_SIGNED))
    out = []
    for v in vals:
        vec, _a = rand_dimvec(rng)
        try:
            q = Quantity(v, dimension=dimension_from_vec(tuple(Fraction(int(x)) for x in vec), Fraction(0), rng))
            claim = q.is_positive
            cls = qx.val_class(q.scale_factor)
        except Exception as e:  # pylint: disable=broad-except
            continue
        if cls[0] in ("Other",):
            continue
        olit = "None" if claim is None else ("(Some true)" if claim else "(Some false)")
        out.append({"lit": f"({qx.val_lit(cls)}, {olit})", "desc": f"Quantity({v}).is_positive = {claim}", "claim": claim, "value": str(v)})
    return out


def interpreter_modes(ctx):
    """What Quantity(...) computes and registers must not depend on the interpreter mode: fixed constructions are run in child
    interpreters started as python and python -O (SymPy 1.14 does not import under -OO) and compared with the values the
    property fixes."""
    import json as _json  # pylint: disable=import-outside-toplevel
    import os  # pylint: disable=import-outside-toplevel
    import subprocess  # pylint: disable=import-outside-toplevel
    from vp import c05_probe  # pylint: disable=import-outside-toplevel
    probe = str(common.VERIF / "harness" / "vp" / "c05_probe.py")
    env = dict(os.environ, PYTHONPATH=str(common.REPO), PYTHONDONTWRITEBYTECODE="1")
    n = 0
    for flags in ([], ["-O"]):
        mode = ("python " + " ".join(flags)).strip()
        try:
            r = subprocess.run([common.PYTHON, *flags, probe], capture_output=True, text=True, timeout=600, env=env, check=False)
            data = _json.loads(r.stdout)
        except Exception as e:  # pylint: disable=broad-except
            ctx.violation(f"C05:modes:{mode}:probe-failed", f"the construction probe did not run under `{mode}`: {type(e).__name__}: {e}"[:300],
                {"kind": "broken-tie", "mode": mode}, found_input=False)
            continue
        for row in data["results"]:
            n += 1
            name, want = row[0], c05_probe.EXPECTED[row[0]]
            if isinstance(want, str):
                ok = len(row) == 2 and row[1] == want
                got = row[1:]
            else:
                ok = len(row) == 5 and row[1] == want[0] and row[2] == want[0] and row[3] == want[1] and row[4] == want[1]
                got = {"object": row[1:2] + row[3:4], "SI tables": row[2:3] + row[4:5]} if len(row) == 5 else row[1:]
            if not ok:
                ctx.violation(f"C05:modes:{mode}:{name}", f"under `{mode}` Quantity({name}) gives {got}, the property requires {want}",
                    {"kind": "violation", "stream": "interpreter-modes", "mode": mode, "construction": name, "observed": got, "required": want,
                     "how": f"PYTHONPATH={common.REPO} {common.PYTHON} {' '.join(flags)} {probe}"}, True)
    return n


# ---- specification predicate, written from the property text (used only after a disagreement) ------

def spec(expr):
    """('ok', value, nominal dim vec, is_any) or ('refuse',)"""
    expr = sympy.sympify(expr)
    anyv = lambda v: v in (S.Zero, oo, -oo, nan) or v == 0.0
    def num(v):
        try:
            complex(v)
            return True
        except (TypeError, ValueError):
            return False
    if isinstance(expr, SymQuantity):
        return ("ok", expr.scale_factor, qx.dim_vec(expr.dimension))
    if isinstance(expr, Prefix):
        return ("ok", expr.scale_factor, (Fraction(0),) * qx.NB)
    if isinstance(expr, (Add, sympy.Min, sympy.Max)):
        rs = [spec(a) for a in expr.args]
        if any(r[0] != "ok" for r in rs):
            return ("refuse",)
        fixed = [r[2] for r in rs if not anyv(r[1])]
        if any(d != fixed[0] for d in fixed):
            return ("refuse",)
        val = expr.func(*[r[1] for r in rs])
        return ("ok", val, fixed[0] if fixed else rs[-1][2])
    if isinstance(expr, Mul):
        rs = [spec(a) for a in expr.args]
        if any(r[0] != "ok" for r in rs):
            return ("refuse",)
        val = Mul(*[r[1] for r in rs])
        d = rs[0][2]
        for r in rs[1:]:
            d = tuple(x + y for x, y in zip(d, r[2]))
        return ("ok", val, d)
    if isinstance(expr, Pow):
        b, e = spec(expr.base), spec(expr.exp)
        if b[0] != "ok" or e[0] != "ok":
            return ("refuse",)
        if not anyv(e[1]) and any(x != 0 for x in e[2]):
            return ("refuse",)
        ev = e[1]
        if all(x == 0 for x in b[2]):
            return ("ok", b[1]**ev, b[2])
        if not getattr(ev, "is_Rational", False) and not getattr(ev, "is_Float", False):
            return None
        q = qx.frac_of(ev)
        return ("ok", b[1]**ev, tuple(x * q for x in b[2]))
    if isinstance(expr, Abs):
        r = spec(expr.args[0])
        return r if r is None or r[0] != "ok" else ("ok", Abs(r[1]), r[2])
    if isinstance(expr, Derivative):
        return ("refuse",)
    if isinstance(expr, sympy.Function):
        rs = [spec(a) for a in expr.args]
        if any(r is None for r in rs):
            return None
        if any(r[0] != "ok" for r in rs):
            return ("refuse",)
        if any(not anyv(r[1]) and any(x != 0 for x in r[2]) for r in rs):
            return ("refuse",)
        return ("ok", expr.func(*[r[1] for r in rs]), (Fraction(0),) * qx.NB)
    if not num(expr):
        return ("refuse",)
    return ("ok", expr, (Fraction(0),) * qx.NB)


def spec_contradicted(expr, obs):
    try:
        sp = spec(expr)
    except Exception:  # pylint: disable=broad-except
        return None
    if sp is None:
        return None
    anyv = lambda v: v in (S.Zero, oo, -oo, nan) or v == 0.0
    if sp[0] == "refuse":
        return None if obs[0] == "err" else f"property requires refusal, implementation returned {obs[1:]}"
    if obs[0] == "err":
        return f"property requires acceptance with dimension {sp[2]}, implementation raised {obs[2]}"
    if qx.val_class(sp[1]) != obs[1] and qx.val_class(sp[1])[0] != "Other":
        return f"value should be {sp[1]}, got class {obs[1]}"
    if not anyv(sp[1]) and tuple(sp[2]) != tuple(obs[2]):
        return f"dimension should be {sp[2]}, got {obs[2]}"
    return None


# ---------------------------------------------------------------------------------------------

STATIC = ["C05_collect_value", "C05_add_accepts_iff", "C05_add_order_irrelevant", "C05_sum_dim", "C05_minmax_accepts",
    "C05_child_error_refuses", "C05_mul_spec", "C05_pow_spec", "C05_fun_accepts_iff", "C05_leaf_refusals",
    "C05_quantity_ctor_spec", "C05_cancelling_prefix_refused", "C05_accepts_iff_WF", "C05_refuses_iff_not_WF",
    "C05_order_irrelevant", "C05_dim_is_product", "C05_sign_claim_sound", "C05_sign_claim_rewrites", "C05_sign_claim_complete"]


def build_cases(ctx, n_valid, n_bad, n_boundary):
    from symplyphysics import Quantity  # pylint: disable=import-outside-toplevel
    from symplyphysics.core.dimensions import collect_quantity_factor_and_dimension as cq  # pylint: disable=import-outside-toplevel
    from sympy.physics.units.systems.si import SI  # pylint: disable=import-outside-toplevel
    rng = ctx.rng
    cases = []
    hist = {}
    registry_mismatch = []
    registered = []

    def add(expr, stream):
        if stream != "boundary" and not in_modelled_domain(expr):
            hist[(stream, "skipped-outside-modelled-domain")] = hist.get((stream, "skipped-outside-modelled-domain"), 0) + 1
            return
        try:
            lit = qx.qexpr_lit(expr)
        except (qx.Unsupported, Exception) as e:  # pylint: disable=broad-except
            hist[(stream, "unserialisable")] = hist.get((stream, "unserialisable"), 0) + 1
            return
        try:
            obs = qx.cres_of_impl(cq, expr)
            olit = qx.cres_lit(obs)
        except qx.Unsupported:
            hist[(stream, "unsupported-dimension")] = hist.get((stream, "unsupported-dimension"), 0) + 1
            return
        override = None
        if rng.random() < 0.15:
            override = dimension_from_vec(*rand_dimvec(rng), rng)

        def ctor():
            q = Quantity(expr, dimension=override) if override is not None else Quantity(expr)
            # the SI unit-system tables (the `state` the property names) must hold what the object reports
            reg_sf, reg_dim = SI.get_quantity_scale_factor(q), SI.get_quantity_dimension(q)
            if qx.val_class(reg_sf) != qx.val_class(q.scale_factor) or qx.dim_vec(reg_dim) != qx.dim_vec(q.dimension):
                registry_mismatch.append((str(expr)[:200], str(reg_sf)[:80], str(reg_dim), str(q.scale_factor)[:80], str(q.dimension)))
            if len(registered) < 400:
                registered.append((q, qx.val_class(q.scale_factor), qx.dim_vec(q.dimension), str(expr)[:200]))
            return q.scale_factor, q.dimension
        try:
            obs2 = qx.cres_of_impl(ctor)
            o2lit = qx.cres_lit(obs2)
            ov = "None" if override is None else f"(Some {qx.dim_lit(qx.dim_vec(override))})"
        except qx.Unsupported:
            return
        cases.append({"lit": f"({lit}, {olit}, {ov}, {o2lit})", "expr": expr, "obs": obs, "obs2": obs2, "stream": stream,
            "desc": sympy.srepr(expr)[:300] if len(str(expr)) > 200 else str(expr)})
        key = (stream, "ok" if obs[0] == "ok" else f"err{obs[1]}")
        hist[key] = hist.get(key, 0) + 1

    for _ in range(n_valid):
        g = Gen(rng, p_bad=0.0)
        vec, _a = rand_dimvec(rng, with_angle=False)
        add(g.expr(vec, rng.choice([1, 2, 3, 4, 5])), "valid")
    for _ in range(n_bad):
        if rng.random() < 0.3:
            add(malformed(rng), "malformed")
        else:
            g = Gen(rng, p_bad=0.25)
            vec, _a = rand_dimvec(rng, with_angle=False)
            add(g.expr(vec, rng.choice([2, 3, 4])), "malformed")
    for i in range(n_boundary):
        add(boundary(rng, i), "boundary")   # every curated case is run (cyclically), not a random subset
    # history: what was registered for the first quantities is still there after thousands of later constructions
    for q, vc, dv, desc in registered:
        try:
            now = (qx.val_class(SI.get_quantity_scale_factor(q)), qx.dim_vec(SI.get_quantity_dimension(q)), qx.val_class(q.scale_factor), qx.dim_vec(q.dimension))
        except Exception as e:  # pylint: disable=broad-except
            now = f"{type(e).__name__}: {e}"[:120]
        if now != (vc, dv, vc, dv):
            registry_mismatch.append((desc, "after later constructions", str(now)[:200], str(vc), str(dv)))
    for mm in registry_mismatch[:10]:
        ctx.violation(f"C05:registry:{mm[0]}", f"SI unit-system tables disagree with the constructed quantity for {mm[0][:120]}: {mm[1:]}",
            {"kind": "violation", "stream": "registry", "expr": mm[0], "registered_vs_object": [str(x) for x in mm[1:]]}, True)
    hist[("registry", "rechecked-after-history")] = len(registered)
    return cases, hist


def run(ctx):
    ctx.level = "proof"
    ctx.static(STATIC)
    ctx.trust("Coq 8.16.1 kernel incl. vm_compute (no native_compute)",
        "harness/vp/qx.py: SymPy tree -> qexpr serialiser (reads the tree as the collector receives it), value/dimension canonicaliser",
        "function-value oracle: the value of f(args) on scale factors is computed by plain SymPy arithmetic in the harness (QFun's ov)",
        "SymPy's automatic evaluation before the collector sees the tree; dimsys_SI dependency tables")
    ctx.assume("scale factors are observed up to the classes of Val.v: exact rationals (floats by their exact dyadic value), float zero, "
        "+-oo, nan, zoo, other number, non-number; generated float operands make all float operations exact")
    cases, hist = build_cases(ctx, ctx.pick(1400, 22000), ctx.pick(500, 7000), ctx.pick(100, 1000))
    bad = coqrun.eval_cases(ctx, "collect", qx.PREAMBLE_COLLECT, [c["lit"] for c in cases],
        "fun c : qexpr * cres * option dim * cres => let '(e, o, ov, o2) := c in "
        "cres_eqb (collect e) o && cres_eqb (quantity_ctor e ov) o2", case_type="qexpr * cres * option dim * cres")
    for i in bad[:40]:
        c = cases[i]
        why = spec_contradicted(c["expr"], c["obs"])
        key = f"C05:{c['stream']}:{c['lit'][:300]}"
        replay = {"kind": "disagreement", "stream": c["stream"], "expr": c["desc"], "srepr": sympy.srepr(c["expr"])[:2000],
            "gallina": c["lit"], "observed": {"collect": str(c["obs"]), "Quantity": str(c["obs2"])},
            "theorem_or_tie": "correspondence CollectQ.v ~ collect_quantity_factor_and_dimension / Quantity"}
        if why:
            replay["expected"] = why
            ctx.violation(key, f"quantity construction contradicts the property on {c['desc'][:120]}: {why}", replay, True)
        else:
            ctx.violation(key, f"model and implementation disagree on {c['desc'][:120]}", replay, False)
    ev, ev_skipped = evalbuild_cases(ctx, ctx.pick(250, 4000))
    bad_ev = coqrun.eval_cases(ctx, "evalbuild", qx.PREAMBLE_COLLECT, [c["lit"] for c in ev],
        "fun c : qexpr * cres * cres => let '(e, o, o2) := c in cres_eqb (collect e) o && "
        "match quantity_ctor e None, o2 with Ok (v, d), Ok (w, d2) => val_eqb v w && (is_any v || deqb d d2) "
        "| Err x, Err y => N.eqb x y | _, _ => false end", case_type="qexpr * cres * cres")
    for i in bad_ev[:20]:
        c = ev[i]
        ok_collect = spec_contradicted(c["expr"], c["obs"])
        ctx.violation(f"C05:evalbuild:{c['name'] or c['lit'][:300]}",
            f"Quantity(expr) is not the value of expr when expr is built by ordinary evaluation: {c['desc'][:300]} has value "
            f"{c['value']}, Quantity gave {c['obs2'][1:]}" if ok_collect is None and c["obs2"][0] == "ok"
            else f"model and implementation disagree on {c['desc'][:200]}",
            {"kind": "evalbuild", "expr": c["desc"], "srepr_unevaluated": sympy.srepr(c["expr"])[:2000], "gallina": c["lit"],
             "value_of_expression": c["value"], "observed": {"collect(unevaluated)": str(c["obs"]), "Quantity(evaluated)": str(c["obs2"])},
             "theorem_or_tie": "correspondence CollectQ.quantity_ctor (on the tree as written) ~ Quantity(tree built by ordinary evaluation)"},
            True)
    sg = sign_cases(ctx, ctx.pick(40, 400))
    bad_sg = coqrun.eval_cases(ctx, "sign", "From VP Require Import Model.QSign.\n" + qx.PREAMBLE_COLLECT, [c["lit"] for c in sg],
        "fun c : val * option bool => match qty_is_positive (fst c), snd c with Some a, Some b => Bool.eqb a b | None, _ => true "
        "| Some _, None => false end", case_type="val * option bool")
    for i in bad_sg[:10]:
        c = sg[i]
        ctx.violation(f"C05:sign:{c['lit']}", f"{c['desc']}: the sign claim published to SymPy differs from the model (a positive value must never "
            "be denied, a negative one never claimed positive)", {"kind": "disagreement", "stream": "sign", "value": c["value"],
            "observed_is_positive": str(c["claim"]), "gallina": c["lit"],
            "theorem_or_tie": "correspondence QSign.qty_is_positive ~ Quantity._eval_is_positive"}, True)
    hist[("sign", "compared")] = len(sg)
    hist[("interpreter-modes", "constructions")] = interpreter_modes(ctx)
    hist[("evalbuild", "compared")] = len(ev)
    hist[("evalbuild", "skipped-nan-zoo-or-irrational")] = ev_skipped
    cases = cases + ev
    distinct = len({c["lit"] for c in cases if "QMul" in c["lit"] or "QAdd" in c["lit"] or "QPow" in c["lit"] or c["obs"][0] == "err"})
    ctx.evaluated(len(cases), distinct)
    for c in cases[:2] + [c for c in cases if c["stream"] == "malformed"][:2] + [c for c in cases if c["stream"] == "boundary"][:2]:
        ctx.sample({"stream": c["stream"], "expr": c["desc"][:200], "collect": str(c["obs"])[:200]})
    ctx.coverage["histogram"] = {f"{k[0]}:{k[1]}": v for k, v in sorted(hist.items())}
    ctx.coverage["disagreements"] = len(bad)
    sizes = {}
    for c in cases:
        n = c["lit"].count("(Q")
        b = "1-3" if n <= 3 else "4-10" if n <= 10 else "11-30" if n <= 30 else ">30"
        sizes[b] = sizes.get(b, 0) + 1
    ctx.coverage["tree_size_histogram"] = sizes
    ctx.coverage["rule"] = ("seeded expression trees (depth <= 5) over numbers, sympy units, prefixes, Quantity objects, + * ** Abs Min Max "
        "and sin/cos/exp/log, built both with evaluate=False (fixed argument order) and canonically; malformed stream (free symbols, "
        "derivatives, dimensional exponents / function arguments, mixed sums); boundary stream (cancelling prefixes, zero/oo/nan terms, "
        "prefix x derived unit, rational powers); evalbuild stream: abstract trees over fresh Quantity leaves (values 0, rationals, +-oo) "
        "and + * **2 Abs Min Max, built once unevaluated (model input) and once by ordinary SymPy evaluation (Quantity input): value and, "
        "unless the value is of any dimension, dimension must agree; trees whose value passes through nan/zoo are not generated. distinct = distinct Gallina literals; non-trivial = contains a compound node or is refused")


def replay(ctx, rep):
    print(rep.get("expr"), rep.get("observed"), rep.get("expected"))
    return 0
