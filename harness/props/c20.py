"""C20 -- physical constants carry reference values and dimensions.

static theorems : coq/theories/Properties/C20.v  (the hand-entered reference table Model/Consts.v is self-consistent)
tie             : translator -- every public Quantity of symplyphysics/quantities/__init__.py is read from the live
                  module (SI value as an exact expression: binary floats as the exact rationals they denote, pi as PI;
                  dimension vector through dimsys_SI) together with its source literal and docstring (module AST), and
                  for each one the lemmas
                      const_dim_<name>   : deqb <live dimension> dim_<name> = true                      (vm_compute)
                      const_value_<name> : |live / ref_<name> - 1| <= max(tol_<name>, stated precision)  (interval)
                  and the seven identities of the property between LIVE values (composed on the Coq side)
                      ident_<id>         : |lhs / rhs - 1| <= tol_identity                               (interval)
                      ident_dim_<id>     : the dimensions of both sides agree                            (vm_compute)
                  are generated and kernel-checked.  The table is finite and checked exhaustively.
stability       : after the proofs every constant is exercised (Quantity(c), Quantity(c, dimension=other), Quantity(2*c), abs,
                  expressions, conversions, printing; catalogue modules using constants imported and their calculate_* called)
                  and the table re-read: value, dimension (attribute and SI registry), display names, object identity must be
                  unchanged; a difference names the constant, the field and the operation.
search          : a failed lemma is re-evaluated numerically (50 digits) from the live value and the reference parsed
                  from Consts.v; the violation names the constant and both numbers."""
from __future__ import annotations

import ast
import re
import time
from fractions import Fraction
from pathlib import Path

import sympy
from sympy import Float, Rational

from vp import axioms, coqrun, qx, sx
from vp.common import COQ

STATIC = ["c20_refs_consistent", "c20_refs_dims_wellformed", "c20_refs_dims_consistent"]

MODULE = "symplyphysics.quantities"

# the constants of the pinned tree: each must still exist (reserve entries of Consts.v need not)
BASELINE = ["standard_conditions_temperature", "standard_laboratory_temperature", "electron_rest_mass", "bohr_radius",
    "hydrogen_ionization_energy", "solar_mass", "earth_mass", "boltzmann_constant", "molar_gas_constant", "speed_of_light",
    "vacuum_permittivity", "vacuum_permeability", "elementary_charge", "hbar", "planck", "avogadro_constant",
    "acceleration_due_to_gravity", "stefan_boltzmann_constant", "richardson_constant", "rydberg_frequency",
    "wien_displacement_constant", "gravitational_constant", "hubble_constant", "zero_point_luminosity", "sun_luminosity",
    "faraday_constant", "vacuum_impedance"]

PREAMBLE_R = """From Coq Require Import Reals.
From Interval Require Import Tactic.
From VP Require Import Model.Consts.
Local Open Scope R_scope.
"""

PREAMBLE_D = """From Coq Require Import List QArith ZArith Bool.
From VP Require Import Base.Dim Model.Consts.
Import ListNotations.
Local Open Scope Q_scope.
Definition dpowz (d : dim) (z : Z) : dim := dpow d (inject_Z z).
"""

# identities of the property statement, over live values `v_<name>` / live dimensions `d_<name>`
IDENTITIES = [
    ("gas_constant", ["molar_gas_constant", "boltzmann_constant", "avogadro_constant"],
     "Rabs (v_molar_gas_constant / (v_boltzmann_constant * v_avogadro_constant) - 1) <= tol_identity",
     "deqb (dmul d_boltzmann_constant d_avogadro_constant) d_molar_gas_constant = true",
     lambda v: v["molar_gas_constant"] / (v["boltzmann_constant"] * v["avogadro_constant"]) - 1,
     "R = k_B N_A"),
    ("faraday", ["faraday_constant", "elementary_charge", "avogadro_constant"],
     "Rabs (v_faraday_constant / (v_elementary_charge * v_avogadro_constant) - 1) <= tol_identity",
     "deqb (dmul d_elementary_charge d_avogadro_constant) d_faraday_constant = true",
     lambda v: v["faraday_constant"] / (v["elementary_charge"] * v["avogadro_constant"]) - 1,
     "F = e N_A"),
    ("hbar", ["hbar", "planck"],
     "Rabs (v_hbar / (v_planck / (2 * PI)) - 1) <= tol_identity",
     "deqb d_planck d_hbar = true",
     lambda v: v["hbar"] / (v["planck"] / (2 * sympy.pi)) - 1,
     "hbar = h / (2 pi)"),
    ("maxwell", ["vacuum_permittivity", "vacuum_permeability", "speed_of_light"],
     "Rabs (v_vacuum_permittivity * v_vacuum_permeability * v_speed_of_light ^ 2 - 1) <= tol_identity",
     "deqb (dmul (dmul d_vacuum_permittivity d_vacuum_permeability) (dpowz d_speed_of_light 2)) dzero = true",
     lambda v: v["vacuum_permittivity"] * v["vacuum_permeability"] * v["speed_of_light"]**2 - 1,
     "eps0 mu0 c^2 = 1"),
    ("impedance", ["vacuum_impedance", "vacuum_permeability", "speed_of_light"],
     "Rabs (v_vacuum_impedance / (v_vacuum_permeability * v_speed_of_light) - 1) <= tol_identity",
     "deqb (dmul d_vacuum_permeability d_speed_of_light) d_vacuum_impedance = true",
     lambda v: v["vacuum_impedance"] / (v["vacuum_permeability"] * v["speed_of_light"]) - 1,
     "Z0 = mu0 c"),
    ("stefan_boltzmann", ["stefan_boltzmann_constant", "boltzmann_constant", "planck", "speed_of_light"],
     "Rabs (v_stefan_boltzmann_constant / (2 * PI ^ 5 * v_boltzmann_constant ^ 4 / "
     "(15 * v_planck ^ 3 * v_speed_of_light ^ 2)) - 1) <= tol_identity",
     "deqb (ddiv (dpowz d_boltzmann_constant 4) (dmul (dpowz d_planck 3) (dpowz d_speed_of_light 2))) "
     "d_stefan_boltzmann_constant = true",
     lambda v: v["stefan_boltzmann_constant"] / (2 * sympy.pi**5 * v["boltzmann_constant"]**4 /
        (15 * v["planck"]**3 * v["speed_of_light"]**2)) - 1,
     "sigma = 2 pi^5 k_B^4 / (15 h^3 c^2)"),
    ("wien", ["wien_displacement_constant", "planck", "speed_of_light", "boltzmann_constant"],
     "Rabs (v_wien_displacement_constant / (v_planck * v_speed_of_light / (4.965114 * v_boltzmann_constant)) - 1) "
     "<= tol_identity",
     "deqb (ddiv (dmul d_planck d_speed_of_light) d_boltzmann_constant) d_wien_displacement_constant = true",
     lambda v: v["wien_displacement_constant"] / (v["planck"] * v["speed_of_light"] /
        (Rational(4965114, 1000000) * v["boltzmann_constant"])) - 1,
     "b = h c / (4.965114 k_B)"),
]


# ---------------------------------------------------------------------------------------------
# reference table, parsed for the numeric side of reports (Coq checks the lemmas against the .v itself)
# ---------------------------------------------------------------------------------------------

def parse_consts():
    txt = (COQ / "theories" / "Model" / "Consts.v").read_text()
    txt = re.sub(r"\(\*.*?\*\)", "", txt, flags=re.S)
    refs, tols, dims, misc = {}, {}, {}, {}

    def num(s):
        s = s.strip().replace("^", "**").replace("PI", "pi")
        return sympy.sympify(s, rational=True)

    for m in re.finditer(r"Definition (\w+) : R := (.*?)\.\s*$", txt, flags=re.M):
        name, body = m.group(1), m.group(2)
        if name.startswith("ref_"):
            refs[name[4:]] = num(body)
        elif name.startswith("tol_") and name not in ("tol_default", "tol_identity"):
            tols[name[4:]] = num(body)
        else:
            misc[name] = num(body)
    for m in re.finditer(r"Definition dim_(\w+) : dim := mkdim (.*?)\.\s*$", txt, flags=re.M):
        xs = [int(t.strip("()")) for t in m.group(2).split()]
        dims[m.group(1)] = tuple(Fraction(x) for x in xs) + (Fraction(0), Fraction(0))
    return refs, tols, dims, misc


# ---------------------------------------------------------------------------------------------
# translator
# ---------------------------------------------------------------------------------------------

def literal_halfulp(text: str):
    """Relative half unit in the last written digit of a numeric source literal (`0.529e-10` -> 0.0005/0.529)."""
    t = text.strip().lower().replace("_", "")
    m = re.fullmatch(r"([0-9]*)(?:\.([0-9]*))?(?:e([+-]?[0-9]+))?", t)
    if not m or not (m.group(1) or m.group(2)):
        return None
    ip, fp, ex = m.group(1) or "", m.group(2) or "", int(m.group(3) or 0)
    mant = Fraction(int((ip + fp) or "0"), 10**len(fp))
    if mant == 0:
        return None
    return Fraction(1, 2 * 10**len(fp)) / mant   # the exponent cancels in the relative value


def docstring_precision(doc: str):
    """`relative uncertainty ... is :math:`4 \\cdot 10^{-5}`` -> 4e-5."""
    if not doc:
        return None
    m = re.search(r"relative\s+(?:standard\s+)?(?:uncertainty|precision|error)[^`]*`([^`]*)`", doc, flags=re.I | re.S)
    if not m:
        return None
    s = m.group(1)
    m2 = re.search(r"(?:([0-9]+(?:\.[0-9]+)?)\s*(?:\\cdot|\\times|\*)\s*)?10\s*\^\s*\{?\s*(-?[0-9]+)\s*\}?", s)
    if not m2:
        return None
    return Fraction(m2.group(1) or "1") * Fraction(10)**int(m2.group(2))


def source_table(module):
    """name -> {"literals": [...], "doc": str, "expr": source text} from the module's AST."""
    src = Path(module.__file__).read_text()
    tree = ast.parse(src)
    out = {}
    body = tree.body
    for i, node in enumerate(body):
        if not (isinstance(node, ast.Assign) and len(node.targets) == 1 and isinstance(node.targets[0], ast.Name)):
            continue
        name = node.targets[0].id
        val = node.value
        if not (isinstance(val, ast.Call) and getattr(val.func, "id", getattr(val.func, "attr", "")) == "Quantity"):
            continue
        doc = ""
        if i + 1 < len(body) and isinstance(body[i + 1], ast.Expr) and isinstance(body[i + 1].value, ast.Constant) \
                and isinstance(body[i + 1].value.value, str):
            doc = body[i + 1].value.value
        lits = []
        arg = val.args[0] if val.args else None
        if arg is not None:
            exponents = {id(n.right) for n in ast.walk(arg) if isinstance(n, ast.BinOp) and isinstance(n.op, ast.Pow)}
            for n in ast.walk(arg):
                if isinstance(n, ast.Constant) and isinstance(n.value, (int, float)) and not isinstance(n.value, bool) \
                        and id(n) not in exponents:
                    lits.append(ast.get_source_segment(src, n))
        out[name] = {"literals": lits, "doc": doc, "expr": ast.get_source_segment(src, arg) if arg is not None else ""}
    return out


def exact(e):
    """Binary floats -> the exact rationals they denote."""
    e = sympy.sympify(e)
    return e.xreplace({f: Rational(f) for f in e.atoms(Float)})


def read_catalogue(ctx):
    import importlib  # pylint: disable=import-outside-toplevel
    mod = importlib.import_module(MODULE)
    from symplyphysics.core.symbols.quantities import Quantity  # pylint: disable=import-outside-toplevel
    from symplyphysics import convert_to_si  # pylint: disable=import-outside-toplevel
    srcs = source_table(mod)
    exported = list(getattr(mod, "__all__", []))
    rows = []
    seen = set()
    names = exported + [n for n, v in vars(mod).items() if not n.startswith("_") and isinstance(v, Quantity) and n not in exported]
    for name in names:
        if name in seen:
            continue
        seen.add(name)
        q = getattr(mod, name, None)
        row = {"name": name, "in_all": name in exported, "error": None}
        rows.append(row)
        if not isinstance(q, Quantity):
            row["error"] = f"exported name is not a Quantity: {type(q).__name__}"
            continue
        try:
            dv = qx.dim_vec(q.dimension)
            # SymPy scale factors are gram-based: SI value = scale / 1000^(mass exponent)
            si = exact(q.scale_factor) / Rational(1000)**Rational(dv[1].numerator, dv[1].denominator)
            if si.free_symbols:
                raise sx.Unsupported(f"free symbols {si.free_symbols}")
            term = sx.RCtx(atoms=False).term(si)
            via_conv = sympy.sympify(convert_to_si(q))
            dev = abs(sympy.N(si / via_conv - 1, 30)) if via_conv != 0 else abs(sympy.N(si, 30))
            if not dev < 1e-12:
                raise sx.Unsupported(f"scale/1000^mass = {sympy.N(si, 20)} but convert_to_si = {via_conv}")
        except Exception as e:  # pylint: disable=broad-except
            row["error"] = f"{type(e).__name__}: {e}"[:300]
            continue
        s = srcs.get(name, {"literals": [], "doc": "", "expr": ""})
        hu = [literal_halfulp(t) for t in s["literals"]]
        hu = [h for h in hu if h is not None]
        dp = docstring_precision(s["doc"])
        row.update({"dim": dv, "si": si, "term": term, "literals": s["literals"], "source": s["expr"],
            "halfulp": max(hu) if hu else None, "doc_precision": dp,
            "stated": max([x for x in (max(hu) if hu else None, dp) if x is not None], default=None)})
    return rows


def frac_lit(fr: Fraction) -> str:
    return f"({fr.numerator} / {fr.denominator})"



# ---------------------------------------------------------------------------------------------
# stability: using the constants the way library code does must not change the catalogue
# ---------------------------------------------------------------------------------------------

def snapshot(mod):
    """Everything the property is about, per public Quantity of the module: object identity, scale factor (attribute and
    SI registry), dimension (attribute and SI registry), display names."""
    from symplyphysics.core.symbols.quantities import Quantity  # pylint: disable=import-outside-toplevel
    from sympy.physics.units.systems.si import SI  # pylint: disable=import-outside-toplevel
    snap = {}
    for name, q in vars(mod).items():
        if name.startswith("_") or not isinstance(q, Quantity):
            continue
        def dv(d):
            try:
                return tuple(str(x) for x in qx.dim_vec(d))
            except Exception as e:  # pylint: disable=broad-except
                return f"{type(e).__name__}: {e}"[:80]
        def grab(fn):
            try:
                return fn()
            except Exception as e:  # pylint: disable=broad-except
                return f"{type(e).__name__}: {e}"[:80]
        snap[name] = {
            "object_id": id(q),
            "scale_factor": grab(lambda: sympy.srepr(q.scale_factor)),
            "registry_scale_factor": grab(lambda: sympy.srepr(SI.get_quantity_scale_factor(q))),
            "dimension": grab(lambda: dv(q.dimension)),
            "registry_dimension": grab(lambda: dv(SI.get_quantity_dimension(q))),
            "display_name": grab(lambda: str(q.display_name)),
            "display_latex": grab(lambda: str(getattr(q, "display_latex", None))),
            "sympy_name": grab(lambda: str(q.name)),
        }
    return snap


def snap_diff(a, b):
    out = []
    for name in sorted(set(a) | set(b)):
        if name not in a or name not in b:
            out.append((name, "presence", name in a, name in b))
            continue
        for k in a[name]:
            if a[name][k] != b[name].get(k):
                out.append((name, k, a[name][k], b[name].get(k)))
    return out


_X = sympy.Symbol("x_c20")


def _assert_equal(a, b):
    from symplyphysics import assert_equal  # pylint: disable=import-outside-toplevel
    return assert_equal(a, b)


def _guarded(c):
    from symplyphysics import Quantity, validate_input, validate_output  # pylint: disable=import-outside-toplevel

    @validate_input(q_=c)
    @validate_output(c.dimension)
    def twice(q_):
        return Quantity(2 * q_)

    @validate_input(q_=c.dimension)
    @validate_output(c)
    def same(q_):
        return q_
    return twice(c), same(c), twice(q_=Quantity(5 * c))


def constant_operations(c, name):
    """(label, thunk) -- the ways library and user code touches an exported constant.  Thunks return the new object(s)
    so that identity with the constant can be checked."""
    import copy  # pylint: disable=import-outside-toplevel
    import pickle  # pylint: disable=import-outside-toplevel
    from symplyphysics import Quantity, convert_to_si, convert_to, units  # pylint: disable=import-outside-toplevel
    from symplyphysics.core.convert import evaluate_expression, evaluate_quantity  # pylint: disable=import-outside-toplevel
    from symplyphysics.core.dimensions import dimension_to_si_unit  # pylint: disable=import-outside-toplevel
    from sympy.physics.units.systems.si import dimsys_SI  # pylint: disable=import-outside-toplevel
    other = units.length if dimsys_SI.equivalent_dims(c.dimension, units.energy) else units.energy
    return [
        ("Quantity(c)", lambda: Quantity(c), True),
        (f"Quantity(c, dimension={other.name})", lambda: Quantity(c, dimension=other), True),
        ("Quantity(c, dimension=c.dimension)", lambda: Quantity(c, dimension=c.dimension), True),
        ("Quantity(2*c)", lambda: Quantity(2 * c), True),
        ("Quantity(c*c/c + c)", lambda: Quantity(c * c / c + c), True),
        ("abs(c)", lambda: abs(c), False),
        ("convert_to_si(c)", lambda: convert_to_si(c), False),
        ("convert_to(c, SI unit)", lambda: convert_to(c, dimension_to_si_unit(c.dimension)), False),
        ("str / code_str / latex", lambda: (str(c), sympy.latex(c)), False),
        ("Quantity(c, display_symbol='tmp')", lambda: Quantity(c, display_symbol="tmp"), True),
        # numeric evaluation helpers, low precision first (a cached evaluation would keep the first precision used)
        ("evaluate_expression(2*c, evaluate=True, n=3)", lambda: evaluate_expression(2 * c, evaluate=True, n=3), False),
        ("evaluate_expression(c**2/c + c, evaluate=True, chop=True)",
            lambda: evaluate_expression(c**2 / c + c, evaluate=True, chop=True), False),
        ("evaluate_expression(c, evaluate=True, n=40, maxn=200)", lambda: evaluate_expression(c, evaluate=True, n=40, maxn=200), False),
        ("evaluate_expression(3*c)", lambda: evaluate_expression(3 * c), False),
        ("evaluate_quantity(c, n=3)", lambda: evaluate_quantity(c, n=3), True),
        ("evaluate_quantity(5*c, n=2, chop=True)", lambda: evaluate_quantity(5 * c, n=2, chop=True), True),
        ("sympy.N(c, 3) / c.evalf(3) / c.n(3)", lambda: (sympy.N(c, 3), c.evalf(3), (2 * c).n(3)), False),
        # the constant in every role the API offers
        ("convert_to(Quantity(3*c), c)  [c as target unit]", lambda: convert_to(Quantity(3 * c), c), False),
        ("convert_to(c, c)", lambda: convert_to(c, c), False),
        ("convert_to(c**2, c*c)", lambda: convert_to(c**2, c * c), False),
        ("assert_equal(c, c) / assert_equal(Quantity(2*c), 2*c)", lambda: (_assert_equal(c, c), _assert_equal(Quantity(2 * c), 2 * c)), False),
        ("(2*x + x**2).subs(x, c) -> Quantity", lambda: Quantity((2 * _X + _X**2 / _X).subs(_X, c)), True),
        ("guarded function (validate_input(q_=c) / validate_output(c.dimension)) called with c", lambda: _guarded(c), False),
        # copying and serialisation (SymPy rebuilds objects from .args; on the pinned tree these raise TypeError)
        ("copy.copy(c)", lambda: copy.copy(c), False),
        ("copy.deepcopy(c)", lambda: copy.deepcopy(c), False),
        ("pickle round trip of c", lambda: pickle.loads(pickle.dumps(c)), False),
        ("copy.copy(2*c + c**2)", lambda: copy.copy(2 * c + c**2), False),
        ("copy.deepcopy(2*c + c**2)", lambda: copy.deepcopy(2 * c + c**2), False),
        ("copy.deepcopy([c, {'k': 3*c}])", lambda: copy.deepcopy([c, {"k": 3 * c}]), False),
        ("pickle round trip of c*c/2", lambda: pickle.loads(pickle.dumps(c * c / 2)), False),
    ]


def run_operation(mod, name, label):
    c = getattr(mod, name)
    for lab, thunk, fresh in constant_operations(c, name):
        if lab == label:
            try:
                res = thunk()
                return res, fresh, None
            except Exception as e:  # pylint: disable=broad-except
                return None, fresh, f"{type(e).__name__}: {e}"[:200]
    return None, False, "unknown operation"


def catalogue_users(ctx):
    """Catalogue modules whose source mentions `quantities.` (they use exported constants)."""
    import symplyphysics  # pylint: disable=import-outside-toplevel
    root = Path(symplyphysics.__file__).resolve().parent
    mods = []
    for top in ("laws", "definitions", "conditions"):
        for f in sorted((root / top).rglob("*.py")):
            if f.name == "__init__.py":
                continue
            try:
                if "quantities." in f.read_text():
                    mods.append("symplyphysics." + ".".join(f.relative_to(root).with_suffix("").parts))
            except OSError:
                continue
    return mods


def call_calculators(module, rng):
    """Call every calculate_* of the module with SI quantities built from its validate_input declarations."""
    import inspect  # pylint: disable=import-outside-toplevel
    from symplyphysics import Quantity  # pylint: disable=import-outside-toplevel
    from symplyphysics.core.dimensions import dimension_to_si_unit  # pylint: disable=import-outside-toplevel
    from sympy.physics.units import Dimension  # pylint: disable=import-outside-toplevel
    calls = []
    for fname, fn in sorted(vars(module).items()):
        if not (fname.startswith("calculate_") and callable(fn) and getattr(fn, "__module__", None) == module.__name__):
            continue
        specs = {}
        f = fn
        while f is not None:
            try:
                nl = inspect.getclosurevars(f).nonlocals
            except TypeError:
                nl = {}
            if "decorator_kwargs" in nl:
                specs.update(nl["decorator_kwargs"])
            f = getattr(f, "__wrapped__", None)
        kwargs = {}
        try:
            for pname in inspect.signature(fn).parameters:
                spec = specs.get(pname)
                if spec is None:
                    kwargs[pname] = rng.choice([1, 2, 3])
                    continue
                spec0 = spec[0] if isinstance(spec, (tuple, list)) else spec
                d = getattr(spec0, "dimension", spec0)
                if not isinstance(d, Dimension):
                    kwargs[pname] = Quantity(spec0)
                    continue
                mag = rng.choice([1, 2, 3, 5])
                kwargs[pname] = Quantity(mag * dimension_to_si_unit(d), dimension=d)
            fn(**kwargs)
            calls.append((fname, "ok"))
        except Exception as e:  # pylint: disable=broad-except
            calls.append((fname, f"{type(e).__name__}"))
    return calls


# ---------------------------------------------------------------------------------------------
# the same table through every channel a user can read it from
# ---------------------------------------------------------------------------------------------

def channels(ctx, mod, rows, when):
    """Dimension and value of every constant read (a) from the object's attributes (what the lemmas are about), (b) from
    the SI unit-system registry and (c) through SymPy's own convert_to to the SI base units must agree."""
    from sympy.physics import units as U  # pylint: disable=import-outside-toplevel
    from sympy.physics.units import convert_to as sym_convert_to, Quantity as SymQ  # pylint: disable=import-outside-toplevel
    from sympy.physics.units.systems.si import SI  # pylint: disable=import-outside-toplevel
    base_units = [U.meter, U.kilogram, U.second, U.ampere, U.kelvin, U.mole, U.candela]
    n = 0

    def bad(name, channel, observed, expected):
        if sum(1 for v in ctx.violations if v.key.startswith("C20:channel:")) >= 8:
            return
        ctx.violation(f"C20:channel:{name}:{channel}",
            f"constant {name} read through {channel} ({when}) gives {observed}, its attributes (checked against the reference) give {expected}",
            {"kind": "violation", "item": name, "input": {"constant": name, "channel": channel, "when": when},
             "observed": str(observed), "expected": str(expected),
             "theorem_or_tie": "agreement of the object attributes with the SI registry and sympy.physics.units.convert_to"},
            found_input=True)

    for r in rows:
        if r.get("error") is not None:
            continue
        name = r["name"]
        q = getattr(mod, name, None)
        if not isinstance(q, SymQ):
            continue
        n += 1
        want_dim = tuple(str(x) for x in r["dim"])
        try:
            got = tuple(str(x) for x in qx.dim_vec(SI.get_quantity_dimension(q)))
        except Exception as e:  # pylint: disable=broad-except
            got = f"{type(e).__name__}: {e}"[:120]
        if got != want_dim:
            bad(name, "SI.get_quantity_dimension", got, want_dim)
        try:
            reg = exact(SI.get_quantity_scale_factor(q)) / Rational(1000)**Rational(r["dim"][1].numerator, r["dim"][1].denominator)
            ok = abs(sympy.N(reg / r["si"] - 1, 30)) < 1e-12 if r["si"] != 0 else reg == 0
        except Exception as e:  # pylint: disable=broad-except
            reg, ok = f"{type(e).__name__}: {e}"[:120], False
        if not ok:
            bad(name, "SI.get_quantity_scale_factor", reg if isinstance(reg, str) else sympy.N(reg, 17), sympy.N(r["si"], 17))
        try:
            conv = sym_convert_to(q, base_units)
            powers = conv.as_powers_dict()
            exps = tuple(str(Fraction(int(sympy.Rational(powers.get(u, 0)).p), int(sympy.Rational(powers.get(u, 0)).q)))
                for u in base_units)
            val = conv.subs({u: 1 for u in base_units})
            if val.atoms(SymQ):
                raise ValueError(f"not expressed in base units: {conv}")
            ok = exps == want_dim[:7] and abs(sympy.N(exact(val) / r["si"] - 1, 30)) < 1e-12
            shown = f"{sympy.N(val, 17)} with base-unit exponents {exps}"
        except Exception as e:  # pylint: disable=broad-except
            ok, shown = False, f"{type(e).__name__}: {e}"[:160]
        if not ok:
            bad(name, "sympy.physics.units.convert_to(c, SI base units)", shown,
                f"{sympy.N(r['si'], 17)} with base-unit exponents {want_dim[:7]}")
    ctx.coverage["channel_checks"] = ctx.coverage.get("channel_checks", 0) + 3 * n


def interpreter_modes(ctx, rows):
    """The table must be the same in every mode the library can run in: a child interpreter started as `python` and as
    `python -O` (asserts compiled away; SymPy 1.14 does not import under -OO) reads it and the parent compares."""
    import json  # pylint: disable=import-outside-toplevel
    import os  # pylint: disable=import-outside-toplevel
    import subprocess  # pylint: disable=import-outside-toplevel
    from vp import common  # pylint: disable=import-outside-toplevel
    probe = str(common.VERIF / "harness" / "vp" / "c20_probe.py")
    env = dict(os.environ, PYTHONPATH=str(common.REPO), PYTHONDONTWRITEBYTECODE="1")
    env.pop("PYTHONOPTIMIZE", None)
    want = {r["name"]: r for r in rows if r.get("error") is None}
    n = 0
    for flags in ([], ["-O"]):
        mode = ("python " + " ".join(flags)).strip()
        how = f"PYTHONPATH={common.REPO} {common.PYTHON} {' '.join(flags)} {probe}"
        try:
            r = subprocess.run([common.PYTHON, *flags, probe], capture_output=True, text=True, timeout=600, env=env, check=False)
            data = json.loads(r.stdout)
        except Exception as e:  # pylint: disable=broad-except
            ctx.violation(f"C20:mode:{mode}:probe-failed", f"the catalogue could not be read under `{mode}`: {type(e).__name__}: {e}"[:300],
                {"kind": "broken-tie", "mode": mode, "how": how, "stderr": (r.stderr[-800:] if "r" in locals() else "")}, found_input=False)
            continue
        reported = 0
        for name, w in want.items():
            got = data["table"].get(name)
            n += 1
            problems = []
            if got is None:
                problems.append(("presence", "absent", "a Quantity"))
            else:
                wd = [str(x) for x in w["dim"]]
                for fld in ("dimension", "registry_dimension"):
                    if got[fld] != wd:
                        problems.append((fld, got[fld], wd))
                for fld in ("scale_factor", "registry_scale_factor"):
                    try:
                        si = exact(sympy.sympify(got[fld])) / Rational(1000)**Rational(w["dim"][1].numerator, w["dim"][1].denominator)
                        ok = abs(sympy.N(si / w["si"] - 1, 30)) < 1e-12
                        shown = str(sympy.N(si, 17))
                    except Exception as e:  # pylint: disable=broad-except
                        ok, shown = False, str(got[fld])[:120]
                    if not ok:
                        problems.append((fld + " (as SI value)", shown, str(sympy.N(w["si"], 17))))
            for fld, observed, expected in problems:
                if reported >= 6:
                    break
                reported += 1
                ctx.violation(f"C20:mode:{mode}:{name}:{fld}", f"under `{mode}` constant {name} has {fld} = {observed}; the reading that was "
                    f"checked against the reference has {expected}",
                    {"kind": "violation", "item": name, "input": {"constant": name, "mode": mode, "field": fld}, "how": how,
                     "observed": str(observed), "expected": str(expected),
                     "theorem_or_tie": "the catalogue read in a child interpreter vs the parent's first reading"}, found_input=True)
        ctx.coverage.setdefault("interpreter_modes", {})[mode] = {"debug": data.get("debug"), "constants": len(data["table"])}
    ctx.evaluated(n, 0)


SKIP_HELPERS = ("id_generator", "test_decorators", "processors")   # global switches / counters, not helpers on quantities
QUANTITY_LIKE = ("Quantity", "SupportsFloat", "SupportsAbs", "Expr", "Any", "float", "Basic")


def core_helpers():
    """Public functions of symplyphysics.core.* with a required parameter that can be a quantity (by annotation)."""
    import importlib  # pylint: disable=import-outside-toplevel
    import inspect  # pylint: disable=import-outside-toplevel
    import pkgutil  # pylint: disable=import-outside-toplevel
    import symplyphysics.core as core  # pylint: disable=import-outside-toplevel
    out = []
    for info in pkgutil.walk_packages(core.__path__, core.__name__ + "."):
        if any(k in info.name for k in SKIP_HELPERS):
            continue
        try:
            m = importlib.import_module(info.name)
        except Exception:  # pylint: disable=broad-except
            continue
        for n, f in sorted(vars(m).items()):
            if n.startswith("_") or not inspect.isfunction(f) or f.__module__ != m.__name__:
                continue
            try:
                params = [p for p in inspect.signature(f).parameters.values()
                    if p.default is p.empty and p.kind in (p.POSITIONAL_ONLY, p.POSITIONAL_OR_KEYWORD)]
            except (TypeError, ValueError):
                continue
            if params and any(any(k in str(p.annotation) for k in QUANTITY_LIKE) for p in params):
                out.append((f"{info.name}.{n}", f, params))
    return out


def call_helper(f, params, c):
    args = []
    for p in params:
        a = str(p.annotation)
        if "str" in a and not any(k in a for k in QUANTITY_LIKE):
            args.append("p")
        elif "Dimension" in a and "SupportsFloat" not in a:
            args.append(c.dimension)
        else:
            args.append(c)
    try:
        f(*args)
        return "returned"
    except Exception as e:  # pylint: disable=broad-except
        return type(e).__name__


REGISTRY_WRITERS_ALLOWED = {
    ("symbols/quantities.py", "Quantity.__init__", "set_quantity_dimension"),
    ("symbols/quantities.py", "Quantity.__init__", "set_quantity_scale_factor"),
}
REGISTRY_ATTRS = ("set_quantity_dimension", "set_quantity_scale_factor", "set_global_relative_scale_factor", "set_global_dimension")


def registry_writers(ctx):
    """Static tie: the SI registries are written only by Quantity.__init__.  Every access to SI.set_quantity_* / SI._quantity_*
    under symplyphysics/core is enumerated from the AST and compared with the allow-list; a new site is a broken tie (the
    catalogue's immutability argument no longer covers the code)."""
    import symplyphysics.core as core  # pylint: disable=import-outside-toplevel
    root = Path(core.__file__).resolve().parent
    sites = []
    for f in sorted(root.rglob("*.py")):
        try:
            tree = ast.parse(f.read_text())
        except (OSError, SyntaxError):
            continue
        stack = []

        def walk(node):
            scoped = isinstance(node, (ast.ClassDef, ast.FunctionDef, ast.AsyncFunctionDef))
            if scoped:
                stack.append(node.name)
            if isinstance(node, ast.Attribute) and (node.attr in REGISTRY_ATTRS or node.attr.startswith("_quantity_")):
                sites.append((str(f.relative_to(root)), ".".join(stack), node.attr, node.lineno))
            for ch in ast.iter_child_nodes(node):
                walk(ch)
            if scoped:
                stack.pop()
        walk(tree)
    for (fn, scope, attr, line) in sites:
        if (fn, scope, attr) not in REGISTRY_WRITERS_ALLOWED:
            ctx.violation(f"C20:registry-writer:{fn}:{scope}:{attr}",
                f"symplyphysics/core/{fn}:{line} ({scope or 'module level'}) accesses SI.{attr}: the SI registry of quantities is expected to be "
                "written only by Quantity.__init__",
                {"kind": "broken-tie", "item": f"{fn}:{scope}", "theorem_or_tie": "allow-list of SI registry writers (AST of symplyphysics/core)",
                 "observed": {"file": fn, "scope": scope, "attribute": attr, "line": line}}, found_input=False)
    missing = REGISTRY_WRITERS_ALLOWED - {(a, b, c) for a, b, c, _l in sites}
    for (fn, scope, attr) in sorted(missing):
        ctx.violation(f"C20:registry-writer-missing:{fn}:{scope}:{attr}",
            f"{scope} in symplyphysics/core/{fn} no longer calls SI.{attr} directly (e.g. moved into a helper / an assert)",
            {"kind": "broken-tie", "item": f"{fn}:{scope}", "theorem_or_tie": "allow-list of SI registry writers"}, found_input=False)
    ctx.coverage["registry_writer_sites"] = [f"{a}:{l} {b} {c}" for a, b, c, l in sites]


def shadow_check(ctx, mod, names):
    """Importing a submodule binds it as an attribute of its parent package: a file or directory of symplyphysics/quantities
    named like an exported constant replaces that constant as soon as somebody imports it."""
    root = Path(mod.__file__).resolve().parent
    entries = sorted(p.name for p in root.iterdir() if not p.name.startswith("__"))
    for e in entries:
        stem = e.split(".")[0]
        if stem in names:
            ctx.violation(f"C20:shadow:{stem}", f"symplyphysics/quantities/{e} has the name of the exported constant {stem}: "
                f"`import symplyphysics.quantities.{stem}` rebinds quantities.{stem} to a module",
                {"kind": "violation", "item": stem, "input": {"constant": stem, "operation": f"import symplyphysics.quantities.{stem}"},
                 "observed": f"directory entry {e}", "expected": "no submodule named like an exported constant",
                 "theorem_or_tie": "directory listing of symplyphysics/quantities vs exported names"}, found_input=True)
    ctx.coverage["quantities_directory_entries"] = entries


def reference_recheck(ctx, rows, when):
    """Numeric re-comparison of a fresh reading with the reference table (the kernel-checked lemmas were about the first)."""
    refs, tols, dims = ctx.refs
    for r in rows:
        n = r["name"]
        if r.get("error") is not None or n not in refs or n not in dims:
            continue
        rel = sympy.N(r["si"] / refs[n] - 1, 50)
        tol = max([x for x in (tols.get(n), r["stated"]) if x is not None])
        if sum(1 for v in ctx.violations if v.key.startswith("C20:reread:")) >= 6:
            return
        if abs(rel) > tol or tuple(r["dim"]) != tuple(dims[n]):
            ctx.violation(f"C20:reread:{n}", f"constant {n} read {when} = {sympy.N(r['si'], 15)} with dimension "
                f"{[str(x) for x in r['dim']]}; reference {sympy.N(refs[n], 15)} {[str(x) for x in dims[n]]} (deviation {float(rel):.3e}, tolerance {float(tol):.3e})",
                {"kind": "violation", "item": n, "input": {"constant": n, "when": when}, "observed": str(sympy.N(r["si"], 20)),
                 "expected": str(sympy.N(refs[n], 20)), "relative_deviation": float(rel), "tolerance": float(tol),
                 "theorem_or_tie": "re-read table vs Model/Consts.v"}, found_input=True)


def stability(ctx, rows_first):
    """After the table has been read and proved: exercise the constants, re-read, require the first reading."""
    import importlib  # pylint: disable=import-outside-toplevel
    mod = importlib.import_module(MODULE)
    base = ctx.snapshot0
    cur = base
    nops = 0
    reported = 0
    names = [n for n in base]
    outcomes = {}

    def report(changes, operation, kind):
        nonlocal reported
        for (name, fld, before, after) in changes:
            if reported >= 12:
                return
            reported += 1
            what = (f"exported constant {name} changed its {fld} from {before!r} to {after!r} after `{operation}`" if fld != "presence"
                else f"quantities.{name} is {'no longer' if before else 'now'} a Quantity after `{operation}` "
                     f"(now {type(getattr(mod, name, None)).__name__})")
            ctx.violation(f"C20:stability:{name}:{fld}:{operation}", what,
                {"kind": "violation", "item": name, "input": {"constant": name, "operation": operation, "stage": kind},
                 "observed": {fld: after}, "expected": {fld: before},
                 "theorem_or_tie": "stability of the catalogue: the table read before and after use must be identical"},
                found_input=True)

    # other threads / more main-thread constructions: generated names key the SI registries
    import threading  # pylint: disable=import-outside-toplevel
    from symplyphysics import Quantity, units  # pylint: disable=import-outside-toplevel
    def make_some():
        for k in range(1, 41):
            Quantity(k * units.meter)
            Quantity(k)
    for label in ("80 quantities constructed in a second thread", "80 quantities constructed in the main thread",
            "80 quantities constructed in each of 4 concurrent threads"):
        try:
            if "main" in label:
                make_some()
            else:
                ts = [threading.Thread(target=make_some) for _ in range(4 if "4" in label else 1)]
                for t in ts:
                    t.start()
                for t in ts:
                    t.join()
        except Exception as e:  # pylint: disable=broad-except
            outcomes[label] = {type(e).__name__: 1}
        new = snapshot(mod)
        d = snap_diff(cur, new)
        if d:
            report(d, label, "threads")
            cur = new
    reference_recheck(ctx, read_catalogue(ctx), "after quantities were constructed in other threads")

    for name in names:
        c = getattr(mod, name)
        for label, _thunk, fresh in constant_operations(c, name):
            res, fresh, err = run_operation(mod, name, label)
            nops += 1
            oc = outcomes.setdefault(label, {})
            cls = "returned" if err is None else err.split(":")[0]
            oc[cls] = oc.get(cls, 0) + 1
            if fresh and err is None and res is getattr(mod, name):
                if reported < 12:
                    reported += 1
                    ctx.violation(f"C20:stability:{name}:identity:{label}",
                        f"`{label}` with c = quantities.{name} returned the exported constant object itself instead of a new quantity",
                        {"kind": "violation", "item": name, "input": {"constant": name, "operation": label, "stage": "operation"},
                         "observed": "result is quantities." + name, "expected": "a new Quantity object",
                         "theorem_or_tie": "stability of the catalogue (object identity)"}, found_input=True)
            new = snapshot(mod)
            d = snap_diff(cur, new)
            if d:
                report(d, f"{label} with c = quantities.{name}", "operation")
                cur = new
    ctx.coverage["stability_operations"] = nops
    ctx.coverage["stability_operation_outcomes"] = outcomes

    # every public helper of symplyphysics.core that can take a quantity, called on every constant (errors are fine)
    helpers = core_helpers()
    hist = {}
    for hname, f, params in helpers:
        for name in names:
            c = getattr(mod, name, None)
            if c is None:
                continue
            res = call_helper(f, params, c)
            nops += 1
            hist.setdefault(hname, {}).setdefault(res, 0)
            hist[hname][res] += 1
        new = snapshot(mod)
        d = snap_diff(cur, new)
        if d:
            report(d, f"{hname}(c, ...) called with c = every exported constant", "core-helpers")
            cur = new
    ctx.coverage["stability_core_helpers"] = {k: v for k, v in hist.items()}

    # importing submodules binds them as attributes of the parent package
    import pkgutil  # pylint: disable=import-outside-toplevel
    import symplyphysics  # pylint: disable=import-outside-toplevel
    walked = 0
    pkgs = [(mod.__path__, mod.__name__ + ".")] + ([] if ctx.quick else [(symplyphysics.__path__, "symplyphysics.")])
    for path, prefix in pkgs:
        for info in pkgutil.walk_packages(path, prefix, onerror=lambda _n: None):
            try:
                importlib.import_module(info.name)
                walked += 1
            except Exception:  # pylint: disable=broad-except
                continue
            if info.name.startswith(mod.__name__ + ".") or walked % 50 == 0:
                new = snapshot(mod)
                d = snap_diff(cur, new)
                if d:
                    report(d, f"import {info.name}", "submodules")
                    cur = new
    new = snapshot(mod)
    d = snap_diff(cur, new)
    if d:
        report(d, "importing every submodule of the package", "submodules")
        cur = new
    ctx.coverage["stability_submodules_imported"] = walked

    users = catalogue_users(ctx)
    sample = users if not ctx.quick else ctx.rng.sample(users, min(30, len(users)))
    ncalls, nok, nimp = 0, 0, 0
    for mname in sample:
        try:
            m = importlib.import_module(mname)
            nimp += 1
        except Exception:  # pylint: disable=broad-except
            continue
        calls = call_calculators(m, ctx.rng)
        ncalls += len(calls)
        nok += sum(1 for _f, r in calls if r == "ok")
        new = snapshot(mod)
        d = snap_diff(cur, new)
        if d:
            report(d, f"import {mname}; " + ", ".join(f for f, _r in calls), "catalogue")
            cur = new
    ctx.coverage["stability_catalogue_modules_using_constants"] = len(users)
    ctx.coverage["stability_modules_imported"] = nimp
    ctx.coverage["stability_calculate_calls"] = ncalls
    ctx.coverage["stability_calculate_calls_returned"] = nok

    # bulk: many throw-away quantities (parameter sweeps, plots, the test-suite create tens of thousands); the constants
    # are the oldest entries of the SI registries
    from symplyphysics import Quantity, units  # pylint: disable=import-outside-toplevel
    total = ctx.pick(70000, 300000)
    step = 1 << 14
    made = 0
    tb = time.time()
    while made < total:
        n = min(step, total - made)
        for i in range(n):
            if i & 1:
                Quantity(1)
            else:
                Quantity((i % 7 + 1) * units.meter)
        made += n
        new = snapshot(mod)
        d = snap_diff(cur, new)
        if d:
            report(d, f"construction of {made} throw-away quantities (Quantity(1), Quantity(k*units.meter))", "bulk")
            cur = new
    ctx.coverage["stability_bulk_quantities"] = made
    ctx.coverage["stability_bulk_s"] = round(time.time() - tb, 1)

    # final re-read with the translator itself: what was proved must still be what the module says
    final = snapshot(mod)
    d = snap_diff(base, final)
    seen = {(v.replay.get("item"), ) for v in ctx.violations if v.key.startswith("C20:stability:")}
    report([x for x in d if (x[0],) not in seen], "the whole stability stage", "final")
    rows_final = read_catalogue(ctx)
    reference_recheck(ctx, rows_final, "at the end of the stability stage")
    channels(ctx, mod, rows_final, "at the end of the stability stage")
    rows_again = {r["name"]: r for r in rows_final}
    for r in rows_first:
        a = rows_again.get(r["name"])
        same = a is not None and a.get("error") == r.get("error") and a.get("term") == r.get("term") and a.get("dim") == r.get("dim")
        if not same and (r["name"],) not in seen and not any(x[0] == r["name"] for x in d):
            report([(r["name"], "translated value / dimension", (r.get("term"), r.get("dim")),
                (a or {}).get("term"), )], "the whole stability stage", "final")
    ctx.coverage["stability_changes"] = reported
    ctx.evaluated(nops + ncalls + made, nops)
    ctx.sample({"stability": f"{nops} operations on {len(names)} constants, {nimp} modules imported, {ncalls} calculate_* calls "
        f"({nok} returned), {made} throw-away quantities, {reported} changes"})

# ---------------------------------------------------------------------------------------------

def run(ctx):
    ctx.level = "proof"
    ctx.static(STATIC)
    axioms.report(ctx, "C20", STATIC, shards=3)
    ctx.trust("Coq 8.16.1 kernel incl. vm_compute; Coq-Interval 4.x (`interval`), which relies on the primitive 63-bit "
        "integer axioms (Uint63 / PrimInt63) and Classical_Prop.classic besides the Reals axioms -- all listed under `axioms`",
        "coq/theories/Model/Consts.v: reference values (CODATA 2018, IAU 2015 B2/B3, NIST ASD), expected dimensions and "
        "tolerance floors, entered by hand",
        "harness/vp/sx.py (value -> Coq term over R) and qx.dim_vec (dimsys_SI dependencies -> exponent vector)",
        "sympy.physics.units scale factors and dimension tables (gram-based scale factors divided by 1000^mass exponent; "
        "cross-checked against symplyphysics.convert_to_si)")
    ctx.assume("tolerance of a value = max(floor tol_<name> in Consts.v, relative precision stated in the docstring, half a "
        "unit in the last digit of the least precise numeric literal of the defining expression, read from the live source)",
        "a binary float of the source denotes exactly its dyadic rational value")
    refs, tols, dims, _misc = parse_consts()
    import importlib  # pylint: disable=import-outside-toplevel
    rows = read_catalogue(ctx)
    ctx.snapshot0 = snapshot(importlib.import_module(MODULE))
    ctx.refs = (refs, tols, dims)
    channels(ctx, importlib.import_module(MODULE), rows, "right after import")
    shadow_check(ctx, importlib.import_module(MODULE), {r["name"] for r in rows})
    interpreter_modes(ctx, rows)
    registry_writers(ctx)
    good = [r for r in rows if r["error"] is None]
    by_name = {r["name"]: r for r in good}

    for r in rows:
        if r["error"] is not None:
            ctx.violation(f"C20:translate:{r['name']}", f"constant {r['name']} could not be translated: {r['error']}",
                {"kind": "broken-tie", "item": r["name"], "theorem_or_tie": "translator (read_catalogue)",
                 "observed": r["error"]}, found_input=False)
    unreferenced = [r["name"] for r in good if r["name"] not in refs or r["name"] not in dims]
    for n in unreferenced:
        ctx.violation(f"C20:unreferenced:{n}", f"constant {n} has no entry in the reference table Model/Consts.v; "
            "neither its value nor its dimension can be shown",
            {"kind": "broken-tie", "item": n, "theorem_or_tie": "reference table coverage",
             "observed": {"si_value": str(sympy.N(by_name[n]["si"], 15)), "dimension": [str(x) for x in by_name[n]["dim"]]}},
            found_input=False)
    missing = [n for n in BASELINE if n not in by_name and n not in {r["name"] for r in rows}]
    for n in missing:
        ctx.violation(f"C20:missing:{n}", f"constant {n} of the reference table is no longer defined by the catalogue",
            {"kind": "broken-tie", "item": n, "theorem_or_tie": "reference table coverage"}, found_input=False)
    checked = [r for r in good if r["name"] not in unreferenced]

    # ---- dimensions ---------------------------------------------------------------------------
    dpre = PREAMBLE_D + "".join(f"Definition d_{r['name']} : dim := {qx.dim_lit(r['dim'])}.\n" for r in good)
    dl = [coqrun.Lemma(f"const_dim_{r['name']}", f"deqb d_{r['name']} dim_{r['name']} = true", "vm_compute. reflexivity.",
        r["name"]) for r in checked]
    ids_ok = [i for i in IDENTITIES if all(n in by_name for n in i[1])]
    for i in IDENTITIES:
        if i not in ids_ok:
            ctx.violation(f"C20:identity:{i[0]}", f"identity {i[5]} cannot be stated: a constant is missing",
                {"kind": "broken-tie", "item": i[0], "theorem_or_tie": f"ident_{i[0]}"}, found_input=False)
    dl += [coqrun.Lemma(f"ident_dim_{i[0]}", i[3], "vm_compute. reflexivity.", i[5]) for i in ids_ok]
    dres = coqrun.prove_lemmas(ctx, "dims", dpre, dl, per_file=12, timeout=300)

    # ---- values -------------------------------------------------------------------------------
    vpre = PREAMBLE_R + "".join(f"Definition v_{r['name']} : R := {r['term']}.\n" for r in good)
    vl = []
    for r in checked:
        n = r["name"]
        dev = f"Rabs (v_{n} / ref_{n} - 1)"
        if r["stated"] is not None:
            stmt = f"{dev} <= tol_{n} \\/ {dev} <= {frac_lit(r['stated'])}"
            proof = (f"unfold v_{n}, ref_{n}, tol_{n}.\nfirst [ left; interval with (i_prec 120) "
                "| right; interval with (i_prec 120) ].")
        else:
            stmt = f"{dev} <= tol_{n}"
            proof = f"unfold v_{n}, ref_{n}, tol_{n}.\ninterval with (i_prec 120)."
        vl.append(coqrun.Lemma(f"const_value_{n}", stmt, proof, n))
    for i in ids_ok:
        unf = ", ".join(f"v_{n}" for n in i[1])
        vl.append(coqrun.Lemma(f"ident_{i[0]}", i[2], f"unfold tol_identity, {unf}.\ninterval with (i_prec 120).", i[5]))
    vres = coqrun.prove_lemmas(ctx, "values", vpre, vl, per_file=5, timeout=600)
    # axioms that `interval` brings in, read once from a generated lemma that was accepted
    ok_vals = [l.name for l in vl if vres.get(l.name) == "ok"]
    if ok_vals:
        probe = next(l for l in vl if l.name == ok_vals[0])
        f = ctx.build / "gen" / "axioms_probe.v"
        f.write_text(f"{vpre}\nLemma {probe.name} : {probe.statement}.\nProof.\n{probe.proof}\nQed.\nPrint Assumptions {probe.name}.\n")
        rc, out, _err, _dt = coqrun.coqc(f, 600)
        if rc == 0:
            ax = set(axioms.parse_axiom_names(out))
            ctx.coverage["axioms"] = sorted(set(ctx.coverage["axioms"]) | ax)
            ctx.coverage["axioms_of_generated_value_lemmas"] = sorted(ax)
    ctx.obligations(len(dres) + len(vres), sum(v == "ok" for v in dres.values()) + sum(v == "ok" for v in vres.values()))
    # a value lemma that failed: try to have the kernel confirm the NEGATION (the deviation exceeds every tolerance)
    rl = []
    for r in checked:
        n = r["name"]
        if vres.get(f"const_value_{n}") == "ok":
            continue
        dev = f"Rabs (v_{n} / ref_{n} - 1)"
        stmt = f"tol_{n} < {dev}" + (f" /\\ {frac_lit(r['stated'])} < {dev}" if r["stated"] is not None else "")
        rl.append(coqrun.Lemma(f"const_value_{n}_refuted", stmt,
            f"unfold v_{n}, ref_{n}, tol_{n}.\nrepeat split; interval with (i_prec 120).", n))
    rres = coqrun.prove_lemmas(ctx, "refuted", vpre, rl, per_file=3, timeout=600) if rl else {}
    refuted = {k[len("const_value_"):-len("_refuted")] for k, v in rres.items() if v == "ok"}
    ctx.coverage["refuted_value_lemmas"] = sorted(refuted)

    # ---- decide -------------------------------------------------------------------------------
    table = []
    for r in checked:
        n = r["name"]
        rel = sympy.N(r["si"] / refs[n] - 1, 50)
        tol = max([x for x in (tols.get(n), r["stated"]) if x is not None])
        table.append({"name": n, "in_all": r["in_all"], "si_value": str(sympy.N(r["si"], 17)), "reference": str(sympy.N(refs[n], 17)),
            "relative_deviation": float(rel), "tolerance": float(tol), "source_literals": r["literals"],
            "docstring_precision": float(r["doc_precision"]) if r["doc_precision"] is not None else None,
            "dimension": [str(x) for x in r["dim"]]})
        if dres.get(f"const_dim_{n}") != "ok":
            differs = tuple(r["dim"]) != tuple(dims[n])
            ctx.violation(f"C20:dim:{n}", f"constant {n} has dimension vector {[str(x) for x in r['dim']]}, "
                f"the quantity it names has {[str(x) for x in dims[n]]} [length mass time current temperature amount luminous angle any]",
                {"kind": "violation" if differs else "broken-proof", "item": n, "input": {"constant": n, "check": "dimension"},
                 "observed": [str(x) for x in r["dim"]], "expected": [str(x) for x in dims[n]],
                 "theorem_or_tie": f"generated lemma const_dim_{n}", "coq": dres.get(f"const_dim_{n}", "")[-400:]},
                found_input=differs)
        if vres.get(f"const_value_{n}") != "ok":
            outside = abs(rel) > tol
            ctx.violation(f"C20:value:{n}", f"constant {n} = {sympy.N(r['si'], 15)} (SI, source `{r['source']}`) deviates from the "
                f"reference {sympy.N(refs[n], 15)} by {float(rel):.3e} relative; tolerance {float(tol):.3e}",
                {"kind": "violation" if outside else "broken-proof", "item": n, "input": {"constant": n, "check": "value"},
                 "observed": str(sympy.N(r["si"], 20)), "expected": str(sympy.N(refs[n], 20)),
                 "relative_deviation": float(rel), "tolerance": float(tol),
                 "kernel_refutation": (f"const_value_{n}_refuted proved (deviation > tolerance for the live value)"
                    if n in refuted else "not proved"),
                 "theorem_or_tie": f"generated lemma const_value_{n}", "coq": vres.get(f"const_value_{n}", "")[-400:]},
                found_input=bool(outside) or n in refuted)
    vals = {r["name"]: r["si"] for r in good}
    for i in ids_ok:
        dev = sympy.N(i[4](vals), 50)
        table.append({"identity": i[5], "relative_deviation": float(dev)})
        if vres.get(f"ident_{i[0]}") != "ok":
            outside = abs(dev) > 1e-9
            ctx.violation(f"C20:identity:{i[0]}", f"identity {i[5]} between the catalogue's values fails: lhs/rhs - 1 = {float(dev):.3e}",
                {"kind": "violation" if outside else "broken-proof", "item": i[0], "input": {"identity": i[0]},
                 "observed": {n: str(sympy.N(vals[n], 17)) for n in i[1]}, "relative_deviation": float(dev), "tolerance": 1e-9,
                 "theorem_or_tie": f"generated lemma ident_{i[0]}: {i[2]}", "coq": vres.get(f"ident_{i[0]}", "")[-400:]},
                found_input=bool(outside))
        if dres.get(f"ident_dim_{i[0]}") != "ok":
            ctx.violation(f"C20:identity-dim:{i[0]}", f"the two sides of {i[5]} have different dimensions",
                {"kind": "violation", "item": i[0], "input": {"identity": i[0], "check": "dimension"},
                 "observed": {n: [str(x) for x in by_name[n]["dim"]] for n in i[1]},
                 "theorem_or_tie": f"generated lemma ident_dim_{i[0]}: {i[3]}"}, found_input=True)

    ctx.evaluated(len(rows) + len(ids_ok), len(checked) + len(ids_ok))
    stability(ctx, rows)
    ctx.coverage["constants"] = len(rows)
    ctx.coverage["constants_checked"] = len(checked)
    ctx.coverage["not_in___all__"] = [r["name"] for r in rows if not r["in_all"]]
    ctx.coverage["unreferenced"] = unreferenced
    ctx.coverage["identities"] = [i[5] for i in ids_ok]
    ctx.coverage["table"] = table
    ctx.coverage["exhaustive"] = True
    ctx.coverage["rule"] = ("every name of quantities.__all__ plus every other public Quantity attribute of the module (finite table, "
        "exhaustive); per constant one dimension lemma and one value lemma, per identity one value and one dimension lemma; "
        "distinct_nontrivial = constants with a reference entry + identities")
    for t in table[:4] + table[-2:]:
        ctx.sample(t)


def replay(ctx, rep):
    """Re-read the constant / identity named in the replay file from the current /repo and print both numbers."""
    inp = rep.get("input") or {}
    print("replaying", rep.get("key"), "--", rep.get("what"))
    run(ctx)
    still = [v for v in ctx.violations if v.key == rep.get("key")]
    for v in still:
        print("still failing:", v.what)
    if not still:
        print("no longer failing:", inp)
    return 1 if still else 0
