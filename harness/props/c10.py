"""C10 -- Cartesian vector arithmetic obeys vector-space, dot and cross product laws.

static theorems : coq/theories/Properties/C10.v   (about Model/CartVec.v, all lengths by induction, cross for <= 3)
tie             : (a) generic run + equality proved in Coq: the REAL functions of core/vectors/arithmetics.py are run
                      on vectors of fresh symbols for every length combination; every returned component is serialised
                      with sx.py and the generated lemma `corr_<op>_<lens> : forall x.. : R, impl = CartVec.<op> ...`
                      is proved by cbv + ring / field.  The lemma only says implementation output = model output; the
                      algebraic laws are theorems about the model (SymPy never sees an identity).
                  (b) value-obliviousness: the same functions on seeded concrete rational vectors vs the generic output
                      instantiated at the same values.
                  (c) serialiser self-check: each emitted rational term re-evaluated inside Coq (Q, vm_compute).
                  (d) refusal rules: every operation on every pair of coordinate-system objects (2 objects per type,
                      6 x 6) and lengths 0..4 against CartVec.binop_outcome, evaluated inside Coq.
                  (e) equal_vectors on rational vectors against CartVec.veqbQ, evaluated inside Coq.
search          : when anything of the above breaks, the property's identities are evaluated on the implementation at
                  seeded rational vectors of the affected shape (spec predicates written from the property text)."""
from __future__ import annotations

import itertools
from fractions import Fraction

import sympy
from sympy import Rational, S, Symbol

from vp import axioms, coqrun, qx, sx

STATIC = ['c10_add_comm', 'c10_add_assoc', 'c10_sum_is_left_fold', 'c10_sub_inverse', 'c10_sub_inverse_veq',
    'c10_add_sub_inverse', 'c10_sub_self', 'c10_sub_nary', 'c10_scale_distr_vadd', 'c10_scale_distr_plus',
    'c10_scale_compose', 'c10_scale_one', 'c10_dot_symmetric', 'c10_dot_additive_l', 'c10_dot_additive_r',
    'c10_dot_homogeneous_l', 'c10_dot_homogeneous_r', 'c10_magnitude_squared', 'c10_padding_dot',
    'c10_padding_equality', 'c10_cross_additive_l', 'c10_cross_additive_r', 'c10_cross_homogeneous_l',
    'c10_cross_homogeneous_r', 'c10_cross_antisymmetric', 'c10_cross_orthogonal_l', 'c10_cross_orthogonal_r',
    'c10_cross_lagrange', 'c10_cross_defined_iff_short', 'c10_padding_cross', 'c10_project_plus_reject',
    'c10_project_plus_reject_veq', 'c10_reject_orthogonal', 'c10_unit_magnitude', 'c10_nonzero_iff_dot',
    'c10_equal_vectors_spec', 'c10_refuses_mixed_systems', 'c10_refuses_noncartesian', 'c10_accepts_cartesian',
    'c10_cross_refuses_long']

PREAMBLE_R = sx.R_PREAMBLE + """From VP Require Import Base.Util Model.CartVec Proofs.CartVecProofs.
Import ListNotations.
"""

PREAMBLE_CASES = """From Coq Require Import List QArith ZArith NArith Bool.
From VP Require Import Base.Util Model.CartVec.
Import ListNotations.
"""


def impl():
    from symplyphysics.core.vectors import arithmetics as ar  # pylint: disable=import-outside-toplevel
    from symplyphysics.core.vectors.vectors import Vector  # pylint: disable=import-outside-toplevel
    from symplyphysics.core.coordinate_systems.coordinate_systems import CoordinateSystem  # pylint: disable=import-outside-toplevel
    return ar, Vector, CoordinateSystem


# ---------------------------------------------------------------------------------------------
# operations: how the real function is called and which model term it must equal
# ---------------------------------------------------------------------------------------------
# name -> (number of vectors, takes scalar?, python call, model term builder, hypothesis builder, result kind)

def _ops():
    ar, _V, _C = impl()
    return {
        "add": (2, False, lambda v, k: ar.add_cartesian_vectors(v[0], v[1]),
                lambda m, k: f"vadd {m[0]} {m[1]}", None, "vec"),
        "add1": (1, False, lambda v, k: ar.add_cartesian_vectors(v[0]),
                 lambda m, k: f"vsum {m[0]} []", None, "vec"),
        "add3": (3, False, lambda v, k: ar.add_cartesian_vectors(v[0], v[1], v[2]),
                 lambda m, k: f"vsum {m[0]} [{m[1]}; {m[2]}]", None, "vec"),
        "add3r": (3, False, lambda v, k: ar.add_cartesian_vectors(v[0], ar.add_cartesian_vectors(v[1], v[2])),
                  lambda m, k: f"vadd {m[0]} (vadd {m[1]} {m[2]})", None, "vec"),
        "sub": (2, False, lambda v, k: ar.subtract_cartesian_vectors(v[0], v[1]),
                lambda m, k: f"vsub {m[0]} {m[1]}", None, "vec"),
        "sub3": (3, False, lambda v, k: ar.subtract_cartesian_vectors(v[0], v[1], v[2]),
                 lambda m, k: f"vsub_n {m[0]} {m[1]} [{m[2]}]", None, "vec"),
        "scale": (1, True, lambda v, k: ar.scale_vector(k, v[0]),
                  lambda m, k: f"vscale {k} {m[0]}", None, "vec"),
        "dot": (2, False, lambda v, k: ar.dot_vectors(v[0], v[1]),
                lambda m, k: f"dot {m[0]} {m[1]}", None, "scalar"),
        "mag": (1, False, lambda v, k: ar.vector_magnitude(v[0]),
                lambda m, k: f"mag {m[0]}", None, "scalar"),
        "cross": (2, False, lambda v, k: ar.cross_cartesian_vectors(v[0], v[1]),
                  lambda m, k: f"cross_opt {m[0]} {m[1]}", None, "optvec"),
        "unit": (1, False, lambda v, k: ar.vector_unit(v[0]),
                 lambda m, k: f"unit {m[0]}", lambda m, lens: f"dot {m[0]} {m[0]} <> 0" if lens[0] else None, "vec"),
        "project": (2, False, lambda v, k: ar.project_vector(v[0], v[1]),
                    lambda m, k: f"project {m[0]} {m[1]}",
                    lambda m, lens: f"dot {m[1]} {m[1]} <> 0" if lens[1] else None, "vec"),
        "reject": (2, False, lambda v, k: ar.reject_cartesian_vector(v[0], v[1]),
                   lambda m, k: f"reject {m[0]} {m[1]}",
                   lambda m, lens: f"dot {m[1]} {m[1]} <> 0" if lens[1] else None, "vec"),
        # the SAME Vector object in several argument positions
        "add_same": (1, False, lambda v, k: ar.add_cartesian_vectors(v[0], v[0]),
                     lambda m, k: f"vadd {m[0]} {m[0]}", None, "vec"),
        "add3_same": (1, False, lambda v, k: ar.add_cartesian_vectors(v[0], v[0], v[0]),
                      lambda m, k: f"vsum {m[0]} [{m[0]}; {m[0]}]", None, "vec"),
        "add_aba": (2, False, lambda v, k: ar.add_cartesian_vectors(v[0], v[1], v[0]),
                    lambda m, k: f"vsum {m[0]} [{m[1]}; {m[0]}]", None, "vec"),
        "sub_same": (1, False, lambda v, k: ar.subtract_cartesian_vectors(v[0], v[0]),
                     lambda m, k: f"vsub {m[0]} {m[0]}", None, "vec"),
        "sub_abb": (2, False, lambda v, k: ar.subtract_cartesian_vectors(v[0], v[1], v[1]),
                    lambda m, k: f"vsub_n {m[0]} {m[1]} [{m[1]}]", None, "vec"),
        "dot_same": (1, False, lambda v, k: ar.dot_vectors(v[0], v[0]),
                     lambda m, k: f"dot {m[0]} {m[0]}", None, "scalar"),
        "cross_same": (1, False, lambda v, k: ar.cross_cartesian_vectors(v[0], v[0]),
                       lambda m, k: f"cross_opt {m[0]} {m[0]}", None, "optvec"),
        "project_same": (1, False, lambda v, k: ar.project_vector(v[0], v[0]),
                         lambda m, k: f"project {m[0]} {m[0]}",
                         lambda m, lens: f"dot {m[0]} {m[0]} <> 0" if lens[0] else None, "vec"),
        "reject_same": (1, False, lambda v, k: ar.reject_cartesian_vector(v[0], v[0]),
                        lambda m, k: f"reject {m[0]} {m[0]}",
                        lambda m, lens: f"dot {m[0]} {m[0]} <> 0" if lens[0] else None, "vec"),
    }


VNAMES = "abc"


def symbols_for(lens):
    return [[Symbol(f"{VNAMES[i]}{j}") for j in range(n)] for i, n in enumerate(lens)]


def coq_list(names):
    return "[" + "; ".join(names) + "]"


def generic_run(op, spec, lens, masks=None):
    """Run the real function on fresh symbols; returns dict with impl output, Coq lemma, self-check data.
    `masks` (one bit mask per operand): slot j of operand i holds a symbol iff bit j is set, a literal 0 otherwise
    (structural zeros: planar / axial operands make sub-expressions vanish that generic symbols never do)."""
    _ar, Vector, _C = impl()
    nvec, has_k, call, model, hyp, kind = spec
    syms = symbols_for(lens)
    if masks is not None:
        syms = [[s if (m >> j) & 1 else S.Zero for j, s in enumerate(vs)] for vs, m in zip(syms, masks)]
    k = Symbol("k") if has_k else None
    out = call([Vector(s) for s in syms], k)
    comps = list(out.components) if kind != "scalar" else [sympy.sympify(out)]
    rc = sx.RCtx(atoms=False)
    names = [[rc.term(s) for s in vs] for vs in syms]
    kname = rc.term(k) if has_k else None
    terms = [rc.term(c) for c in comps]
    mlists = [coq_list(ns) for ns in names]
    rhs = model(mlists, kname)
    if kind == "scalar":
        lhs = terms[0]
    elif kind == "optvec":
        lhs = f"Some {coq_list(terms)}"
    else:
        lhs = coq_list(terms)
    h = hyp(mlists, lens) if hyp else None
    binder = f"forall {rc.binder()}, " if rc.vars else ""
    stmt = f"{binder}{h + ' -> ' if h else ''}{lhs} = {rhs}"
    name = f"corr_{op}_" + "_".join(map(str, lens)) + ("" if masks is None else "_z" + "_".join(map(str, masks)))
    return {"masks": masks, "op": op, "lens": tuple(lens), "syms": syms, "k": k, "comps": comps, "kind": kind, "name": name,
        "lemma": coqrun.Lemma(name, stmt, "cv_corr.", f"arithmetics.py {op} on lengths {tuple(lens)}"), "stmt": stmt}


def shapes(ctx, nvec):
    top = ctx.pick(3, 4)  # thorough also covers four components where the code allows any length
    return list(itertools.product(range(top + 1), repeat=nvec))


# ---------------------------------------------------------------------------------------------
# exact helpers on the implementation's outputs
# ---------------------------------------------------------------------------------------------

def is_zero(e) -> bool:
    e = sympy.sympify(e)
    if e == 0:
        return True
    if e.is_Rational:
        return False
    try:
        return sympy.simplify(e) == 0
    except Exception:  # pylint: disable=broad-except
        return False


def bad_number(e) -> bool:
    e = sympy.sympify(e)
    return e.has(sympy.nan, sympy.zoo, sympy.oo, -sympy.oo)


def pad_eq(xs, ys) -> bool:
    """Equal up to zero padding (missing components count as zero), exact."""
    xs, ys = list(xs), list(ys)
    n = max(len(xs), len(ys))
    xs = xs + [S.Zero] * (n - len(xs))
    ys = ys + [S.Zero] * (n - len(ys))
    return all((not bad_number(x - y)) and is_zero(x - y) for x, y in zip(xs, ys))


VALUE_POOL = [0, 0, 1, -1, 2, -3, 5, Rational(1, 2), Rational(-2, 3), Rational(7, 4), 10, -7]


def rand_vec(rng, n, nonzero=False):
    for _ in range(50):
        v = [sympy.sympify(rng.choice(VALUE_POOL)) for _ in range(n)]
        if not nonzero or any(x != 0 for x in v):
            return v
    return [S.One] * n


# ---------------------------------------------------------------------------------------------
# specification predicates, written from the property text, evaluated on the implementation only
# ---------------------------------------------------------------------------------------------
# each: (name, ops it involves, number of vectors, needs scalars, fn(ar, V, vecs, ks) -> (ok, detail))

def spec_identities():
    ar, V, _C = impl()
    add, sub, scale = ar.add_cartesian_vectors, ar.subtract_cartesian_vectors, ar.scale_vector
    dot, cross, mag = ar.dot_vectors, ar.cross_cartesian_vectors, ar.vector_magnitude
    c = lambda v: list(v.components)

    def pad(v, n=3):
        return V(c(v) + [0] * (n - len(c(v))))

    def veq(x, y):
        return pad_eq(c(x), c(y))

    def seq(x, y):
        return is_zero(sympy.sympify(x) - sympy.sympify(y))

    def nz(v):
        return any(x != 0 for x in c(v))

    I = []
    I.append(("add_commutative", {"add"}, 2, 0, lambda v, k: veq(add(v[0], v[1]), add(v[1], v[0]))))
    I.append(("add_associative", {"add", "add3", "add3r"}, 3, 0,
        lambda v, k: veq(add(add(v[0], v[1]), v[2]), add(v[0], add(v[1], v[2]))) and
        veq(add(v[0], v[1], v[2]), add(v[0], add(v[1], v[2])))))
    I.append(("add_single_is_identity", {"add1"}, 1, 0, lambda v, k: veq(add(v[0]), v[0])))
    I.append(("add_pads_with_zero", {"add"}, 2, 0,
        lambda v, k: veq(add(v[0], v[1]), add(pad(v[0], 4), pad(v[1], 4))) and
        len(c(add(v[0], v[1]))) == max(len(c(v[0])), len(c(v[1])))))
    I.append(("sub_inverse_of_add", {"sub", "add"}, 2, 0, lambda v, k: veq(sub(add(v[0], v[1]), v[1]), v[0]) and
        veq(add(sub(v[0], v[1]), v[1]), v[0])))
    I.append(("sub_nary", {"sub3", "sub"}, 3, 0, lambda v, k: veq(sub(v[0], v[1], v[2]), sub(sub(v[0], v[1]), v[2])) and
        veq(add(sub(v[0], v[1], v[2]), v[1], v[2]), v[0])))
    I.append(("scale_distributes_over_add", {"scale", "add"}, 2, 1,
        lambda v, k: veq(scale(k[0], add(v[0], v[1])), add(scale(k[0], v[0]), scale(k[0], v[1])))))
    I.append(("scale_distributes_over_scalar_sum", {"scale"}, 1, 2,
        lambda v, k: veq(scale(k[0] + k[1], v[0]), add(scale(k[0], v[0]), scale(k[1], v[0]))) and
        veq(scale(k[0], scale(k[1], v[0])), scale(k[0] * k[1], v[0])) and veq(scale(1, v[0]), v[0])))
    I.append(("dot_symmetric", {"dot"}, 2, 0, lambda v, k: seq(dot(v[0], v[1]), dot(v[1], v[0]))))
    I.append(("dot_bilinear", {"dot", "add", "scale"}, 3, 1,
        lambda v, k: seq(dot(add(v[0], v[1]), v[2]), dot(v[0], v[2]) + dot(v[1], v[2])) and
        seq(dot(v[2], add(v[0], v[1])), dot(v[2], v[0]) + dot(v[2], v[1])) and
        seq(dot(scale(k[0], v[0]), v[1]), k[0] * dot(v[0], v[1])) and
        seq(dot(v[0], scale(k[0], v[1])), k[0] * dot(v[0], v[1]))))
    I.append(("dot_pads_with_zero", {"dot"}, 2, 0, lambda v, k: seq(dot(v[0], v[1]), dot(pad(v[0], 4), pad(v[1], 4))) and
        seq(dot(v[0], v[1]), sum((x * y for x, y in zip(c(v[0]), c(v[1]))), S.Zero))))
    I.append(("magnitude_squared_is_self_dot", {"mag", "dot"}, 1, 0,
        lambda v, k: seq(mag(v[0])**2, dot(v[0], v[0])) and
        seq(dot(v[0], v[0]), sum((x * x for x in c(v[0])), S.Zero)) and not (mag(v[0]) < 0)))
    I.append(("cross_bilinear", {"cross", "add", "scale"}, 3, 1,
        lambda v, k: veq(cross(add(v[0], v[1]), v[2]), add(cross(v[0], v[2]), cross(v[1], v[2]))) and
        veq(cross(v[2], add(v[0], v[1])), add(cross(v[2], v[0]), cross(v[2], v[1]))) and
        veq(cross(scale(k[0], v[0]), v[1]), scale(k[0], cross(v[0], v[1]))) and
        veq(cross(v[0], scale(k[0], v[1])), scale(k[0], cross(v[0], v[1])))))
    I.append(("cross_antisymmetric", {"cross"}, 2, 0,
        lambda v, k: veq(cross(v[0], v[1]), scale(-1, cross(v[1], v[0])))))
    I.append(("cross_orthogonal_to_factors", {"cross"}, 2, 0,
        lambda v, k: seq(dot(cross(v[0], v[1]), v[0]), 0) and seq(dot(cross(v[0], v[1]), v[1]), 0)))
    I.append(("cross_lagrange", {"cross"}, 2, 0,
        lambda v, k: seq(dot(cross(v[0], v[1]), cross(v[0], v[1])),
            dot(v[0], v[0]) * dot(v[1], v[1]) - dot(v[0], v[1])**2)))
    I.append(("cross_right_handed_basis", {"cross"}, 0, 0,
        lambda v, k: veq(cross(V([1]), V([0, 1])), V([0, 0, 1])) and veq(cross(V([0, 1]), V([0, 0, 1])), V([1])) and
        veq(cross(V([0, 0, 1]), V([1])), V([0, 1]))))
    I.append(("cross_pads_with_zero", {"cross"}, 2, 0,
        lambda v, k: veq(cross(v[0], v[1]), cross(pad(v[0]), pad(v[1])))))
    I.append(("project_plus_reject", {"project", "reject"}, 2, 0,
        lambda v, k: (not nz(v[1])) or veq(add(ar.project_vector(v[0], v[1]), ar.reject_cartesian_vector(v[0], v[1])), v[0])))
    I.append(("reject_orthogonal_to_target", {"project", "reject"}, 2, 0,
        lambda v, k: (not nz(v[1])) or seq(dot(ar.reject_cartesian_vector(v[0], v[1]), v[1]), 0)))
    I.append(("project_parallel_to_target", {"project"}, 2, 0,
        lambda v, k: (not nz(v[1])) or (len(c(v[1])) > 3) or
        veq(cross(ar.project_vector(v[0], v[1]), v[1]), V([]))))
    I.append(("same_object_operands", {"add_same", "add3_same", "add_aba", "sub_same", "sub_abb", "dot_same", "cross_same",
        "project_same", "reject_same"}, 2, 0,
        lambda v, k: veq(add(v[0], v[0]), scale(2, v[0])) and veq(add(v[0], v[0], v[0]), scale(3, v[0])) and
        veq(add(v[0], v[1], v[0]), add(scale(2, v[0]), v[1])) and veq(sub(v[0], v[0]), V([])) and
        veq(sub(v[0], v[1], v[1]), add(v[0], scale(-2, v[1]))) and
        seq(dot(v[0], v[0]), sum((x * x for x in c(v[0])), S.Zero)) and
        (len(c(v[0])) > 3 or veq(cross(v[0], v[0]), V([]))) and
        ((not nz(v[0])) or (veq(ar.project_vector(v[0], v[0]), v[0]) and veq(ar.reject_cartesian_vector(v[0], v[0]), V([]))))))
    I.append(("unit_has_magnitude_one", {"unit", "mag"}, 1, 0,
        lambda v, k: (not nz(v[0])) or (seq(mag(ar.vector_unit(v[0])), 1) and
            (len(c(v[0])) > 3 or veq(cross(ar.vector_unit(v[0]), v[0]), V([]))) and
            not (dot(ar.vector_unit(v[0]), v[0]) < 0))))
    return I


def search_failing_input(ctx, op, lens, trials=40, masks=None):
    """Evaluate the property's identities that involve `op` on the implementation at seeded rational vectors whose
    first len(lens) operands have the lengths of the broken item.  Returns a replay dict or None."""
    _ar, V, _C = impl()
    rng = ctx.rng
    for name, ops, nvec, nk, fn in spec_identities():
        if op is not None and op not in ops:
            continue
        for t in range(trials):
            ls = [(lens[i] if (lens is not None and i < len(lens) and t < trials // 2) else rng.randrange(0, 4))
                for i in range(nvec)]
            vals = [rand_vec(rng, n) for n in ls]
            if masks is not None and t < trials // 2:       # keep the structural zeros of the broken item, other slots non-zero
                vals = [[(x if x != 0 else S.One) if (masks[i] >> j) & 1 else S.Zero for j, x in enumerate(v)] if i < len(masks) else v
                    for i, v in enumerate(vals)]
            ks = [sympy.sympify(rng.choice([2, -1, Rational(1, 3), -5, 0])) for _ in range(nk)]
            ok, err = eval_identity(fn, V, vals, ks)
            if not ok:
                return {"identity": name, "vectors": [[str(x) for x in v] for v in vals], "scalars": [str(x) for x in ks],
                    "error": err}
    return None


def eval_identity(fn, V, vals, ks):
    try:
        return bool(fn([V(v) for v in vals], ks)), None
    except Exception as e:  # pylint: disable=broad-except
        return False, f"{type(e).__name__}: {e}"[:300]


# ---------------------------------------------------------------------------------------------
# (a) generic tie
# ---------------------------------------------------------------------------------------------

def generic_tie(ctx):
    ops = _ops()
    items = []
    broken = []
    for op, spec in ops.items():
        nvec = spec[0]
        shp = shapes(ctx, nvec)
        if op in ("cross", "cross_same"):
            shp = [s for s in shp if max(s, default=0) <= 3]   # longer operands are refused (see refusals)
        if ctx.quick and op in ("sub3",):
            shp = [s for s in shp if max(s) - min(s) >= 2 or s in ((3, 3, 3), (1, 1, 1))]
        for lens in shp:
            try:
                items.append(generic_run(op, spec, lens))
            except Exception as e:  # pylint: disable=broad-except
                broken.append((op, lens, f"{type(e).__name__}: {e}"[:300]))
    # structural zeros: every pattern of populated coordinates (8 x 8 for the cross product; the coordinate planes and axes
    # for the other binary operations in quick, all patterns in thorough)
    planes = [0b011, 0b101, 0b110, 0b001, 0b010, 0b100]
    for op in ("cross", "dot", "add", "sub", "project", "reject"):
        pats = list(range(8)) if (op == "cross" or not ctx.quick) else planes
        for ma, mb in itertools.product(pats, repeat=2):
            if (ma == 7 and mb == 7) or (op in ("project", "reject") and mb == 0):
                continue
            try:
                items.append(generic_run(op, ops[op], (3, 3), masks=(ma, mb)))
            except Exception as e:  # pylint: disable=broad-except
                broken.append((op, (3, 3), f"zero pattern {ma:03b}/{mb:03b}: {type(e).__name__}: {e}"[:300]))
    for op, lens, msg in broken:
        found = search_failing_input(ctx, op, lens)
        ctx.violation(f"C10:generic-run:{op}:{'x'.join(map(str, lens))}",
            f"{op} on generic vectors of lengths {lens} could not be run or serialised: {msg}",
            {"kind": "broken-tie", "item": f"{op}{lens}", "theorem_or_tie": "generic run + sx.py", "observed": msg,
             "input": found}, found_input=found is not None)
    res = coqrun.prove_lemmas(ctx, "corr", PREAMBLE_R, [it["lemma"] for it in items], per_file=12, timeout=600)
    n_ok = sum(v == "ok" for v in res.values())
    ctx.obligations(len(res), n_ok)
    for it in items:
        if res.get(it["name"]) == "ok":
            continue
        found = search_failing_input(ctx, it["op"], it["lens"], masks=it.get("masks"))
        what = (f"implementation output of {it['op']} on lengths {it['lens']}"
            + (f" with zero pattern {'/'.join(format(m, '03b')[::-1] for m in it['masks'])} (xyz, 1 = symbol)" if it.get("masks") else "")
            + " is not the model's: "
            f"{[str(c) for c in it['comps']]}")
        ctx.violation(f"C10:corr:{it['name']}", what,
            {"kind": "broken-proof", "item": it["name"], "theorem_or_tie": f"generated lemma {it['name']}: {it['stmt']}",
             "observed": [str(c) for c in it["comps"]], "coq": res.get(it["name"], "")[-600:], "input": found,
             "expected": "the property's identity named in input.identity holds"}, found_input=found is not None)
    ctx.coverage["generic_lemmas"] = len(items)
    ctx.coverage["generic_lemmas_by_op"] = {op: sum(1 for it in items if it["op"] == op) for op in ops}
    for it in items[5:7] + items[-2:]:
        ctx.sample({"generated_lemma": it["name"], "statement": it["stmt"]})
    return items


# ---------------------------------------------------------------------------------------------
# (b) value-obliviousness, (c) serialiser self-check
# ---------------------------------------------------------------------------------------------

def concrete_tie(ctx, items):
    _ar, Vector, _C = impl()
    ops = _ops()
    rng = ctx.rng
    n_cmp = 0
    distinct = set()
    skipped = 0
    for it in items:
        spec = ops[it["op"]]
        for t in range(8):
            if t >= 5 and (it.get("masks") is not None or max(it["lens"], default=0) <= t - 5):
                continue
            vals = []
            for i, n in enumerate(it["lens"]):
                if t == 0:
                    vals.append([S.Zero] * n)                 # all zero
                elif t == 1:
                    vals.append([sympy.sympify(-(j + 1 + i)) for j in range(n)])   # negatives
                elif t >= 5:                                  # planar: coordinate t-5 vanishes in every operand, the others do not
                    vals.append([S.Zero if j == t - 5 else sympy.sympify(rng.choice([1, -1, 2, -3, 5, Rational(1, 2), Rational(7, 4)]))
                        for j in range(n)])
                else:
                    vals.append(rand_vec(rng, n))
            if it.get("masks") is not None:                   # structural zeros stay zeros
                vals = [[v if (m >> j) & 1 else S.Zero for j, v in enumerate(vv)] for vv, m in zip(vals, it["masks"])]
            kval = sympy.sympify(rng.choice([0, -1, 3, Rational(-2, 5)])) if it["k"] is not None else None
            needs_nz = {"unit": 0, "project": 1, "reject": 1, "project_same": 0, "reject_same": 0}.get(it["op"])
            if needs_nz is not None and it["lens"][needs_nz] and all(x == 0 for x in vals[needs_nz]):
                skipped += 1
                continue
            sub = {s: v for ss, vv in zip(it["syms"], vals) for s, v in zip(ss, vv) if s != 0}
            if it["k"] is not None:
                sub[it["k"]] = kval
            # python ints as well as SymPy numbers are legitimate components
            pyvals = [[int(x) if (x.is_Integer and t % 2 == 0) else x for x in v] for v in vals]
            try:
                out = spec[2]([Vector(v) for v in pyvals], kval)
                got = list(out.components) if it["kind"] != "scalar" else [sympy.sympify(out)]
                err = None
            except Exception as e:  # pylint: disable=broad-except
                got, err = None, f"{type(e).__name__}: {e}"[:200]
            want = [c.subs(sub, simultaneous=True) for c in it["comps"]]
            n_cmp += 1
            key = (it["op"], it["lens"], tuple(map(tuple, vals)), kval)
            if any(x != 0 for v in vals for x in v):
                distinct.add(key)
            ok = got is not None and len(got) == len(want) and all(
                (not bad_number(g)) and (not bad_number(w)) and is_zero(g - w) for g, w in zip(got, want))
            if not ok:
                found = search_failing_input(ctx, it["op"], it["lens"])
                ctx.violation(f"C10:value-oblivious:{it['op']}:{'x'.join(map(str, it['lens']))}",
                    f"{it['op']} on concrete vectors {vals} differs from its generic output instantiated there",
                    {"kind": "disagreement", "item": it["name"], "input": found or {"vectors": [[str(x) for x in v] for v in vals], "scalar": str(kval)},
                     "observed": [str(g) for g in got] if got is not None else err, "expected": [str(w) for w in want],
                     "theorem_or_tie": "value-obliviousness of the generic run (DESIGN 3.1(3))"},
                    found_input=found is not None)
    ctx.evaluated(n_cmp, len(distinct))
    ctx.coverage["concrete_instantiations"] = n_cmp
    ctx.coverage["concrete_skipped_zero_target"] = skipped


def serialiser_selfcheck(ctx, items):
    rng = ctx.rng
    lits, meta = [], []
    for it in items:
        syms = [s for ss in it["syms"] for s in ss if s != 0] + ([it["k"]] if it["k"] is not None else [])
        for _ in range(ctx.pick(2, 3)):
            env = {s: Fraction(rng.randint(-9, 9), rng.randint(1, 5)) for s in syms}
            for comp in it["comps"]:
                try:
                    qt = sx.qterm(comp, env)
                except sx.Unsupported:
                    continue   # sqrt terms: not in the rational fragment
                val = comp.subs({s: Rational(f.numerator, f.denominator) for s, f in env.items()}, simultaneous=True)
                if bad_number(val) or not val.is_Rational:
                    continue
                lits.append(f"Qeq_bool {qt} {qx.q_lit(Fraction(int(val.p), int(val.q)))}")
                meta.append((it["name"], str(comp)))
    if not lits:
        return
    bad = coqrun.eval_cases(ctx, "sx_selfcheck", PREAMBLE_CASES + "Local Open Scope Q_scope.\n", lits,
        "fun b : bool => b", per_file=600)
    for i in bad[:5]:
        ctx.violation(f"C10:sx-selfcheck:{meta[i][0]}", f"serialised term of {meta[i][1]} evaluates differently inside Coq",
            {"kind": "broken-tie", "item": meta[i][0], "theorem_or_tie": "sx.py re-evaluation (DESIGN 3.1(1))",
             "gallina": lits[i]}, found_input=False)
    ctx.coverage["translator_selfcheck"] = len(lits)
    ctx.evaluated(len(lits), 0)


# ---------------------------------------------------------------------------------------------
# (d) refusals
# ---------------------------------------------------------------------------------------------

TYPE_NAMES = ["Cartesian", "Cylindrical", "Spherical"]
BINOPS = ["OpAdd", "OpSub", "OpDot", "OpCross", "OpEqual", "OpProject", "OpReject"]
NEEDS_CART = {"OpAdd", "OpSub", "OpCross", "OpReject"}


def observe(fn):
    try:
        fn()
    except TypeError as e:
        return "Refuse 1%N", f"TypeError: {e}"[:160]
    except ValueError as e:
        return "Refuse 3%N", f"ValueError: {e}"[:160]
    except Exception as e:  # pylint: disable=broad-except
        return "Refuse 4%N", f"{type(e).__name__}: {e}"[:160]
    return "Accept", ""


def refusals(ctx):
    ar, Vector, CS = impl()
    from sympy.vector import CoordSys3D  # pylint: disable=import-outside-toplevel
    from symplyphysics.core.coordinate_systems.coordinate_systems import (  # pylint: disable=import-outside-toplevel
        coordinates_transform, coordinates_rotate)
    types = [CS.System.CARTESIAN, CS.System.CYLINDRICAL, CS.System.SPHERICAL]
    systems = []   # (id, type index, object, how it was built)
    for ti, ty in enumerate(types):
        for k in range(2):
            systems.append((len(systems) + 1, ti, CS(ty), f"CoordinateSystem({TYPE_NAMES[ti]}) #{k + 1}"))
    # The library's notion of "same system" is `!=` on CoordinateSystem objects; the class defines no __eq__/__hash__,
    # so it is object identity.  Distinct wrapper objects are therefore different systems even when they share,
    # duplicate or derive from one inner sympy CoordSys3D -- the model gives every wrapper object its own id.
    parent = systems[0]
    inner = parent[2].coord_system
    related = []
    def rel(ti, obj, how):
        related.append((len(systems) + len(related) + 1, ti, obj, how))
    for ti, ty in enumerate(types):
        rel(ti, CS(ty, inner), f"CoordinateSystem({TYPE_NAMES[ti]}, inner=<the CoordSys3D instance of system 1>)")
    for ti, ty in enumerate(types):
        twin = CoordSys3D(str(inner), variable_names=CS.system_to_base_scalars(ty))
        assert twin == inner and twin is not inner
        rel(ti, CS(ty, twin), f"CoordinateSystem({TYPE_NAMES[ti]}, inner=CoordSys3D(<same name as system 1's>))")
    for ti, ty in enumerate(types):
        rel(ti, coordinates_transform(parent[2], ty), f"coordinates_transform(system 1, {TYPE_NAMES[ti]})")
    rel(0, coordinates_rotate(parent[2], Symbol("phi"), inner.k), "coordinates_rotate(system 1, phi, k)")
    everything = systems + related
    family = [parent] + related
    assert len({id(x[2]) for x in everything}) == len(everything)
    how = {x[0]: x[3] for x in everything}
    calls = {
        "OpAdd": ar.add_cartesian_vectors, "OpSub": ar.subtract_cartesian_vectors, "OpDot": ar.dot_vectors,
        "OpCross": ar.cross_cartesian_vectors, "OpEqual": ar.equal_vectors, "OpProject": ar.project_vector,
        "OpReject": ar.reject_cartesian_vector,
    }
    lens_all = list(itertools.product(range(5), repeat=2))
    lens_quick = [(0, 0), (0, 2), (1, 3), (2, 2), (3, 3), (3, 4), (4, 1), (4, 4)]
    cases = []

    def shape_lit(s, n):
        return f"(mk_csys {s[0]}%N {TYPE_NAMES[s[1]]}, {n}%nat)"

    def vec(s, n, tag):
        return Vector([Symbol(f"{tag}{j}") for j in range(n)], s[2])

    if ctx.quick:
        pairs = list(itertools.product(systems, repeat=2)) + [p for p in itertools.product(family, repeat=2)
            if not (p[0] is parent and p[1] is parent)]
    else:
        pairs = list(itertools.product(everything, repeat=2))
    lens_family = [(0, 0), (2, 3), (3, 3), (4, 1)]
    for op in BINOPS:
        for sl, sr in pairs:
            base_pair = sl[0] <= len(systems) and sr[0] <= len(systems)
            lens = lens_all if (not ctx.quick or (op == "OpCross" and base_pair)) else (lens_quick if base_pair else lens_family)
            for n, m in lens:
                obs, msg = observe(lambda: calls[op](vec(sl, n, "p"), vec(sr, m, "q")))
                cases.append({"lit": f"(BinCase {op} {shape_lit(sl, n)} {shape_lit(sr, m)}, {obs})", "op": op, "sl": sl[:2],
                    "sr": sr[:2], "lens": (n, m), "obs": obs, "msg": msg})
    # the SAME Vector object on both sides / several times in the argument list, every system type
    for op in BINOPS:
        for s_ in systems[::2] + related[:3]:
            for n in range(5):
                v = vec(s_, n, "p")
                obs, msg = observe(lambda: calls[op](v, v))
                cases.append({"lit": f"(BinCase {op} {shape_lit(s_, n)} {shape_lit(s_, n)}, {obs})", "op": op, "sl": s_[:2],
                    "sr": s_[:2], "lens": (n, n), "obs": obs, "msg": msg + " [same Vector object on both sides]"})
    for s_ in systems[::2]:
        for n in (0, 2, 3):
            v, w = vec(s_, n, "p"), vec(s_, 3, "q")
            for is_add, fn in ((True, ar.add_cartesian_vectors), (False, ar.subtract_cartesian_vectors)):
                for args, tag in (((v, v, v), "v,v,v"), ((v, w, v), "v,w,v"), ((w, v, v), "w,v,v")):
                    obs, msg = observe(lambda: fn(*args))
                    sh = "; ".join(shape_lit(s_, len(a.components)) for a in args)
                    cases.append({"lit": f"(NaryCase {'true' if is_add else 'false'} [{sh}], {obs})",
                        "op": ("add" if is_add else "sub") + f"({tag})", "sl": [s_[:2]] * 3, "sr": None,
                        "lens": tuple(len(a.components) for a in args), "obs": obs, "msg": msg + " [repeated Vector object]"})
    # unary operations and n-ary sums / differences
    for s in systems[::2]:
        for n in range(5):
            for uname, fn in (("UMagnitude", ar.vector_magnitude), ("UUnit", ar.vector_unit),
                    ("UScale", lambda v: ar.scale_vector(Symbol("k"), v)), ("UAdd1", ar.add_cartesian_vectors)):
                obs, msg = observe(lambda: fn(vec(s, n, "p")))
                cases.append({"lit": f"(UnCase {uname} {shape_lit(s, n)}, {obs})", "op": uname, "sl": s[:2], "sr": None,
                    "lens": (n,), "obs": obs, "msg": msg})
    obs, msg = observe(ar.add_cartesian_vectors)
    cases.append({"lit": f"(NaryCase true [], {obs})", "op": "add()", "sl": None, "sr": None, "lens": (), "obs": obs, "msg": msg})
    for s in systems[::2]:
        obs, msg = observe(lambda: ar.subtract_cartesian_vectors(vec(s, 2, "p")))
        cases.append({"lit": f"(NaryCase false [{shape_lit(s, 2)}], {obs})", "op": "sub(v)", "sl": s[:2], "sr": None,
            "lens": (2,), "obs": obs, "msg": msg})
    triples = list(itertools.product(systems, repeat=3))
    mixed = [t for t in itertools.product(everything, repeat=3) if any(x[0] > len(systems) for x in t)]
    if ctx.quick:
        triples = ctx.rng.sample(triples, 40) + ctx.rng.sample(mixed, 40)
    else:
        triples = triples + ctx.rng.sample(mixed, 400)
    for tr in triples:
        n3 = (2, 3, 1)
        for is_add, fn in ((True, ar.add_cartesian_vectors), (False, ar.subtract_cartesian_vectors)):
            obs, msg = observe(lambda: fn(*[vec(s, n, t) for s, n, t in zip(tr, n3, "pqr")]))
            sh = "; ".join(shape_lit(s, n) for s, n in zip(tr, n3))
            cases.append({"lit": f"(NaryCase {'true' if is_add else 'false'} [{sh}], {obs})",
                "op": "add3" if is_add else "sub3", "sl": [t[:2] for t in tr], "sr": None, "lens": n3, "obs": obs, "msg": msg})

    preamble = PREAMBLE_CASES + """
Inductive unop := UMagnitude | UUnit | UScale | UAdd1.
Inductive rcase := BinCase (op : binop) (l r : vshape) | UnCase (u : unop) (v : vshape) | NaryCase (is_add : bool) (vs : list vshape).
Definition model_outcome (c : rcase) : outcome :=
  match c with
  | BinCase op l r => binop_outcome op l r
  | UnCase UMagnitude v => magnitude_outcome v
  | UnCase UUnit v => unit_outcome v
  | UnCase UScale v => Accept
  | UnCase UAdd1 v => fst (add_outcome [v])
  | NaryCase true vs => fst (add_outcome vs)
  | NaryCase false vs => sub_outcome vs
  end.
"""
    def describe(sd):
        if sd is None:
            return None
        if isinstance(sd, list):
            return [describe(x) for x in sd]
        return f"system {sd[0]} = {how[sd[0]]}"

    bad = coqrun.eval_cases(ctx, "refusals", preamble, [c["lit"] for c in cases],
        "fun c : rcase * outcome => outcome_eqb (model_outcome (fst c)) (snd c)", per_file=500)
    for i in bad[:40]:
        c = cases[i]
        verdict = spec_refusal(c)
        ctx.violation(f"C10:refusal:{c['op']}:{c['sl']}:{c['sr']}:{c['lens']}",
            (f"{c['op']} on systems {describe(c['sl'])} / {describe(c['sr'])} lengths {c['lens']}: implementation {c['obs']} {c['msg']}"
             + ("" if verdict is None else f" -- the property requires {verdict}")),
            {"kind": "disagreement", "item": "refusal rule", "input": {"op": c["op"], "left": c["sl"], "right": c["sr"], "lengths": c["lens"]},
             "systems": {"left": describe(c["sl"]), "right": describe(c["sr"])},
             "observed": {"outcome": c["obs"], "message": c["msg"]}, "expected": verdict or "model outcome (property silent)",
             "gallina": c["lit"], "theorem_or_tie": "correspondence CartVec.binop_outcome ~ arithmetics.py"},
            found_input=verdict is not None)
    hist = {}
    for c in cases:
        hist[f"{c['op']}:{c['obs']}"] = hist.get(f"{c['op']}:{c['obs']}", 0) + 1
    ctx.coverage["refusal_cases"] = len(cases)
    ctx.coverage["refusal_systems"] = [f"{x[0]}: {x[3]}" for x in everything]
    ctx.coverage["refusal_histogram"] = hist
    ctx.coverage["refusal_disagreements"] = len(bad)
    ctx.evaluated(len(cases), len({c["lit"] for c in cases if c["obs"] != "Accept" or (c["sl"] and c["sl"][1] != 0)}))
    ctx.sample({"refusal_case": cases[37]["lit"], "message": cases[37]["msg"]})


def spec_refusal(c):
    """What the property text demands for this case, or None when it is silent / the observation conforms."""
    if isinstance(c["sl"], list) and len(c["sl"]) >= 2 and c["op"][:3] in ("add", "sub"):
        refused = c["obs"] != "Accept"
        if len({x[0] for x in c["sl"]}) > 1:
            return None if refused else "a refusal (vectors of different coordinate systems)"
        if c["sl"][0][1] != 0:
            return None if refused else "a refusal (sum of non-Cartesian vectors)"
        return "acceptance (Cartesian vectors of one system)" if refused else None
    if c["op"] not in BINOPS:
        return None
    same = c["sl"][0] == c["sr"][0]
    cart = c["sl"][1] == 0 and c["sr"][1] == 0
    refused = c["obs"] != "Accept"
    if not same:
        return None if refused else "a refusal (vectors of different coordinate systems)"
    if c["op"] in NEEDS_CART and not cart:
        return None if refused else "a refusal (sum / cross product of non-Cartesian vectors)"
    if cart and max(c["lens"]) <= 3:
        return "acceptance (Cartesian vectors of one system, at most three components)" if refused else None
    return None


# ---------------------------------------------------------------------------------------------
# (e) equal_vectors on rationals
# ---------------------------------------------------------------------------------------------

def equal_vectors_tie(ctx):
    ar, Vector, _C = impl()
    rng = ctx.rng
    n = ctx.pick(150, 1200)
    cases = []
    for _ in range(n):
        a = rand_vec(rng, rng.randrange(0, 5))
        mode = rng.randrange(5)
        if mode == 0:
            b = a + [S.Zero] * rng.randrange(0, 3)
        elif mode == 1:
            b = list(a)
            while b and b[-1] == 0:
                b.pop()
        elif mode == 2 and a:
            b = list(a)
            b[rng.randrange(len(b))] += rng.choice([1, Rational(1, 7), -2])
        elif mode == 3:
            b = a + [sympy.sympify(rng.choice(VALUE_POOL))]
        else:
            b = rand_vec(rng, rng.randrange(0, 5))
        if rng.random() < 0.5:
            a, b = b, a
        try:
            obs = bool(ar.equal_vectors(Vector(a), Vector(b)))
        except Exception as e:  # pylint: disable=broad-except
            obs = f"{type(e).__name__}: {e}"[:100]
        ql = lambda v: "[" + "; ".join(qx.q_lit(Fraction(int(x.p), int(x.q))) for x in v) + "]"
        cases.append({"a": a, "b": b, "obs": obs, "lit": f"({ql(a)}, {ql(b)}, {'true' if obs is True else 'false'})"})
    bad = set(coqrun.eval_cases(ctx, "equal", PREAMBLE_CASES, [c["lit"] for c in cases],
        "fun c : list Q * list Q * bool => Bool.eqb (veqbQ (fst (fst c)) (snd (fst c))) (snd c)"))
    bad |= {i for i, c in enumerate(cases) if not isinstance(c["obs"], bool)}
    for i in sorted(bad)[:10]:
        c = cases[i]
        want = pad_eq(c["a"], c["b"])
        ctx.violation(f"C10:equal_vectors:{[str(x) for x in c['a']]}:{[str(x) for x in c['b']]}",
            f"equal_vectors({c['a']}, {c['b']}) = {c['obs']}, equality up to zero padding is {want}",
            {"kind": "disagreement", "item": "equal_vectors", "input": {"a": [str(x) for x in c["a"]], "b": [str(x) for x in c["b"]]},
             "observed": c["obs"], "expected": want, "theorem_or_tie": "correspondence CartVec.veqbQ ~ equal_vectors"},
            found_input=c["obs"] is not want)
    ctx.coverage["equal_vectors_cases"] = len(cases)
    ctx.coverage["equal_vectors_true"] = sum(c["obs"] is True for c in cases)
    ctx.evaluated(len(cases), len({c["lit"] for c in cases if c["a"] != c["b"]}))


# ---------------------------------------------------------------------------------------------

# ---------------------------------------------------------------------------------------------
# (f) operands are never modified; results do not depend on what was computed before
# ---------------------------------------------------------------------------------------------

def history(ctx):
    """Seeded sequences of operations that reuse operands (also the same object in several positions and results of
    earlier steps).  Before every call the components of every live vector are recorded and compared afterwards
    (immutability); every result is compared with the result of the same call on FRESH copies of the operands in a state
    where nothing else was computed with them (no dependence on history).  Only the implementation is involved: the
    functions themselves are tied to the model on fresh operands by the corr_* lemmas."""
    ar, Vector, _C = impl()
    rng = ctx.rng
    calls = {
        "add": (2, ar.add_cartesian_vectors), "add3": (3, ar.add_cartesian_vectors), "sub": (2, ar.subtract_cartesian_vectors),
        "sub3": (3, ar.subtract_cartesian_vectors), "scale": (1, lambda v: ar.scale_vector(Rational(-3, 2), v)),
        "dot": (2, ar.dot_vectors), "cross": (2, ar.cross_cartesian_vectors), "equal": (2, ar.equal_vectors),
        "magnitude": (1, ar.vector_magnitude), "unit": (1, ar.vector_unit), "project": (2, ar.project_vector),
        "reject": (2, ar.reject_cartesian_vector),
    }
    nseq, nsteps = ctx.pick(25, 150), 14
    steps = mutated = diverged = 0

    def comps(v):
        return tuple(v.components)

    def same_result(x, y):
        if isinstance(x, Vector) != isinstance(y, Vector):
            return False
        if isinstance(x, Vector):
            bx = [bad_number(a) for a in x.components]
            if any(bx) or any(bad_number(a) for a in y.components):     # zero target / zero vector: outside the property
                return bx == [bad_number(a) for a in y.components]
            return len(x.components) == len(y.components) and pad_eq(x.components, y.components)
        if isinstance(x, bool) or isinstance(y, bool):
            return x is y
        if bad_number(sympy.sympify(x)) or bad_number(sympy.sympify(y)):
            return bad_number(sympy.sympify(x)) and bad_number(sympy.sympify(y))
        return is_zero(sympy.sympify(x) - sympy.sympify(y))

    for q in range(nseq):
        pool = [Vector(rand_vec(rng, rng.randrange(0, 4), nonzero=(j == 0))) for j in range(4)]
        if q % 2:                                             # planar / axial operands: one shared coordinate vanishes
            z = rng.randrange(3)
            pool = [Vector([S.Zero if j == z else (x if x != 0 else S.One) for j, x in enumerate(rand_vec(rng, 3))]) for _ in range(4)]
        names = [f"v{j}" for j in range(4)]
        trace = []
        for _ in range(nsteps):
            op = rng.choice(list(calls))
            arity, fn = calls[op]
            idx = [rng.randrange(len(pool)) for _ in range(arity)]
            if arity >= 2 and rng.random() < 0.3:
                idx[1] = idx[0]                                  # the same object twice
            if op == "cross" and any(len(pool[i].components) > 3 for i in idx):
                continue
            before = [comps(v) for v in pool]
            args = [pool[i] for i in idx]
            fresh = [Vector(list(before[i])) for i in idx]
            call = f"{op}({', '.join(names[i] for i in idx)})"
            trace.append(call)
            try:
                res, err = fn(*args), None
            except Exception as e:  # pylint: disable=broad-except
                res, err = None, type(e).__name__
            try:
                ref, rerr = fn(*fresh), None
            except Exception as e:  # pylint: disable=broad-except
                ref, rerr = None, type(e).__name__
            steps += 1
            after = [comps(v) for v in pool]
            changed = [j for j in range(len(pool)) if before[j] != after[j]]
            inp = {"sequence": list(trace), "vectors": {names[j]: [str(x) for x in before[j]] for j in range(len(pool))}}
            if changed and mutated < 6:
                mutated += 1
                j = changed[0]
                ctx.violation(f"C10:immutability:{op}:{'x'.join(str(len(before[i])) for i in idx)}:{'same' if len(set(idx)) < len(idx) else 'distinct'}",
                    f"{call} modified its operand {names[j]}: {[str(x) for x in before[j]]} -> {[str(x) for x in after[j]]}",
                    {"kind": "violation", "item": op, "input": dict(inp, call=call), "observed": {names[j]: [str(x) for x in after[j]]},
                     "expected": "operands are left unchanged (a - b must not turn b into -b)",
                     "theorem_or_tie": "operand immutability: the model's functions are pure"}, found_input=True)
            ok = (err == rerr) and (err is not None or same_result(res, ref))
            if not ok and diverged < 6 and not changed:
                diverged += 1
                show = lambda r, e: e if e else (str(list(r.components)) if isinstance(r, Vector) else str(r))
                ctx.violation(f"C10:history:{op}:{len(trace)}:{q}",
                    f"{call} after {trace[:-1]} gives {show(res, err)}, on fresh copies of the same operands {show(ref, rerr)}",
                    {"kind": "violation", "item": op, "input": dict(inp, call=call), "observed": show(res, err), "expected": show(ref, rerr),
                     "theorem_or_tie": "results depend only on the operands' components"}, found_input=True)
            for v, b in zip(pool, before):
                if comps(v) != b:
                    v.components[:] = list(b)   # restore, so that one defect is not reported through every later step
            if isinstance(res, Vector) and len(res.components) <= 4 and not any(bad_number(x) for x in res.components):
                if rng.random() < 0.5:                      # results of earlier steps become operands
                    k = rng.randrange(1, len(pool))
                    pool[k] = res
    ctx.coverage["history_sequences"] = nseq
    ctx.coverage["history_steps"] = steps
    ctx.coverage["history_operand_mutations"] = mutated
    ctx.coverage["history_divergences"] = diverged
    ctx.evaluated(steps, steps)


# ---------------------------------------------------------------------------------------------
# (g) interpreter modes
# ---------------------------------------------------------------------------------------------

def interpreter_modes(ctx):
    """Unequal-length operands through every operation in child interpreters started as `python` and `python -O`
    (SymPy 1.14 does not import under -OO); every result is proved equal to the model's value on the same literals."""
    import json  # pylint: disable=import-outside-toplevel
    import os  # pylint: disable=import-outside-toplevel
    import subprocess  # pylint: disable=import-outside-toplevel
    from vp import common  # pylint: disable=import-outside-toplevel
    probe = str(common.VERIF / "harness" / "vp" / "c10_probe.py")
    env = dict(os.environ, PYTHONPATH=str(common.REPO), PYTHONDONTWRITEBYTECODE="1")
    env.pop("PYTHONOPTIMIZE", None)
    model = {"add": lambda m: f"vsum {m[0]} [{'; '.join(m[1:])}]", "sub": lambda m: f"vsub_n {m[0]} {m[1]} [{'; '.join(m[2:])}]",
        "dot": lambda m: f"dot {m[0]} {m[1]}", "cross": lambda m: f"cross_opt {m[0]} {m[1]}",
        "project": lambda m: f"project {m[0]} {m[1]}", "reject": lambda m: f"reject {m[0]} {m[1]}",
        "magnitude": lambda m: f"mag {m[0]}", "unit": lambda m: f"unit {m[0]}", "scale": lambda m: f"vscale (-3) {m[0]}"}
    lemmas, meta = [], {}
    for flags in ([], ["-O"]):
        mode = ("python " + " ".join(flags)).strip()
        tag = "O" if flags else "dbg"
        how = f"PYTHONPATH={common.REPO} {common.PYTHON} {' '.join(flags)} {probe}"
        try:
            r = subprocess.run([common.PYTHON, *flags, probe], capture_output=True, text=True, timeout=600, env=env, check=False)
            data = json.loads(r.stdout)
        except Exception as e:  # pylint: disable=broad-except
            ctx.violation(f"C10:mode:{mode}:probe-failed", f"the probe did not run under `{mode}`: {type(e).__name__}: {e}"[:300],
                {"kind": "broken-tie", "mode": mode, "how": how, "stderr": (r.stderr[-800:] if "r" in locals() else "")}, found_input=False)
            continue
        for i, c in enumerate(data["cases"]):
            op, operands, res = c["op"], c["operands"], c["result"]
            call = f"{op}({', '.join(map(str, operands))})"
            key = f"C10:mode:{mode}:{call}"
            rep = {"kind": "violation", "item": op, "input": {"mode": mode, "op": op, "operands": operands}, "how": how,
                "observed": res, "theorem_or_tie": "child-interpreter result = Model/CartVec.v on the same literal operands"}
            if "error" in res:
                ctx.violation(key, f"under `{mode}` {call} raises {res['error']}: {res.get('message', '')}; Cartesian operands of one system "
                    "with at most three components must be accepted", dict(rep, expected="a result"), found_input=True)
                continue
            if op == "equal":
                want = pad_eq([sympy.sympify(x) for x in operands[0]], [sympy.sympify(x) for x in operands[1]])
                ql = lambda v: "[" + "; ".join(qx.q_lit(Fraction(x)) for x in v) + "]"
                name = f"mode_{tag}_{i}_equal"
                lemmas.append(coqrun.Lemma(name, f"veqbQ {ql(operands[0])}%Q {ql(operands[1])}%Q = {'true' if res['bool'] else 'false'}",
                    "vm_compute. reflexivity.", call))
                meta[name] = (key, call, mode, dict(rep, expected=want), f"{res['bool']} (equality up to zero padding is {want})")
                continue
            mlists = ["[" + "; ".join(sx.zlit(int(x)) for x in o) + "]" for o in operands]
            rc = sx.RCtx(atoms=False)
            if "vector" in res:
                terms = [rc.term(sympy.sympify(t)) for t in res["vector"]]
                lhs = ("Some " if op == "cross" else "") + coq_list(terms)
                shown = [str(sympy.sympify(t)) for t in res["vector"]]
            else:
                lhs = rc.term(sympy.sympify(res["scalar"]))
                shown = str(sympy.sympify(res["scalar"]))
            name = f"mode_{tag}_{i}_{op}"
            lemmas.append(coqrun.Lemma(name, f"{lhs} = {model[op](mlists)}", "cv_corr.", call))
            meta[name] = (key, call, mode, rep, shown)
    res = coqrun.prove_lemmas(ctx, "modes", PREAMBLE_R + "From Coq Require Import QArith.\nLocal Open Scope R_scope.\n", lemmas,
        per_file=10, timeout=600)
    ctx.obligations(len(res), sum(v == "ok" for v in res.values()))
    for name, status in res.items():
        if status != "ok":
            key, call, mode, rep, shown = meta[name]
            ctx.violation(key, f"under `{mode}` {call} = {shown}, which is not the model's value (missing components count as zero)",
                dict(rep, coq=status[-400:]), found_input=True)
    ctx.coverage["interpreter_mode_cases"] = len(lemmas)


def run(ctx):
    ctx.level = "proof"
    ctx.static(STATIC)
    axioms.report(ctx, "C10", STATIC)
    ctx.trust("Coq 8.16.1 kernel incl. vm_compute (no native_compute); Reals axioms listed under `axioms`",
        "harness/vp/sx.py: SymPy expression -> Coq term over R (re-evaluated inside Coq on the rational fragment)",
        "SymPy 1.14 arithmetic on the generic symbols (Add/Mul/Pow canonicalisation) as observed through the generic run",
        "CoordinateSystem inequality is object identity (the class defines no __eq__): modelled by an identifier")
    ctx.assume("a SymPy symbol without assumptions stands for an arbitrary real component; `x**(-1/2)` is read as 1/sqrt(x)",
        "the functions are value-oblivious on Cartesian inputs (checked on 5 concrete instantiations per shape, not proved)",
        "divisions: project / reject / unit are tied under the hypothesis that the target (resp. the vector) has non-zero self dot product")
    items = generic_tie(ctx)
    concrete_tie(ctx, items)
    serialiser_selfcheck(ctx, items)
    refusals(ctx)
    equal_vectors_tie(ctx)
    history(ctx)
    interpreter_modes(ctx)
    ctx.coverage["exhaustive"] = True
    ctx.coverage["rule"] = ("generic tie: every operation x every length combination 0..3 (thorough: 0..4 where the code allows) "
        "on fresh symbols, one kernel-checked lemma each; concrete instantiations: 5 per shape (all-zero, negatives, 3 seeded from "
        "a pool with zeros/negatives/rationals), distinct = distinct (op, lengths, values), non-trivial = some non-zero component; "
        "refusals: 7 binary operations x 16x16 coordinate-system objects (2 fresh per type + 10 wrappers that share / duplicate by name / "
        "derive by coordinates_transform or coordinates_rotate from the CoordSys3D of system 1) x lengths 0..4 (quick: the 6x6 fresh "
        "pairs with all lengths for cross and 8 otherwise, the 11x11 related family with 4 length pairs) + unary + n-ary, non-trivial = refused or non-Cartesian; equal_vectors: seeded rational pairs (padded, trimmed, "
        "one component changed, extended, random), non-trivial = operands differ as lists")


def replay(ctx, rep):
    """Re-execute the failing input of a replay file against the current /repo."""
    _ar, V, _C = impl()
    inp = rep.get("input") or {}
    print("replaying", rep.get("key"), "--", rep.get("what"))
    if "identity" in inp:
        ids = {i[0]: i for i in spec_identities()}
        name, _ops_, _nv, _nk, fn = ids[inp["identity"]]
        vals = [[sympy.sympify(x) for x in v] for v in inp["vectors"]]
        ks = [sympy.sympify(x) for x in inp["scalars"]]
        ok, err = eval_identity(fn, V, vals, ks)
        print(f"identity {name} on vectors {inp['vectors']} scalars {inp['scalars']}: holds={ok} {err or ''}")
        return 0 if ok else 1
    if "op" in inp and "left" in inp:
        print("refusal case:", inp, "observed at the time:", rep.get("observed"), "expected:", rep.get("expected"))
        refusals(ctx)
        still = [v for v in ctx.violations if v.key == rep.get("key")]
        print("still failing" if still else "no longer failing")
        return 1 if still else 0
    if "a" in inp and "b" in inp:
        ar, V, _C = impl()
        a = [sympy.sympify(x) for x in inp["a"]]
        b = [sympy.sympify(x) for x in inp["b"]]
        got = ar.equal_vectors(V(a), V(b))
        print(f"equal_vectors({a}, {b}) = {got}; equality up to zero padding = {pad_eq(a, b)}")
        return 0 if got is pad_eq(a, b) else 1
    print("no concrete input recorded; the broken obligation is:", rep.get("theorem_or_tie"))
    print("re-running the whole check")
    run(ctx)
    return 1 if ctx.violations else 0
