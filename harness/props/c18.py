"""C18 -- the LaTeX rendering of formulas is well-formed and meaning-preserving.

static theorems : coq/theories/Properties/C18.v   (Model/LatexSyntax.v: wellformed_tex is exactly "balanced")
per-formula     : for every expression e with REAL output s = latex_str(e) a generated Coq lemma
                    wellformed_tex s = true                                            (EVERY rendering)
                    /\\ parse_tex names s = Some a /\\ forall phi x.., hyps -> aeval rho phi a = [[e]]   (semantic part)
                  what the reader's grammar does not cover (derivatives, integrals, sums, matrices, applied user
                  functions, Delta/d/avg wrappers) is checked for well-formedness only and counted structure_only
inputs          : the catalogue (every member with :laws:latex::, source form) + the sampled canonical expression space"""
from __future__ import annotations

import random

import sympy

from vp import coqrun
from vp import render_common as rc
from props import c17

STATIC = ["wellformed_tex_sound", "wellformed_tex_complete", "wellformed_tex_iff"]

PARSE_FN = "parse_tex"

# functions outside CodeSyntax.fun_val that the LaTeX reader still reads as a call of an uninterpreted head
TEX_PHI_OK = {"coth", "acosh", "asinh", "atanh", "cot", "sec", "csc"}


def latex_str(e):
    from symplyphysics.docs.printer_latex import latex_str as ls  # pylint: disable=import-outside-toplevel
    return ls(e)


def sample_symbols():
    from symplyphysics import Symbol  # pylint: disable=import-outside-toplevel
    return [
        Symbol("a"), Symbol("b", positive=True), Symbol("c", real=True),
        Symbol("m_1", display_latex="m_1", positive=True), Symbol("E_k", display_latex="E_\\text{k}"),
        Symbol("x", real=True), Symbol("T", positive=True), Symbol("w_0", display_latex="\\omega_0"),
        sympy.Symbol("y"), sympy.Symbol("z", positive=True), Symbol("n", integer=True),
        Symbol("eps", display_latex="\\varepsilon", positive=True), Symbol("t'", display_latex="t'", real=True),
        Symbol("EMF", display_latex="\\mathcal{E}"),
    ] + cloned_symbols()


def name_mangled(raw: str, printed: str):
    """Specification predicate for 'symbols appear under their LaTeX display names': the printed name may differ from
    the declared display_latex only by benign normalisation (braces around a sub/superscript, Greek-name translation).
    Returns a reason when the printed name is NOT such a normalisation."""
    import re  # pylint: disable=import-outside-toplevel
    from sympy.printing.latex import tex_greek_dictionary, greek_letters_set  # pylint: disable=import-outside-toplevel
    if printed == raw:
        return None
    # (a) a brace group must not cut through a parenthesis of the declared name
    depth_stack = []
    for ch in printed:
        if ch == "{":
            depth_stack.append(0)
        elif ch == "}":
            if not depth_stack:
                return "unbalanced brace in printed name"
            if depth_stack.pop() != 0:
                return "a brace group of the printed name cuts through a parenthesis"
        elif ch in "([" and depth_stack:
            depth_stack[-1] += 1
        elif ch in ")]" and depth_stack:
            depth_stack[-1] -= 1
            if depth_stack[-1] < 0:
                return "a brace group of the printed name cuts through a parenthesis"
    # (b) no control word appears that the declared name does not contain (up to Greek translation)
    allowed = set(re.findall(r"\\[A-Za-z]+", raw))
    for w in re.findall(r"[A-Za-z]+", raw):
        if w in greek_letters_set or w.lower() in greek_letters_set:
            allowed.add("\\" + w)
        if w in tex_greek_dictionary:
            allowed.add(tex_greek_dictionary[w])
    for cw in re.findall(r"\\[A-Za-z]+", printed):
        if cw not in allowed:
            return f"control word {cw} does not occur in the declared name"
    # (c) apart from braces the characters are the declared ones
    strip = lambda t: re.sub(r"[{}\\ ]", "", t)
    if strip(printed) != strip(raw) and not any(w in greek_letters_set for w in re.findall(r"[A-Za-z]+", raw)):
        return "characters of the declared name were changed"
    return None


def name_tex_scripts(printed: str):
    """Read the printed name as TeX does: `_` and `^` bind exactly ONE token unless the argument is braced.  An unbraced
    script followed directly by further letters/digits (`\\mathcal{E}_21`, `\\text{Re}_max`, `\\Sigma_text{f}`) is typeset
    as a one-character script followed by a product -- the symbol does not appear under its display name."""
    import re  # pylint: disable=import-outside-toplevel
    m = re.search(r"([_^])([A-Za-z0-9])([A-Za-z0-9]+)", printed)
    if m:
        return (f"in TeX the unbraced {'subscript' if m.group(1) == '_' else 'superscript'} binds only {m.group(2)!r}; "
            f"{m.group(3)!r} is typeset as a separate factor")
    return None


def braced_library_symbols():
    """library symbols whose LaTeX name already contains braces (\\mathcal{E}, \\text{Re}, ...), sorted by code name"""
    import importlib  # pylint: disable=import-outside-toplevel
    import pkgutil  # pylint: disable=import-outside-toplevel
    from symplyphysics import symbols as pkg  # pylint: disable=import-outside-toplevel
    from symplyphysics.core.symbols.symbols import Symbol as SpSymbol  # pylint: disable=import-outside-toplevel
    found = {}
    for info in pkgutil.iter_modules(pkg.__path__):
        try:
            mod = importlib.import_module(f"{pkg.__name__}.{info.name}")
        except Exception:  # pylint: disable=broad-except
            continue
        for name, obj in sorted(vars(mod).items()):
            if isinstance(obj, SpSymbol) and "{" in obj.display_latex and "_" not in obj.display_latex:
                found.setdefault(obj.display_name, obj)
    return [found[k] for k in sorted(found)]


def cloned_symbols():
    """symbols made the way law modules make them: clone_as_symbol(library symbol with a braced LaTeX name,
    subscript=<more than one character>)"""
    from symplyphysics import clone_as_symbol  # pylint: disable=import-outside-toplevel
    lib = braced_library_symbols()
    out = []
    for src, sub in zip(lib[:4], ["21", "max", "0", "in"]):
        out.append(clone_as_symbol(src, subscript=sub))
    return out


def all_symbol_names(expr):
    """(declared display_latex, expected printed name) of every symbol / quantity / function head of an expression,
    collected without the Reader (so that structure-only items get their names checked too)"""
    from symplyphysics.core.symbols.symbols import DimensionSymbol  # pylint: disable=import-outside-toplevel
    from symplyphysics.core.operations.symbolic import Symbolic  # pylint: disable=import-outside-toplevel
    from sympy.core.function import AppliedUndef  # pylint: disable=import-outside-toplevel
    out, todo = {}, [expr]
    while todo:
        for node in sympy.preorder_traversal(todo.pop()):
            if isinstance(node, Symbolic):
                todo.append(node.factor)
                continue
            obj = node.func if isinstance(node, AppliedUndef) else node
            if isinstance(obj, DimensionSymbol):
                try:
                    out[obj.display_latex] = rc.printed_name(obj, "latex")
                except Exception:  # pylint: disable=broad-except
                    pass
    return sorted(out.items())


class TexReader(rc.Reader):
    """reference reading for LaTeX: special constructs are outside the reader's grammar"""

    def __init__(self):
        super().__init__("latex", special_ok=False)

    def _special(self, head, args):
        if head in TEX_PHI_OK and len(args) == 1:
            self.special.add(head)
            return ("phi", head, [self.read(a) for a in args])
        raise rc.StructureOnly(head)


def make_case(key, origin, expr, vkey, **extra):
    c = {"key": key, "origin": origin, "expr": expr, "vkey": vkey, "sides": None, "names": [], "reason": None}
    c.update(extra)
    try:
        c["s"] = latex_str(expr)
    except Exception as e:  # pylint: disable=broad-except
        c["s"] = None
        c["render_error"] = f"{type(e).__name__}: {e}"[:300]
        return c
    try:
        c["clashes"] = {nm: [repr(o) for o in objs] for nm, objs in rc.name_clashes(expr, "latex").items()}
    except Exception:  # pylint: disable=broad-except
        c["clashes"] = {}
    rd = TexReader()
    try:
        c["sides"] = rd.read_top(expr)
        c["special"] = sorted(rd.special)
        c["collisions"] = rd.collisions()
        names = set(rd.names)
        names.add("e")          # Euler's number is written e (identified with a symbol displayed as e, if any)
        c["names"] = sorted(names, key=lambda n: (-len(n), n))
        c["assume"] = dict(rd.assume)
        c["euler"] = "e"
        c["mangled"] = []
        for printed, raw in rd.raw_latex.items():
            why = name_tex_scripts(printed) or name_mangled(raw, printed)
            if why:
                c["mangled"].append((raw, printed, why))
    except rc.StructureOnly as e:
        c["sides"] = None
        c["reason"] = f"outside the reader's grammar: {e}"
        c["mangled"] = []
        for raw, printed in all_symbol_names(expr):
            why = name_tex_scripts(printed) or name_mangled(raw, printed)
            if why:
                c["mangled"].append((raw, printed, why))
    except rc.Unreadable as e:
        c["sides"] = None
        c["reason"] = f"no reference reading: {e}"
    return c


def gen_samples(seed: int, n: int):
    return c17.gen_samples(seed, n, render=latex_str, symbols=sample_symbols(), max_len=160)


def negsum_forms(S, c, x, rng=None):
    """Mul(-1, Add) as SymPy's own simplifiers return it (factor_terms, factor) and as `-(a + b)` in a law's source form,
    alone and inside sums (first term), exponents, numerators, denominators, products, functions.  Directly built canonical
    trees never contain it (the minus is distributed), so it needs its own shapes.  Not generated: `c - (a + b)` as a
    NON-first term, which both printers get wrong on the pinned tree (latent defect, see design notes)."""
    from sympy import Mul, Add, Pow  # pylint: disable=import-outside-toplevel
    neg = Mul(-1, S, evaluate=False)
    out = [("factor_terms", sympy.factor_terms(-S)), ("neg", neg),
        ("neg+c", Add(neg, c, evaluate=False)), ("x^neg", Pow(x, neg, evaluate=False)),
        ("neg/c", Mul(neg, Pow(c, -1, evaluate=False), evaluate=False)),
        ("c/neg", Mul(c, Pow(neg, -1, evaluate=False), evaluate=False)),
        ("2*neg", Mul(2, neg, evaluate=False)), ("x*neg", Mul(x, neg, evaluate=False)),
        ("exp(neg)", sympy.exp(neg, evaluate=False)), ("neg^2", Pow(neg, 2, evaluate=False)),
        ("x^factor_terms", x**sympy.factor_terms(-S)), ("factor_terms/c", sympy.factor_terms(-S) / c),
        ("factor", sympy.factor(sympy.expand(-S * c))), ("x+factor_terms2", sympy.factor_terms(sympy.expand(-2 * S)) + x)]
    return out if rng is None else [rng.choice(out)]


def gen_negsums(seed: int, n: int):
    """(index, label, expression): negsum_forms over seeded sums of 2-3 small terms"""
    rng = random.Random(seed ^ 0xA5A5)
    syms = sample_symbols()
    gen = rc.ExprGen(rng, syms)
    out, seen, tries = [], set(), 0
    while len(out) < n and tries < 10 * n:
        tries += 1
        terms = []
        for _ in range(rng.choice([2, 2, 3])):
            t = rng.choice(syms)
            r = rng.random()
            if r < 0.3:
                t = rng.choice([2, 3, 5]) * t
            elif r < 0.5:
                t = t * rng.choice(syms)
            elif r < 0.6:
                t = t / rng.choice(syms)
            terms.append(t)
        S = sympy.Add(*terms)
        if not S.is_Add:
            continue
        label, e = negsum_forms(S, rng.choice(syms), rng.choice(syms), rng)[0]
        k = sympy.srepr(e)
        if k in seen or not isinstance(e, sympy.Expr):
            continue
        seen.add(k)
        out.append((tries, label, e))
    return out


def gen_source_forms(seed: int, n: int):
    return c17.gen_source_forms(seed, n, render=latex_str, symbols=sample_symbols(), max_len=160)


def run(ctx):
    c17.limit_memory()
    ctx.level = "translation_validation"
    ctx.static(STATIC)
    ctx.trust("Coq 8.16.1 kernel incl. vm_compute (no native_compute)",
        "harness/vp/render_common.py Reader: reference reading of a SymPy tree, symbols keyed by LaTeX display name "
        "(normalised by SymPy's LatexPrinter._deal_with_super_sub)",
        "Model/LatexSyntax.v parse_tex is the definition of 'read as mathematics' (fractions, roots, powers, "
        "juxtaposition as product, signs, function macros); it is audited by reading, not by a printer/parser theorem",
        "SymPy 1.14 LatexPrinter as runtime of the printer (_print_Pow, _print_Float, _needs_mul_brackets, ...)")
    ctx.assume("a Float leaf denotes the decimal it carries at its declared precision (15 significant digits)",
        "one value per printed name: the first object printed under a LaTeX display name owns its variable; a DIFFERENT symbol of the same category (plain symbols/quantities, bases of indexed families, heads of applied functions) printed under the same name gets a variable of its own that no rendering can mention, so such an equation is refuted, and the clash is also reported per equation (C18:name-clash); a symbol and an indexed base may share a name (m = Sum(m[i], i))",
        "the imaginary unit i, \\infty and heads outside the elementary functions are uninterpreted",
        "value equality is stated on the domain of definition of the ORIGINAL expression over the reals",
        "the fuel of the LaTeX reader (8 * tokens + 8) is generous but, unlike CodeSyntax, not proved sufficient: an "
        "out-of-fuel answer would show up as a failed obligation, never as a pass")

    sub_seed = ctx.rng.getrandbits(48)
    cases = []

    items, failures = rc.catalogue_items(ctx.log)
    ctx.coverage["catalogue_modules_failing"] = failures
    for f, msg in failures:
        ctx.violation(f"C18:catalogue-file:{f}", f"documentation source form of {f} cannot be obtained: {msg}",
            {"kind": "broken-tie", "item": f, "error": msg, "theorem_or_tie": "patch_sympy_evaluate + find_members_and_functions"},
            found_input=False)
    out_of_scope = []
    n_scope = 0
    for it in items:
        if "LATEX" not in it["directives"]:
            out_of_scope.append(it["key"])
            continue
        n_scope += 1
        cases.append(make_case(it["key"], "catalogue", it["value"], f"C18:{it['key']}"))
    ctx.coverage["catalogue_in_scope"] = n_scope
    # the printer must be a function of the expression: render the catalogue again in reverse order, same process
    n_order = 0
    for c in reversed([c for c in cases if c["origin"] == "catalogue" and c["s"] is not None]):
        try:
            again = latex_str(c["expr"])
        except Exception as e:  # pylint: disable=broad-except
            again = f"<raises {type(e).__name__}>"
        n_order += 1
        if again != c["s"]:
            ctx.violation(f"C18:order:{c['key']}", f"rendering of {c['key']} depends on what was printed before: "
                f"{c['s']!r} in catalogue order, {again!r} when printed again in reverse order",
                {"kind": "violation", "item": c["key"], "origin": "catalogue", "rendering": c["s"],
                 "rendering_second_pass": again, "original": str(c["expr"])}, found_input=True)
    ctx.coverage["order_independence_rerenders"] = n_order
    ctx.coverage["catalogue_out_of_scope_no_latex_directive"] = out_of_scope

    n_samples = ctx.pick(1000, 20000)
    for idx, e in gen_samples(sub_seed, n_samples):
        c = make_case(f"sample#{idx}", "sample", e, None, sample_index=idx, srepr=sympy.srepr(e))
        c["vkey"] = f"C18:expr:{c['s']}" if c["s"] is not None else f"C18:expr-raises:{sympy.srepr(e)[:300]}"
        cases.append(c)
    n_src = ctx.pick(400, 4000)
    for idx, e in gen_source_forms(sub_seed, n_src):
        c = make_case(f"source#{idx}", "source", e, None, sample_index=idx, srepr=sympy.srepr(e))
        c["vkey"] = f"C18:source:{c['s']}" if c["s"] is not None else f"C18:source-raises:{sympy.srepr(e)[:300]}"
        cases.append(c)
    # (iv) curated shape classes, every tier and seed
    for label, e in rc.curated_expressions(sample_symbols()):
        c = make_case(f"curated:{label}", "curated", e, f"C18:curated:{label}", srepr=sympy.srepr(e))
        cases.append(c)
    syms = sample_symbols()
    for label, e in negsum_forms(syms[0] + syms[1], syms[2], syms[5]):
        cases.append(make_case(f"curated:negsum:{label}", "curated", e, f"C18:curated:negsum:{label}", srepr=sympy.srepr(e)))
    cl = syms[-4:]
    for label, e in [("cloned-square", cl[0]**2), ("cloned-quotient", cl[1]**2 / cl[0] + cl[2] * cl[3]),
            ("cloned-product", 2 * cl[0] * cl[1] * syms[0])]:
        cases.append(make_case(f"curated:{label}", "curated", e, f"C18:curated:{label}", srepr=sympy.srepr(e)))
    # (v) Mul(-1, Add) shapes over seeded sums
    for idx, label, e in gen_negsums(sub_seed, ctx.pick(80, 800)):
        c = make_case(f"negsum#{idx}:{label}", "negsum", e, None, sample_index=idx, srepr=sympy.srepr(e))
        c["vkey"] = f"C18:negsum:{c['s']}" if c["s"] is not None else f"C18:negsum-raises:{sympy.srepr(e)[:300]}"
        cases.append(c)
    ctx.coverage["negsum_cases"] = sum(1 for c in cases if c["origin"] == "negsum")
    ctx.coverage["curated_cases"] = sum(1 for c in cases if c["origin"] == "curated")
    ctx.log(f"{len(cases)} cases built")

    live = []
    for c in cases:
        for nm, objs in (c.get("clashes") or {}).items():
            ctx.violation(f"C18:name-clash:{c['key']}:{nm}", f"{len(objs)} different symbols of {c['key']} are shown under "
                f"the same LaTeX display name {nm!r}: read with one value per printed name the rendering {c['s']!r} cannot "
                f"denote the expression for all values", {"kind": "violation", "item": c["key"], "origin": c["origin"],
                "shared_name": nm, "symbols": objs, "rendering": c["s"], "original": str(c["expr"]),
                "sample_index": c.get("sample_index")}, found_input=True)
        for raw, printed, why in c.get("mangled") or []:
            ctx.violation(f"C18:name:{c['key']}:{raw}", f"symbol with display_latex {raw!r} is printed as {printed!r} in "
                f"{c['key']} ({why})", {"kind": "violation", "item": c["key"], "origin": c["origin"], "display_latex": raw,
                "printed_name": printed, "why": why, "rendering": c["s"], "original": str(c["expr"]),
                "sample_index": c.get("sample_index")}, found_input=True)
        if c["s"] is None:
            ctx.violation(c["vkey"] or f"C18:{c['key']}", f"latex_str raises on {c['key']}: {c['render_error']}",
                {"kind": "violation", "item": c["key"], "original": str(c["expr"]), "error": c["render_error"]}, True)
        else:
            live.append(c)
    validate(ctx, live)


def wf_lemma(i: int, c) -> coqrun.Lemma:
    return coqrun.Lemma(f"c18_wf_{i:05d}", f"wellformed_tex {rc.coq_string(c['s'])} = true", "vm_compute; reflexivity.",
        c["key"])


def python_wellformed(s: str) -> tuple[bool, str]:
    """Specification predicate written directly from the property text (used only to decide a failed obligation):
    braces balance and every \\left has its \\right, properly nested."""
    stack = []
    i = 0
    while i < len(s):
        ch = s[i]
        if ch == "\\":
            j = i + 1
            while j < len(s) and s[j].isalpha() and s[j].isascii():
                j += 1
            word = s[i + 1:j]
            if word in ("left", "right"):
                k = j
                while k < len(s) and s[k] in " \t\n\r":
                    k += 1
                if k < len(s) and s[k] == "\\":
                    k2 = k + 1
                    if k2 < len(s) and s[k2].isalpha():
                        while k2 < len(s) and s[k2].isalpha() and s[k2].isascii():
                            k2 += 1
                    else:
                        k2 += 1
                    k = k2
                elif k < len(s):
                    k += 1
                if word == "left":
                    stack.append("L")
                else:
                    if not stack or stack[-1] != "L":
                        return False, f"\\right without matching \\left at {i}"
                    stack.pop()
                i = k
                continue
            i = j if word else i + 2
            continue
        if ch == "{":
            stack.append("B")
        elif ch == "}":
            if not stack or stack[-1] != "B":
                return False, f"unmatched }} at {i}"
            stack.pop()
        i += 1
    if stack:
        return False, f"unclosed {'brace' if stack[-1] == 'B' else 'left-delimiter'}"
    return True, ""


def validate(ctx, cases):
    sem = [c for c in cases if c["sides"] is not None]
    rc.parse_pass(ctx, "c18", PARSE_FN, sem, preamble=rc.PREAMBLE_TEX)
    ctx.log("parse pass done")
    rc.classify_and_build("C18", sem, PARSE_FN)
    lemmas = []           # (case, lemma)
    n_struct = 0
    skipped = []
    special_hist = {}
    collisions = {}
    for i, c in enumerate(cases):
        for h in c.get("special") or []:
            special_hist[h] = special_hist.get(h, 0) + 1
        if c.get("collisions"):
            collisions[c["key"]] = c["collisions"]
        c["wf"] = wf_lemma(i, c)
        status = c.get("status") if c["sides"] is not None else "structure_only"
        c["status"] = status
        if status == "bad":
            what, found = c["bad"]
            ctx.violation(c["vkey"], f"{c['key']}: {what}", {"kind": "violation", "item": c["key"], "origin": c["origin"],
                "rendering": c["s"], "original": str(c["expr"]), "parsed_as": c.get("parsed_text"),
                "names": c["names"], "sample_index": c.get("sample_index")}, found_input=found)
        elif status == "structure_only":
            n_struct += 1
            entry = {"item": c["key"], "rendering": c["s"], "reason": c.get("reason") or "no semantic reading"}
            if c["sides"] is not None:
                entry["numeric_check"] = rc.numeric_only_check(ctx, c, random.Random(ctx.seed + 2))
            skipped.append(entry)
    pre_rng = random.Random(ctx.seed + 3)
    n_pre = 0
    for c in cases:
        if c["status"] == "lemma" and rc.precheck(ctx, c, pre_rng):
            c["status"] = "refuted"
            n_pre += 1
    ctx.coverage["refuted_numerically_before_coq"] = n_pre
    all_lemmas = []
    for c in cases:
        all_lemmas.append(c["wf"])
        if c["status"] == "lemma":
            # the semantic lemma restates well-formedness so that one theorem covers the whole property for this item
            lm = c["lemma"]
            all_lemmas.append(coqrun.Lemma(lm.name, lm.statement, lm.proof, lm.item))
    ctx.log(f"{len(all_lemmas)} lemmas ({sum(1 for c in cases if c['status'] == 'lemma')} semantic), {n_struct} structure-only")
    res = rc.prove_all(ctx, "c18", rc.PREAMBLE_TEX, all_lemmas, per_file=60, timeout=900)
    ok = 0
    rng = random.Random(ctx.seed + 1)
    for c in cases:
        r = res.get(c["wf"].name, "missing")
        if r == "ok":
            ok += 1
        else:
            good, why = python_wellformed(c["s"])
            rep = {"kind": "violation" if not good else "broken-proof", "item": c["key"], "origin": c["origin"],
                "rendering": c["s"], "original": str(c["expr"]), "theorem_or_tie": c["wf"].name, "coq_error": r[-300:],
                "why": why, "sample_index": c.get("sample_index")}
            ctx.violation((c["vkey"] or c["key"]) + ":wellformed", f"LaTeX rendering of {c['key']} is not well-formed "
                f"({why or 'Coq obligation failed'}): {c['s']!r}", rep, found_input=not good)
        if c["status"] == "lemma":
            r2 = res.get(c["lemma"].name, "missing")
            if r2 == "ok":
                ok += 1
            else:
                rc.decide_failed(ctx, "C18", c, r2, rng)
    ctx.obligations(len(all_lemmas), ok)
    first_ok = next((c["lemma"] for c in cases if c["status"] == "lemma" and res.get(c["lemma"].name) == "ok"), None)
    if first_ok is not None:
        rc.measure_axioms(ctx, rc.PREAMBLE_TEX, first_ok)
    cat = [c for c in cases if c["origin"] == "catalogue"]
    smp = [c for c in cases if c["origin"] == "sample"]
    src = [c for c in cases if c["origin"] == "source"]
    ctx.coverage["source_form_cases"] = len(src)
    ctx.coverage["source_form_semantic"] = sum(1 for c in src if c["status"] == "lemma")
    ctx.evaluated(len(cases), len({c["s"] for c in cases if ("\\frac" in c["s"] or "\\left" in c["s"] or "^" in c["s"] or "-" in c["s"])}))
    ctx.coverage["programs"] = len(cases)
    ctx.coverage["disagreements_checked"] = len(all_lemmas) - ok
    ctx.coverage["catalogue_cases"] = len(cat)
    ctx.coverage["catalogue_exhaustive"] = True
    ctx.coverage["catalogue_semantic"] = sum(1 for c in cat if c["status"] == "lemma")
    ctx.coverage["sample_cases"] = len(smp)
    ctx.coverage["sample_semantic"] = sum(1 for c in smp if c["status"] == "lemma")
    ctx.coverage["wellformedness_obligations"] = len(cases)
    ctx.coverage["special_heads_histogram"] = dict(sorted(special_hist.items()))
    ctx.coverage["structure_only"] = n_struct
    ctx.coverage["skipped_items"] = skipped
    ctx.coverage["display_name_collisions"] = collisions
    ctx.coverage["rule"] = ("catalogue: every documented member whose docstring carries :laws:latex::, source form, exhaustive; "
        "samples: seeded auto-evaluated trees (ExprGen) over 14 symbols with plain, subscripted, Greek, \\text and \\mathcal "
        "LaTeX names; every rendering gets a well-formedness obligation, every rendering inside the reader's grammar a "
        "semantic obligation; source forms: seeded law-style expressions built with evaluation disabled (SourceFormGen); "
        "distinct_nontrivial = distinct renderings containing \\frac, \\left, ^ or a sign")
    for c in (cat[:2] + smp[:3] + src[:2]):
        ctx.sample({"item": c["key"], "rendering": c["s"], "original": str(c["expr"]),
            "lemma": (c["lemma"].statement[:600] if c.get("lemma") else c["wf"].statement[:300]), "status": c["status"]})


def replay(ctx, rep):
    item = rep.get("item", "")
    expr = None
    if rep.get("origin") in ("sample", "source") or item.startswith(("sample#", "source#")):
        rng_ctx = random.Random(rep["seed"])
        sub_seed = rng_ctx.getrandbits(48)
        quick = rep.get("tier", "quick") == "quick"
        if rep.get("origin") == "source" or item.startswith("source#"):
            stream = gen_source_forms(sub_seed, 400 if quick else 4000)
        else:
            stream = gen_samples(sub_seed, 1000 if quick else 20000)
        for idx, e in stream:
            if idx == rep.get("sample_index"):
                expr = e
                break
    elif rep.get("origin") == "negsum" or item.startswith("negsum#"):
        sub_seed = random.Random(rep["seed"]).getrandbits(48)
        for idx, label, e in gen_negsums(sub_seed, 80 if rep.get("tier", "quick") == "quick" else 800):
            if idx == rep.get("sample_index"):
                expr = e
    elif rep.get("origin") == "curated" or item.startswith("curated:"):
        syms = sample_symbols()
        cl = syms[-4:]
        pool = list(rc.curated_expressions(syms)) + [(f"negsum:{l}", e) for l, e in negsum_forms(syms[0] + syms[1], syms[2], syms[5])]
        pool += [("cloned-square", cl[0]**2), ("cloned-quotient", cl[1]**2 / cl[0] + cl[2] * cl[3]),
            ("cloned-product", 2 * cl[0] * cl[1] * syms[0])]
        for label, e in pool:
            if f"curated:{label}" == item:
                expr = e
    else:
        items, _ = rc.catalogue_items()
        for it in items:
            if it["key"] == item:
                expr = it["value"]
    if expr is None:
        print(f"cannot find item {item}")
        return 2
    c = make_case(item, rep.get("origin", "catalogue"), expr, rep.get("key"))
    print("original   :", expr)
    print("rendering  :", c["s"], "(recorded:", rep.get("rendering"), ")")
    clash = 0
    for nm, objs in (c.get("clashes") or {}).items():
        print(f"{len(objs)} different symbols are shown under the same name {nm!r}: {objs}")
        clash = 1
    if clash:
        return 1
    if c["s"] is None:
        print("latex_str raises:", c.get("render_error"))
        return 1
    good, why = python_wellformed(c["s"])
    print("well-formed:", good, why)
    bad = 0 if good else 1
    for raw, printed, why2 in c.get("mangled") or []:
        print(f"symbol declared with display_latex {raw!r} is printed as {printed!r}: {why2}")
        bad = 1
    res = coqrun.prove_lemmas(ctx, "c18_replay", rc.PREAMBLE_TEX, [wf_lemma(0, c)], per_file=1)
    print("wellformed_tex lemma:", res)
    if any(v != "ok" for v in res.values()):
        bad = 1
    if c["sides"] is None:
        print("semantic part: structure only --", c.get("reason"))
        return bad
    rc.parse_pass(ctx, "c18_replay", PARSE_FN, [c], preamble=rc.PREAMBLE_TEX)
    if c["parsed"] is None:
        print("rendering does not parse under the reference LaTeX grammar")
        return 1
    print("parsed as  :", rc.aexpr_show(c["parsed"]))
    rc.classify_and_build("C18", [c], PARSE_FN)
    bad = max(bad, rc.replay_values(c, rep.get("valuation")))
    if c["status"] != "lemma":
        print("status:", c["status"], c.get("bad"), c.get("reason"))
        return 1 if (c["status"] == "bad" or bad) else 0
    res = coqrun.prove_lemmas(ctx, "c18_replay2", rc.PREAMBLE_TEX, [c["lemma"]], per_file=1)
    print("lemma:", res)
    return 1 if bad or any(v != "ok" for v in res.values()) else 0
