#!/usr/bin/env python3
"""Regenerates /verif/MANIFEST.json from the table below (kept valid at all times)."""
import json
from pathlib import Path

VERIF = Path(__file__).resolve().parents[1]
ALL = [f"C{i:02d}" for i in range(1, 21)]

# id -> (category, text, note, technique, design_ref)
CLAIMS = {
    "C04": ("proof",
        "Coq theorems over the executable Gallina model of the gate (Gate.v: verdict partition, magnitude/prefix/call-style "
        "irrelevance, sequence rule, output gate) for all dimensions with rational exponents and all value classes; the model "
        "is tied to the code on every run by a correspondence check (thousands of seeded (actual, declared) pairs and generated "
        "guarded functions evaluated by the real validators and by the model inside Coq) and the catalogue's guard table is "
        "decided exhaustively (kernel-checked table + one refusal probe per function, all guarded parameters in thorough). "
        "The calls are made directly, from the body of another guarded function, from another thread meanwhile and while another "
        "guarded function's result is produced; the same argument object is passed for several parameters; arguments and "
        "declarations include Symbolic wrappers, dimensioned functions, indexed symbols and QuantityVector objects; fixed guarded "
        "calls whose verdict the property text fixes are run in child interpreters under `python` and `python -O`.",
        "Trusted: Coq kernel + vm_compute; the SymPy->Gallina serialiser (harness/vp/qx.py); dimsys_SI dependency tables; "
        "inspect.signature.bind modelled for plain parameters. The proof is about the model; the tie is differential testing. "
        "Exponents are exact rationals (SymPy Float exponents are not covered); base dimensions are the seven SI ones plus angle. "
        "Known finding (not repaired): calculate_non_uniform_rotation_acceleration guards a non-existent parameter.",
        "machine-checked proof (Coq) over an executable model + model/implementation correspondence", "DESIGN.md §6 C04"),
}

# further claims are read from harness/claims/CNN.json:
#   {"category": ..., "text": ..., "note": ..., "technique": ..., "design_ref": ...}
for f in sorted((VERIF / "harness" / "claims").glob("C*.json")):
    d = json.loads(f.read_text())
    CLAIMS[f.stem] = (d["category"], d["text"], d["note"], d["technique"], d.get("design_ref", f"DESIGN.md §6 {f.stem}"))

# only checks that have been integrated (pass on the unchanged tree, reviewed) are registered
ENABLED = ["C01", "C02", "C03", "C04", "C05", "C06", "C07", "C08", "C09", "C10", "C11", "C12", "C13", "C14", "C15", "C16", "C17", "C18", "C19", "C20"]
CLAIMS = {k: v for k, v in CLAIMS.items() if k in ENABLED}

PENDING_REASON = "not built yet in this round (design in DESIGN.md §6); no claim is made for it until its check exists"


def main():
    checks = []
    for pid in ALL:
        if pid not in CLAIMS:
            continue
        cat, text, note, tech, ref = CLAIMS[pid]
        checks.append({
            "property_id": pid,
            "quick_cmd": f"./check {pid} --tier quick",
            "thorough_cmd": f"./check {pid} --tier thorough",
            "evidence_file": f"/verif/evidence/{pid}.json",
            "replay_cmd_template": f"./check {pid} --replay {{path}}",
            "engine": "coq-vp",
            "level_claimed": {"category": cat, "text": text, "design_ref": ref},
            "level_note": note,
            "technique": tech,
        })
    man = {
        "version": 1,
        "setup_cmd": "bash /verif/setup.sh",
        "hooks": {
            "guard": "SYMPLYPHYSICS_VERIF",
            "enable": "no source hooks are needed: checks import /repo's working tree directly (PYTHONPATH=/repo) and read "
                      "decorator specifications by closure introspection; SYMPLYPHYSICS_VERIF=1 is exported by ./check but nothing in /repo reads it",
            "baseline_off_cmd": "cd /repo && /venv/bin/python -m pytest -ra -q -p no:cacheprovider --timeout=900 --continue-on-collection-errors",
            "source_commits": [],
            "add_only": True,
        },
        "engines": [{
            "name": "coq-vp",
            "path": "/verif/coq",
            "serves_properties": [c["property_id"] for c in checks],
            "kind_free_text": "Coq 8.16.1 development (library VP): executable Gallina models + theorems, built by setup.sh; "
                              "per-run generated case files / lemmas compiled by harness/vp/coqrun.py",
        }],
        "checks": checks,
        "notes": "See DESIGN.md. ./check <ID> rebuilds everything it needs from /repo's working tree on every run.",
        "not_applicable": [{"property_id": p, "reason": PENDING_REASON} for p in ALL if p not in CLAIMS],
    }
    (VERIF / "MANIFEST.json").write_text(json.dumps(man, indent=1) + "\n")


if __name__ == "__main__":
    main()
