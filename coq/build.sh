#!/bin/bash
# Full .vo build of the static development (no -vos).  _CoqProject is regenerated from the tree.
#   build.sh            build everything
#   build.sh <target>   build one target and what it depends on (e.g. theories/Properties/C04.vo)
set -e
cd /verif/coq
{ echo "-Q theories VP"; find theories -name '*.v' | sort; } > _CoqProject.new
if ! cmp -s _CoqProject.new _CoqProject 2>/dev/null || [ ! -f Makefile ]; then
  mv _CoqProject.new _CoqProject
  coq_makefile -f _CoqProject -o Makefile >/dev/null
else
  rm -f _CoqProject.new
fi
if [ -n "$1" ]; then
  timeout 3600 make -j"${VERIF_JOBS:-16}" "$@"
else
  timeout 3600 make -j"${VERIF_JOBS:-16}"
fi
