(* Lemmas about Model/Approx.v (C08), for the exact instance QO. *)
From Coq Require Import List QArith ZArith Bool NArith Qabs Qminmax Lia Setoid Floats.
From VP Require Import Base.Util Base.Dim Base.Val Model.CollectQ Model.Gate Model.Convert Model.Approx
  Proofs.DimProofs Proofs.ConvertProofs.
Import ListNotations.
Local Open Scope Q_scope.

(* ------------------------------------------------------------------------------------------------ *)
(* numbers                                                                                           *)
(* ------------------------------------------------------------------------------------------------ *)

Definition oxq (o : option Q) : option xq := match o with Some x => Some (XQ x) | None => None end.

(* approx_equal_numbers on finite operands and tolerances *)
Definition ANq (dflt l r : Q) (rel abs : option Q) : result bool :=
  approx_numbers QO (XQ dflt) (XQ l) (XQ r) (oxq rel) (oxq abs).

Definition rel_eff (dflt : Q) (rel : option Q) : Q := match rel with Some x => x | None => dflt end.
(* the absolute tolerance the code hands to pytest.approx *)
Definition abs_eff (dflt l : Q) (rel abs : option Q) : Q :=
  match abs with Some a => a | None => Qabs (l * rel_eff dflt rel) end.
(* the absolute tolerance the caller stated (0 when none) *)
Definition abs_stated (abs : option Q) : Q := match abs with Some a => a | None => 0 end.

Lemma Qle_bool_false x y : Qle_bool x y = false <-> y < x.
Proof.
  split.
  - intros H. apply Qnot_le_lt. intros L. apply Qle_bool_iff in L. congruence.
  - intros H. destruct (Qle_bool x y) eqn:E; [|reflexivity]. apply Qle_bool_iff in E.
    exfalso. exact (Qlt_not_le _ _ H E).
Qed.

Lemma Qle_bool_max d x y : Qle_bool d (if negb (Qle_bool y x) then y else x) = Qle_bool d x || Qle_bool d y.
Proof.
  destruct (Qle_bool y x) eqn:E; cbn [negb].
  - apply Qle_bool_iff in E. destruct (Qle_bool d x) eqn:A; [reflexivity|]. cbn [orb].
    destruct (Qle_bool d y) eqn:B; [|reflexivity].
    apply Qle_bool_iff in B. assert (C : d <= x) by (eapply Qle_trans; eassumption). apply Qle_bool_iff in C. congruence.
  - apply Qle_bool_false in E. destruct (Qle_bool d y) eqn:B; [rewrite orb_true_r; reflexivity|]. rewrite orb_false_r.
    destruct (Qle_bool d x) eqn:A; [|reflexivity].
    apply Qle_bool_iff in A. assert (C : d <= y) by (apply Qlt_le_weak; eapply Qle_lt_trans; eassumption).
    apply Qle_bool_iff in C. congruence.
Qed.

Lemma Qmult_le_l' c x y : 0 <= c -> x <= y -> c * x <= c * y.
Proof. intros Hc H. rewrite (Qmult_comm c x), (Qmult_comm c y). apply Qmult_le_compat_r; assumption. Qed.

(* normal form of the verdict for non-negative tolerances *)
Lemma AN_some_normal d l r rl a :
  0 <= rl -> 0 <= a ->
  approx_numbers QO d (XQ l) (XQ r) (Some (XQ rl)) (Some (XQ a)) =
    Ok (Qeq_bool l r || (Qle_bool (Qabs (r - l)) (rl * Qabs r) || Qle_bool (Qabs (r - l)) a)).
Proof.
  intros Hr Ha. unfold approx_numbers.
  cbn [QO n_eqb n_isnan n_isinf n_abs n_ltb n_leb n_mul n_sub n_zero xeqb xabs xisnan xisinf xltb xleb xmul xsub orb].
  destruct (Qeq_bool l r); [reflexivity|]. cbn [orb].
  apply Qle_bool_iff in Ha. rewrite Ha. cbn [negb].
  assert (Hrt : 0 <= rl * Qabs r) by (apply Qmult_le_0_compat; [exact Hr | apply Qabs_nonneg]).
  apply Qle_bool_iff in Hrt. rewrite Hrt. cbn [negb].
  rewrite <- (Qle_bool_max (Qabs (r - l)) (rl * Qabs r) a).
  destruct (negb (Qle_bool a (rl * Qabs r))); reflexivity.
Qed.

Lemma ANq_defaults dflt l r rel abs :
  ANq dflt l r rel abs =
  approx_numbers QO (XQ dflt) (XQ l) (XQ r) (Some (XQ (rel_eff dflt rel))) (Some (XQ (abs_eff dflt l rel abs))).
Proof. destruct rel, abs; reflexivity. Qed.

Lemma ANq_normal dflt l r rel abs :
  0 <= rel_eff dflt rel -> 0 <= abs_eff dflt l rel abs ->
  ANq dflt l r rel abs =
    Ok (Qeq_bool l r ||
        (Qle_bool (Qabs (r - l)) (rel_eff dflt rel * Qabs r) || Qle_bool (Qabs (r - l)) (abs_eff dflt l rel abs))).
Proof. intros Hr Ha. rewrite ANq_defaults. apply AN_some_normal; assumption. Qed.

Lemma abs_eff_nonneg dflt l rel abs : (forall a, abs = Some a -> 0 <= a) -> 0 <= abs_eff dflt l rel abs.
Proof. intros H. unfold abs_eff. destruct abs as [a|]; [apply H; reflexivity | apply Qabs_nonneg]. Qed.

Lemma abs_eff_none dflt l rel : 0 <= rel_eff dflt rel -> abs_eff dflt l rel None == rel_eff dflt rel * Qabs l.
Proof.
  intros H. unfold abs_eff. rewrite Qabs_Qmult, (Qabs_pos (rel_eff dflt rel)) by exact H. ring.
Qed.

(* characterisation: passes iff equal, or within the larger of rel*|rhs| and the absolute tolerance handed over *)
Theorem approx_numbers_spec dflt l r rel abs :
  0 <= rel_eff dflt rel -> (forall a, abs = Some a -> 0 <= a) ->
  exists b, ANq dflt l r rel abs = Ok b /\
    (b = true <-> l == r \/ Qabs (r - l) <= Qmax (rel_eff dflt rel * Qabs r) (abs_eff dflt l rel abs)).
Proof.
  intros Hr Ha. pose proof (abs_eff_nonneg dflt l rel abs Ha) as Ha'.
  rewrite ANq_normal by assumption. eexists. split; [reflexivity|].
  rewrite !orb_true_iff, Qeq_bool_iff, !Qle_bool_iff, Q.max_le_iff. reflexivity.
Qed.

(* rejects: difference larger than the larger of the stated absolute tolerance and rel * the larger magnitude *)
Theorem approx_rejects dflt l r rel abs :
  0 <= rel_eff dflt rel -> (forall a, abs = Some a -> 0 <= a) ->
  Qmax (abs_stated abs) (rel_eff dflt rel * Qmax (Qabs l) (Qabs r)) < Qabs (l - r) ->
  ANq dflt l r rel abs = Ok false.
Proof.
  intros Hr Ha H. pose proof (abs_eff_nonneg dflt l rel abs Ha) as Ha'.
  apply Q.max_lub_lt_iff in H as [H1 H2].
  assert (Hl : rel_eff dflt rel * Qabs l < Qabs (l - r)).
  { eapply Qle_lt_trans; [|exact H2]. apply Qmult_le_l'; [exact Hr | apply Q.le_max_l]. }
  assert (Hrr : rel_eff dflt rel * Qabs r < Qabs (l - r)).
  { eapply Qle_lt_trans; [|exact H2]. apply Qmult_le_l'; [exact Hr | apply Q.le_max_r]. }
  assert (Habs : abs_eff dflt l rel abs < Qabs (l - r)).
  { destruct abs as [a|]; [exact H1|]. rewrite abs_eff_none by exact Hr. exact Hl. }
  rewrite ANq_normal by assumption. rewrite (Qabs_Qminus r l).
  assert (E1 : Qeq_bool l r = false).
  { destruct (Qeq_bool l r) eqn:E; [|reflexivity]. apply Qeq_bool_iff in E.
    assert (Z : Qabs (l - r) == 0) by (rewrite E; setoid_replace (r - r) with 0 by ring; reflexivity).
    rewrite Z in Habs. exfalso. exact (Qlt_not_le _ _ Habs Ha'). }
  apply Qle_bool_false in Hrr. apply Qle_bool_false in Habs. rewrite E1, Hrr, Habs. reflexivity.
Qed.

Theorem approx_accepts_abs dflt l r rel a :
  0 <= rel_eff dflt rel -> Qabs (l - r) <= a -> ANq dflt l r rel (Some a) = Ok true.
Proof.
  intros Hr H.
  assert (Ha : 0 <= a) by (eapply Qle_trans; [apply Qabs_nonneg | exact H]).
  rewrite ANq_normal; [|exact Hr|exact Ha]. rewrite (Qabs_Qminus r l). cbn [abs_eff].
  apply Qle_bool_iff in H. rewrite H, !orb_true_r. reflexivity.
Qed.

Theorem approx_accepts_rel dflt l r rel :
  0 <= rel_eff dflt rel -> Qabs (l - r) <= rel_eff dflt rel * Qmax (Qabs l) (Qabs r) ->
  ANq dflt l r rel None = Ok true.
Proof.
  intros Hr H. rewrite ANq_normal; [|exact Hr|apply Qabs_nonneg]. rewrite (Qabs_Qminus r l).
  destruct (Q.max_spec_le (Qabs l) (Qabs r)) as [[_ E]|[_ E]]; rewrite E in H.
  - apply Qle_bool_iff in H. rewrite H, orb_true_l, orb_true_r. reflexivity.
  - rewrite <- abs_eff_none in H by exact Hr. apply Qle_bool_iff in H. rewrite H, !orb_true_r. reflexivity.
Qed.

(* without an absolute tolerance the verdict is symmetric in the operands *)
Theorem approx_symmetric_without_abs dflt l r rel :
  0 <= rel_eff dflt rel -> ANq dflt l r rel None = ANq dflt r l rel None.
Proof.
  intros Hr. rewrite !ANq_normal by (try exact Hr; apply Qabs_nonneg).
  rewrite (Qabs_Qminus r l).
  rewrite (Qleb_comp _ _ (Qeq_refl _) _ _ (abs_eff_none dflt l rel Hr)).
  rewrite (Qleb_comp _ _ (Qeq_refl _) _ _ (abs_eff_none dflt r rel Hr)).
  assert (E : Qeq_bool l r = Qeq_bool r l).
  { destruct (Qeq_bool l r) eqn:A, (Qeq_bool r l) eqn:B; try reflexivity.
    - apply Qeq_bool_iff in A. symmetry in A. apply Qeq_bool_iff in A. congruence.
    - apply Qeq_bool_iff in B. symmetry in B. apply Qeq_bool_iff in B. congruence. }
  rewrite E. f_equal. f_equal. apply orb_comm.
Qed.

(* an infinite number is approximately equal only to itself (first branch of approx_equal_numbers, commit 7783335),
   whatever the tolerances *)
Theorem approx_infinite_only_equal_to_itself dflt (l r : xq) rel abs :
  xisinf l || xisinf r = true -> approx_numbers QO dflt l r rel abs = Ok (xeqb l r).
Proof. intros H. unfold approx_numbers. cbn [QO n_isinf n_eqb]. rewrite H. reflexivity. Qed.

Lemma xeqb_sym a b : xeqb a b = xeqb b a.
Proof.
  destruct a as [x| | |], b as [y| | |]; cbn [xeqb]; try reflexivity.
  destruct (Qeq_bool x y) eqn:A, (Qeq_bool y x) eqn:B; try reflexivity.
  - apply Qeq_bool_iff in A. symmetry in A. apply Qeq_bool_iff in A. congruence.
  - apply Qeq_bool_iff in B. symmetry in B. apply Qeq_bool_iff in B. congruence.
Qed.

(* symmetry of the verdict over ALL operands -- finite, infinite and NaN -- without an absolute tolerance *)
Theorem approx_symmetric_extended dflt (l r : xq) rel :
  0 <= rel_eff dflt rel ->
  (approx_numbers QO (XQ dflt) l r (oxq rel) None = Ok true <-> approx_numbers QO (XQ dflt) r l (oxq rel) None = Ok true).
Proof.
  intros Hr.
  destruct (xisinf l || xisinf r) eqn:I.
  - rewrite (approx_infinite_only_equal_to_itself _ l r _ _ I).
    rewrite orb_comm in I. rewrite (approx_infinite_only_equal_to_itself _ r l _ _ I), xeqb_sym. reflexivity.
  - destruct l as [x| | |], r as [y| | |]; try discriminate I.
    + change (ANq dflt x y rel None = Ok true <-> ANq dflt y x rel None = Ok true).
      rewrite (approx_symmetric_without_abs dflt x y rel Hr). reflexivity.
    + (* finite vs NaN: False one way, ValueError the other; neither passes *)
      destruct rel; split; intros H; vm_compute in H; try discriminate H;
        unfold approx_numbers in H; cbn [QO n_isinf n_eqb n_isnan n_abs n_mul n_ltb n_zero xisinf xeqb xisnan xabs xmul xltb orb oxq] in H;
        repeat match type of H with context [if ?b then _ else _] => destruct b end; discriminate H.
    + destruct rel; split; intros H;
        unfold approx_numbers in H; cbn [QO n_isinf n_eqb n_isnan n_abs n_mul n_ltb n_zero xisinf xeqb xisnan xabs xmul xltb orb oxq] in H;
        repeat match type of H with context [if ?b then _ else _] => destruct b end; discriminate H.
    + split; intros H; vm_compute in H; destruct rel; discriminate H.
Qed.

(* a negative tolerance is an error unless the operands are equal *)
Theorem approx_negative_tolerance dflt l r rel a :
  ~ l == r -> a < 0 -> ANq dflt l r rel (Some a) = Err E_VALUE.
Proof.
  intros Hne Ha. unfold ANq, approx_numbers.
  cbn [oxq QO n_eqb n_isnan n_isinf n_abs n_ltb n_zero xeqb xabs xisnan xisinf xltb orb].
  destruct (Qeq_bool l r) eqn:E; [apply Qeq_bool_iff in E; contradiction|].
  apply Qle_bool_false in Ha. rewrite Ha. reflexivity.
Qed.

(* ------------------------------------------------------------------------------------------------ *)
(* quantities                                                                                        *)
(* ------------------------------------------------------------------------------------------------ *)

Lemma dim_gate_unfold (l r : aq QO) :
  dim_gate QO l r = if wild (aq_val r) (aq_dim r) then None else gate_qd (aq_val l) (aq_dim l) (aq_dim r).
Proof.
  unfold dim_gate, gate_qd, gate1, wild. cbn [collect].
  destruct (is_any (aq_val r) || is_anydim_instance (aq_dim r)); reflexivity.
Qed.

(* the dimension check passes exactly when one side matches everything (zero / infinite / NaN magnitude or the
   any_dimension wildcard) or the dimensions are equivalent after angle erasure *)
Theorem dim_gate_pass_iff (l r : aq QO) :
  is_number (aq_val l) = true ->
  (dim_gate QO l r = None <->
   wild (aq_val r) (aq_dim r) = true \/ wild (aq_val l) (aq_dim l) = true \/
   deq (erase_angle (aq_dim l)) (erase_angle (aq_dim r))).
Proof.
  intros Hn. rewrite dim_gate_unfold. destruct (wild (aq_val r) (aq_dim r)); [split; auto|].
  rewrite (gate_qd_pass_iff _ _ _ Hn). split; [intros H; right; exact H | intros [H|H]; [discriminate | exact H]].
Qed.

(* dimension first: when the dimension check fails the result is that error, whatever the values and tolerances *)
Theorem approx_dimension_first dflt (l r : aq QO) rel abs k :
  dim_gate QO l r = Some k -> approx_quantities_core QO dflt l r rel abs = Err k.
Proof. intros H. unfold approx_quantities_core. rewrite H. reflexivity. Qed.

Theorem assert_equal_dimension_first dflt (l r : aq QO) rel abs dimension :
  is_number (aq_val l) = true ->
  wild (aq_val r) (aq_dim r) = false -> wild (aq_val l) (aq_dim l) = false ->
  ~ deq (erase_angle (aq_dim l)) (erase_angle (aq_dim r)) ->
  exists k, assert_equal QO dflt (OQ l) (OQ r) rel abs dimension = Some k /\ (k = E_UNITS \/ k = E_TYPE).
Proof.
  intros Hn Wr Wl Hd. unfold assert_equal. cbn [build]. unfold approx_quantities_core.
  destruct (dim_gate QO l r) as [k|] eqn:G.
  - exists k. split; [reflexivity|]. rewrite dim_gate_unfold, Wr in G.
    eapply (convert_refusal_class (aq_val l) (aq_dim l) (VQ 1) (aq_dim r)); [exact Hn|].
    unfold convert_core. fold (gate_qd (aq_val l) (aq_dim l) (aq_dim r)). rewrite G. reflexivity.
  - exfalso. apply dim_gate_pass_iff in G; [|exact Hn]. destruct G as [G|[G|G]]; [congruence | congruence | contradiction].
Qed.

(* the imaginary parts are compared as well as the real parts *)
Theorem approx_imag_checked dflt (l r : aq QO) rel abs :
  dim_gate QO l r = None ->
  approx_numbers QO dflt (aq_im l) (aq_im r) rel abs = Ok false ->
  approx_quantities_core QO dflt l r rel abs = Ok false.
Proof. intros G H. unfold approx_quantities_core. rewrite G, H. reflexivity. Qed.

Theorem approx_real_checked dflt (l r : aq QO) rel abs :
  dim_gate QO l r = None ->
  approx_numbers QO dflt (aq_im l) (aq_im r) rel abs = Ok true ->
  approx_quantities_core QO dflt l r rel abs = approx_numbers QO dflt (aq_re l) (aq_re r) rel abs.
Proof. intros G H. unfold approx_quantities_core. rewrite G, H. reflexivity. Qed.

(* a finite complex quantity *)
Definition fq (v : val) (re im : Q) (d : dim) : aq QO := @Build_aq QO v (XQ re) (XQ im) d.

Definition gap dflt (rel abs : option Q) (x y : Q) : Prop :=
  Qmax (abs_stated abs) (rel_eff dflt rel * Qmax (Qabs x) (Qabs y)) < Qabs (x - y).

Definition within dflt (rel abs : option Q) (x y : Q) : Prop :=
  match abs with
  | Some a => Qabs (x - y) <= a
  | None => Qabs (x - y) <= rel_eff dflt rel * Qmax (Qabs x) (Qabs y)
  end.

(* the assertion fails whenever the real or the imaginary parts differ by more than the larger of the stated
   absolute tolerance and the relative tolerance of the larger magnitude (and whenever the dimension check fails) *)
Theorem assert_equal_rejects dflt vl rel_l iml dl vr rer imr dr rel abs dimension :
  0 <= rel_eff dflt rel -> (forall a, abs = Some a -> 0 <= a) ->
  gap dflt rel abs rel_l rer \/ gap dflt rel abs iml imr ->
  assert_equal QO (XQ dflt) (OQ (fq vl rel_l iml dl)) (OQ (fq vr rer imr dr)) (oxq rel) (oxq abs) dimension <> None.
Proof.
  intros Hr Ha H. unfold assert_equal. cbn [build]. unfold approx_quantities_core.
  destruct (dim_gate QO (fq vl rel_l iml dl) (fq vr rer imr dr)); [discriminate|].
  cbn [fq aq_im aq_re].
  fold (ANq dflt iml imr rel abs). fold (ANq dflt rel_l rer rel abs).
  destruct H as [H|H].
  - destruct (ANq dflt iml imr rel abs) as [[|]|]; try discriminate.
    rewrite (approx_rejects dflt rel_l rer rel abs Hr Ha H). discriminate.
  - rewrite (approx_rejects dflt iml imr rel abs Hr Ha H). discriminate.
Qed.

(* ... and passes whenever the dimension check passes and both parts are within the stated tolerance *)
Theorem assert_equal_accepts dflt vl rel_l iml dl vr rer imr dr rel abs dimension :
  0 <= rel_eff dflt rel ->
  dim_gate QO (fq vl rel_l iml dl) (fq vr rer imr dr) = None ->
  within dflt rel abs rel_l rer -> within dflt rel abs iml imr ->
  assert_equal QO (XQ dflt) (OQ (fq vl rel_l iml dl)) (OQ (fq vr rer imr dr)) (oxq rel) (oxq abs) dimension = None.
Proof.
  intros Hr G H1 H2. unfold assert_equal. cbn [build]. unfold approx_quantities_core. rewrite G.
  cbn [fq aq_im aq_re].
  fold (ANq dflt iml imr rel abs). fold (ANq dflt rel_l rer rel abs).
  destruct abs as [a|]; cbn [within] in H1, H2.
  - rewrite (approx_accepts_abs dflt iml imr rel a Hr H2), (approx_accepts_abs dflt rel_l rer rel a Hr H1). reflexivity.
  - rewrite (approx_accepts_rel dflt iml imr rel Hr H2), (approx_accepts_rel dflt rel_l rer rel Hr H1). reflexivity.
Qed.

(* an infinite real part against a different real part never passes, in either order, whatever the tolerances *)
Theorem assert_equal_infinite_rejects dflt (l r : aq QO) rel abs dimension :
  xisinf (aq_re l) || xisinf (aq_re r) = true -> xeqb (aq_re l) (aq_re r) = false ->
  assert_equal QO dflt (OQ l) (OQ r) rel abs dimension <> None.
Proof.
  intros I E. unfold assert_equal. cbn [build]. unfold approx_quantities_core.
  destruct (dim_gate QO l r); [discriminate|].
  destruct (approx_numbers QO dflt (aq_im l) (aq_im r) rel abs) as [[|]|]; try discriminate.
  rewrite (approx_infinite_only_equal_to_itself dflt _ _ rel abs I), E. discriminate.
Qed.

(* symmetric verdict (pass / fail) without an absolute tolerance, for finite quantities that are not wildcards *)
Theorem assert_equal_symmetric_without_abs dflt vl rel_l iml dl vr rer imr dr rel dimension :
  0 <= rel_eff dflt rel ->
  is_number vl = true -> is_number vr = true ->
  wild vl dl = false -> wild vr dr = false ->
  (assert_equal QO (XQ dflt) (OQ (fq vl rel_l iml dl)) (OQ (fq vr rer imr dr)) (oxq rel) None dimension = None <->
   assert_equal QO (XQ dflt) (OQ (fq vr rer imr dr)) (OQ (fq vl rel_l iml dl)) (oxq rel) None dimension = None).
Proof.
  intros Hr Nl Nr Wl Wr. unfold assert_equal. cbn [build]. unfold approx_quantities_core.
  set (L := fq vl rel_l iml dl). set (R := fq vr rer imr dr).
  assert (G : dim_gate QO L R = None <-> dim_gate QO R L = None).
  { rewrite (dim_gate_pass_iff L R Nl), (dim_gate_pass_iff R L Nr). subst L R. cbn [fq aq_val aq_dim].
    rewrite Wl, Wr. split; (intros [H|[H|H]]; [discriminate | discriminate | right; right; apply deq_sym; exact H]). }
  subst L R. cbn [fq aq_im aq_re] in *.
  change (approx_numbers QO (XQ dflt) (XQ iml) (XQ imr) (oxq rel) None) with (ANq dflt iml imr rel None).
  change (approx_numbers QO (XQ dflt) (XQ imr) (XQ iml) (oxq rel) None) with (ANq dflt imr iml rel None).
  change (approx_numbers QO (XQ dflt) (XQ rel_l) (XQ rer) (oxq rel) None) with (ANq dflt rel_l rer rel None).
  change (approx_numbers QO (XQ dflt) (XQ rer) (XQ rel_l) (oxq rel) None) with (ANq dflt rer rel_l rel None).
  rewrite (approx_symmetric_without_abs dflt imr iml rel Hr), (approx_symmetric_without_abs dflt rer rel_l rel Hr).
  destruct (dim_gate QO (fq vl rel_l iml dl) (fq vr rer imr dr)) as [k|] eqn:G1;
    destruct (dim_gate QO (fq vr rer imr dr) (fq vl rel_l iml dl)) as [k'|] eqn:G2.
  - split; discriminate.
  - exfalso. destruct G as [_ G]. discriminate (G eq_refl).
  - exfalso. destruct G as [G _]. discriminate (G eq_refl).
  - reflexivity.
Qed.

(* the verdict depends on the operands only through (scale factor, dimension): the units they are written in are
   irrelevant *)
Theorem approx_unit_independent dflt (l : operand QO) e e' rel abs dimension :
  quantity_ctor e dimension = quantity_ctor e' dimension ->
  assert_equal QO dflt l (OE e) rel abs dimension = assert_equal QO dflt l (OE e') rel abs dimension.
Proof. intros H. unfold assert_equal. cbn [build]. rewrite H. reflexivity. Qed.

Theorem approx_unit_independent_lhs dflt (r : operand QO) e e' rel abs dimension :
  quantity_ctor e None = quantity_ctor e' None ->
  assert_equal QO dflt (OE e) r rel abs dimension = assert_equal QO dflt (OE e') r rel abs dimension.
Proof. intros H. unfold assert_equal. cbn [build]. rewrite H. reflexivity. Qed.

(* a bare non-zero number on the right is compared with a dimensional quantity only under an explicit dimension *)
Lemma deqb_dzero_dimensionless a : deqb a dzero = true -> dimensionless a = true.
Proof. intros H. apply deqb_deq in H. rewrite (dimensionless_deq _ _ H). reflexivity. Qed.

Theorem bare_number_needs_dimension dflt vl rel_l iml dl x rel abs :
  is_number vl = true -> wild vl dl = false -> dimensionless (erase_angle dl) = false -> ~ x == 0 ->
  assert_equal QO dflt (OQ (fq vl rel_l iml dl)) (OE (QNum (VQ x))) rel abs None = Some E_UNITS.
Proof.
  intros Hn Wl Hd Hx. unfold assert_equal. cbn [build quantity_ctor collect is_number complex_ok parts_of_val].
  unfold approx_quantities_core. rewrite dim_gate_unfold. cbn [aq_val aq_dim fq].
  unfold wild at 1. cbn [is_any]. apply qzero_false in Hx. rewrite Hx.
  change (is_anydim_instance dzero) with false. cbn [orb].
  rewrite gate_qd_unfold, Hn. cbn [negb]. unfold wild in Wl. rewrite Wl.
  change (erase_angle dzero) with dzero. change (dimensionless dzero) with true. cbn [negb]. rewrite andb_false_r.
  unfold equivalent_dims. destruct (deqb (erase_angle dl) dzero) eqn:E; [|reflexivity].
  apply deqb_dzero_dimensionless in E. congruence.
Qed.

(* with dimension=d the bare number is read as a quantity of dimension d *)
Theorem bare_number_with_dimension dflt (l : operand QO) x d rel abs :
  assert_equal QO dflt l (OE (QNum (VQ x))) rel abs (Some d) =
  assert_equal QO dflt l (OQ (fq (VQ x) x 0 d)) rel abs (Some d).
Proof. reflexivity. Qed.

(* lhs dimension is never overridden *)
Theorem lhs_dimension_not_overridden dflt e (r : operand QO) rel abs d d' :
  build QO r d = build QO r d' ->
  assert_equal QO dflt (OE e) r rel abs d = assert_equal QO dflt (OE e) r rel abs d'.
Proof. intros H. unfold assert_equal. rewrite H. reflexivity. Qed.

(* ------------------------------------------------------------------------------------------------ *)
(* vectors                                                                                           *)
(* ------------------------------------------------------------------------------------------------ *)

Theorem vectors_pass_iff dflt (ls rs : list (aq QO)) rel abs dimension :
  assert_equal_vectors QO dflt ls rs rel abs dimension = None <->
  Forall2 (fun l r => assert_equal QO dflt (OQ l) (OQ r) rel abs dimension = None) ls rs.
Proof.
  revert rs; induction ls as [|l ls IH]; intros [|r rs]; cbn [assert_equal_vectors].
  - split; [constructor | reflexivity].
  - split; [discriminate | intros H; inversion H].
  - split; [discriminate | intros H; inversion H].
  - destruct (assert_equal QO dflt (OQ l) (OQ r) rel abs dimension) eqn:E.
    + split; [discriminate | intros H; inversion H; congruence].
    + rewrite IH. split; [intros H; constructor; assumption | intros H; inversion H; assumption].
Qed.

Theorem vectors_need_equal_length dflt (ls rs : list (aq QO)) rel abs dimension :
  length ls <> length rs -> assert_equal_vectors QO dflt ls rs rel abs dimension <> None.
Proof.
  intros Hl H. apply vectors_pass_iff in H. apply Hl. clear Hl. induction H; cbn; congruence.
Qed.

(* ------------------------------------------------------------------------------------------------ *)
(* non-vacuity                                                                                       *)
(* ------------------------------------------------------------------------------------------------ *)
Definition d_len : dim := base 0.
Definition d_tim : dim := base 2.
Definition dflt_q : xq := XQ (1 # 1000).

Example ex_pass : assert_equal QO dflt_q (OQ (fq (VQ 1) 1 0 d_len)) (OQ (fq (VQ (10005 # 10000)) (10005 # 10000) 0 d_len)) None None None = None.
Proof. vm_compute. reflexivity. Qed.

Example ex_fail : assert_equal QO dflt_q (OQ (fq (VQ 1) 1 0 d_len)) (OQ (fq (VQ (1002 # 1000)) (1002 # 1000) 0 d_len)) None None None = Some E_ASSERT.
Proof. vm_compute. reflexivity. Qed.

Example ex_boundary_in : ANq (1 # 1000) (1001 # 1000) 1 None None = Ok true.
Proof. vm_compute. reflexivity. Qed.

Example ex_boundary_out : ANq (1 # 1000) (10011 # 10000) 1 None None = Ok false.
Proof. vm_compute. reflexivity. Qed.

Example ex_wrong_dimension : assert_equal QO dflt_q (OQ (fq (VQ 1) 1 0 d_len)) (OQ (fq (VQ 1) 1 0 d_tim)) None None None = Some E_UNITS.
Proof. vm_compute. reflexivity. Qed.

Example ex_imag : assert_equal QO dflt_q (OQ (fq VOther 1 2 d_len)) (OQ (fq VOther 1 (201 # 100) d_len)) None None None = Some E_ASSERT.
Proof. vm_compute. reflexivity. Qed.

Example ex_bare : assert_equal QO dflt_q (OQ (fq (VQ 1) 1 0 d_len)) (OE (QNum (VQ 1))) None None None = Some E_UNITS.
Proof. vm_compute. reflexivity. Qed.

Example ex_bare_dim : assert_equal QO dflt_q (OQ (fq (VQ 1) 1 0 d_len)) (OE (QNum (VQ 1))) None None (Some d_len) = None.
Proof. vm_compute. reflexivity. Qed.

Example ex_vector_length :
  assert_equal_vectors QO dflt_q [fq (VQ 1) 1 0 d_len; fq (VQ 2) 2 0 d_len] [fq (VQ 1) 1 0 d_len] None None None = Some E_VALUE.
Proof. vm_compute. reflexivity. Qed.

Example ex_infinite_lhs : approx_numbers QO dflt_q XPInf (XQ 1) None None = Ok false /\ approx_numbers QO dflt_q (XQ 1) XPInf None None = Ok false
  /\ approx_numbers QO dflt_q XPInf XPInf None None = Ok true /\ approx_numbers QO dflt_q XNInf XPInf None None = Ok false.
Proof. vm_compute. repeat split; reflexivity. Qed.

Example ex_infinite_float :
  approx_numbers FO 0x1.0624dd2f1a9fcp-10%float infinity 1%float None None = Ok false /\
  approx_numbers FO 0x1.0624dd2f1a9fcp-10%float infinity infinity None None = Ok true.
Proof. vm_compute. split; reflexivity. Qed.

Example ex_float_instance :
  approx_numbers FO 0x1.0624dd2f1a9fcp-10%float 0x1.004189374bc6ap+0%float 1%float None None = Ok true.
Proof. vm_compute. reflexivity. Qed.
