(* Identities of R^3 used by the C14 / C16 developments. *)
From Coq Require Import Reals Lra.
From VP Require Import Model.Vec3.
Local Open Scope R_scope.

Lemma v3_eq (a b : V3) : vx a = vx b -> vy a = vy b -> vz a = vz b -> a = b.
Proof. destruct a, b; cbn; intros; subst; reflexivity. Qed.

(* closes every polynomial identity between vectors / scalars built from the operations of Vec3 *)
Ltac v3_unfold :=
  unfold mixed, vsub, vneg, dot, cross, vadd, vscale, vzero in *; cbn [vx vy vz] in *.
Ltac v3_ring :=
  intros;
  repeat match goal with v : V3 |- _ => destruct v end;
  v3_unfold;
  first [ ring | apply v3_eq; cbn [vx vy vz]; ring ].

Lemma vadd_comm a b : vadd a b = vadd b a. Proof. v3_ring. Qed.
Lemma vadd_assoc a b c : vadd a (vadd b c) = vadd (vadd a b) c. Proof. v3_ring. Qed.
Lemma vadd_zero_l a : vadd vzero a = a. Proof. v3_ring. Qed.
Lemma vadd_zero_r a : vadd a vzero = a. Proof. v3_ring. Qed.
Lemma vscale_one a : vscale 1 a = a. Proof. v3_ring. Qed.
Lemma vscale_zero a : vscale 0 a = vzero. Proof. v3_ring. Qed.
Lemma vscale_vzero k : vscale k vzero = vzero. Proof. v3_ring. Qed.
Lemma vscale_vscale k l a : vscale k (vscale l a) = vscale (k * l) a. Proof. v3_ring. Qed.
Lemma vscale_vadd k a b : vscale k (vadd a b) = vadd (vscale k a) (vscale k b). Proof. v3_ring. Qed.
Lemma vscale_plus k l a : vscale (k + l) a = vadd (vscale k a) (vscale l a). Proof. v3_ring. Qed.
Lemma vsub_self a : vsub a a = vzero. Proof. v3_ring. Qed.

Lemma dot_comm a b : dot a b = dot b a. Proof. v3_ring. Qed.
Lemma dot_add_l a b c : dot (vadd a b) c = dot a c + dot b c. Proof. v3_ring. Qed.
Lemma dot_add_r a b c : dot a (vadd b c) = dot a b + dot a c. Proof. v3_ring. Qed.
Lemma dot_scale_l k a b : dot (vscale k a) b = k * dot a b. Proof. v3_ring. Qed.
Lemma dot_scale_r k a b : dot a (vscale k b) = k * dot a b. Proof. v3_ring. Qed.
Lemma dot_zero_l a : dot vzero a = 0. Proof. v3_ring. Qed.
Lemma dot_zero_r a : dot a vzero = 0. Proof. v3_ring. Qed.

Lemma cross_anticomm a b : cross a b = vneg (cross b a). Proof. v3_ring. Qed.
Lemma cross_self a : cross a a = vzero. Proof. v3_ring. Qed.
Lemma cross_add_l a b c : cross (vadd a b) c = vadd (cross a c) (cross b c). Proof. v3_ring. Qed.
Lemma cross_add_r a b c : cross a (vadd b c) = vadd (cross a b) (cross a c). Proof. v3_ring. Qed.
Lemma cross_scale_l k a b : cross (vscale k a) b = vscale k (cross a b). Proof. v3_ring. Qed.
Lemma cross_scale_r k a b : cross a (vscale k b) = vscale k (cross a b). Proof. v3_ring. Qed.
Lemma cross_zero_l a : cross vzero a = vzero. Proof. v3_ring. Qed.
Lemma cross_zero_r a : cross a vzero = vzero. Proof. v3_ring. Qed.

Lemma mixed_cyclic a b c : mixed a b c = mixed b c a. Proof. v3_ring. Qed.
Lemma mixed_swap12 a b c : mixed a b c = - mixed b a c. Proof. v3_ring. Qed.
Lemma mixed_swap23 a b c : mixed a b c = - mixed a c b. Proof. v3_ring. Qed.
Lemma mixed_add_1 a a' b c : mixed (vadd a a') b c = mixed a b c + mixed a' b c. Proof. v3_ring. Qed.
Lemma mixed_add_2 a b b' c : mixed a (vadd b b') c = mixed a b c + mixed a b' c. Proof. v3_ring. Qed.
Lemma mixed_add_3 a b c c' : mixed a b (vadd c c') = mixed a b c + mixed a b c'. Proof. v3_ring. Qed.
Lemma mixed_scale_1 k a b c : mixed (vscale k a) b c = k * mixed a b c. Proof. v3_ring. Qed.
Lemma mixed_scale_2 k a b c : mixed a (vscale k b) c = k * mixed a b c. Proof. v3_ring. Qed.
Lemma mixed_scale_3 k a b c : mixed a b (vscale k c) = k * mixed a b c. Proof. v3_ring. Qed.

(* the classical product identities the rewrite rules of VectorCross are instances of *)
Lemma binet_cauchy a b c d :
  dot (cross a b) (cross c d) = dot a c * dot b d - dot a d * dot b c.
Proof. v3_ring. Qed.
Lemma triple_cross_l a b c :
  cross (cross a b) c = vsub (vscale (dot c a) b) (vscale (dot c b) a).
Proof. v3_ring. Qed.
Lemma triple_cross_r a b c :
  cross a (cross b c) = vsub (vscale (dot a c) b) (vscale (dot a b) c).
Proof. v3_ring. Qed.
Lemma cross_cross a b c d :
  cross (cross a b) (cross c d) = vsub (vscale (mixed d a b) c) (vscale (mixed c a b) d).
Proof. v3_ring. Qed.
Lemma jacobi a b c :
  vadd (cross a (cross b c)) (vadd (cross b (cross c a)) (cross c (cross a b))) = vzero.
Proof. v3_ring. Qed.
Lemma lagrange a b : dot (cross a b) (cross a b) + dot a b * dot a b = dot a a * dot b b.
Proof. v3_ring. Qed.

(* norm *)
Lemma dot_self_nonneg a : 0 <= dot a a.
Proof. destruct a as [x y z]; unfold dot; cbn. nra. Qed.
Lemma norm_nonneg a : 0 <= norm a.
Proof. unfold norm. apply sqrt_pos. Qed.
Lemma norm_sq a : norm a * norm a = dot a a.
Proof. unfold norm. apply sqrt_sqrt. apply dot_self_nonneg. Qed.
Lemma norm_zero : norm vzero = 0.
Proof. unfold norm. rewrite dot_zero_l. apply sqrt_0. Qed.
Lemma norm_scale k a : norm (vscale k a) = Rabs k * norm a.
Proof.
  unfold norm. rewrite dot_scale_l, dot_scale_r, <- Rmult_assoc.
  rewrite sqrt_mult; [| nra | apply dot_self_nonneg].
  f_equal. replace (k * k) with (k²) by reflexivity. apply sqrt_Rsqr_abs.
Qed.
(* uniqueness used by the generated norm obligations: a non-negative n with n*n = v.v is norm v *)
Lemma norm_unique a n : 0 <= n -> n * n = dot a a -> n = norm a.
Proof.
  intros Hn Hsq. unfold norm. rewrite <- Hsq.
  symmetry. replace (n * n) with (n²) by reflexivity. apply sqrt_Rsqr; assumption.
Qed.
Lemma norm_eq_zero a : norm a = 0 -> a = vzero.
Proof.
  intros H. pose proof (norm_sq a) as Hs. rewrite H in Hs.
  destruct a as [x y z]; unfold dot in Hs; cbn in Hs.
  assert (x = 0) by nra. assert (y = 0) by nra. assert (z = 0) by nra. subst. reflexivity.
Qed.

(* non-vacuity *)
Example cross_e1_e2 : cross (mkV 1 0 0) (mkV 0 1 0) = mkV 0 0 1.
Proof. apply v3_eq; cbn; ring. Qed.
Example mixed_e1_e2_e3 : mixed (mkV 1 0 0) (mkV 0 1 0) (mkV 0 0 1) = 1.
Proof. unfold mixed, dot, cross; cbn; ring. Qed.
