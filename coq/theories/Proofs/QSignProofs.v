From Coq Require Import QArith Bool Qabs Lia Lqa.
From VP Require Import Base.Val Model.QSign.

Lemma Qle_bool_true q : Qle_bool 0 q = true <-> (0 <= q)%Q.
Proof. apply Qle_bool_iff. Qed.

(* a positive value is never denied: this is what lets SymPy decide Max(q, 0) = q for an infinite quantity *)
Lemma sign_claim_positive q : (0 < q)%Q -> qty_is_positive (VQ q) = Some true.
Proof. intro H. unfold qty_is_positive. f_equal. apply Qle_bool_iff. apply Qlt_le_weak; exact H. Qed.

Lemma sign_claim_pinf : qty_is_positive VPInf = Some true.
Proof. reflexivity. Qed.

Lemma sign_claim_negative q : (q < 0)%Q -> qty_is_positive (VQ q) = Some false.
Proof.
  intro H. unfold qty_is_positive. f_equal.
  destruct (Qle_bool 0 q) eqn:E; [|reflexivity].
  apply Qle_bool_iff in E. exfalso. apply (Qlt_irrefl q). apply Qlt_le_trans with 0%Q; assumption.
Qed.

Lemma sign_claim_specials :
  qty_is_positive VNInf = Some false /\ qty_is_positive VNaN = Some false /\ qty_is_positive VZoo = Some false /\
  qty_is_positive VSym = Some false.
Proof. repeat split. Qed.

(* whoever is claimed positive is a non-negative extended real *)
Lemma sign_claim_sound v : qty_is_positive v = Some true ->
  (exists q, v = VQ q /\ (0 <= q)%Q) \/ v = VFloat0 \/ v = VPInf.
Proof.
  destruct v as [q| | | | | | |]; cbn; intro H; try discriminate; auto.
  left. exists q. split; [reflexivity|]. injection H as H. apply Qle_bool_iff. exact H.
Qed.

(* the rewrites SymPy performs on the strength of the claim preserve the value (observed through val_eqb) *)
Lemma sign_claim_rewrites v : qty_is_positive v = Some true -> v <> VFloat0 ->
  val_eqb (vmax v (VQ 0)) v = true /\ val_eqb (vmin v (VQ 0)) (VQ 0) = true /\ val_eqb (vabs v) v = true.
Proof.
  intros H NF. destruct (sign_claim_sound v H) as [[q [-> Hq]]|[->| ->]]; [|congruence|cbn; auto].
  cbn [vmax vmin vabs val_eqb].
  repeat split.
  - destruct (Qle_bool q 0) eqn:E; cbn [val_eqb].
    + apply Qeq_bool_iff. apply Qle_bool_iff in E. apply Qle_antisym; assumption.
    + apply Qeq_bool_iff. reflexivity.
  - destruct (Qle_bool q 0) eqn:E; cbn [val_eqb].
    + apply Qeq_bool_iff. apply Qle_bool_iff in E. apply Qle_antisym; assumption.
    + apply Qeq_bool_iff. reflexivity.
  - apply Qeq_bool_iff. rewrite Qred_correct. apply Qabs_pos. exact Hq.
Qed.
