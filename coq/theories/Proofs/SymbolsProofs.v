(* Lemmas about Model/Symbols.v *)
From Coq Require Import List NArith String Ascii Bool Lia ZifyBool Arith QArith Field.
From VP Require Import Base.Dim Model.Ids Model.Symbols Proofs.IdsProofs.
Import ListNotations.
Open Scope string_scope.

(* ---------------------------------------------------------------------------------------- *)
(* what one operation does to the counters and which name it mints                            *)

Lemma next_name_eq p s : next_name p s = (mk_name p (next_val p s), snd (next_id p s)).
Proof. reflexivity. Qed.

Lemma next_id_eq p s : next_id p s = (next_val p s, snd (next_id p s)).
Proof. reflexivity. Qed.

Lemma mono_next p s q : (last_or0 q s <= last_or0 q (snd (next_id p s)))%N.
Proof. exact (last_or0_step (NextId p) s q). Qed.

Lemma fresh_next p s : (last_or0 p s < next_val p s)%N /\ last_or0 p (snd (next_id p s)) = next_val p s.
Proof. destruct (next_id_monotone p s) as [A [B _]]. split; assumption. Qed.

Lemma mono_alloc_many p k : forall s q, (last_or0 q s <= last_or0 q (alloc_many p k s))%N.
Proof.
  induction k as [|k IH]; intros s q; cbn [alloc_many]; [lia|].
  pose proof (mono_next p s q). pose proof (IH (snd (next_id p s)) q). lia.
Qed.

Definition minted (s s' : state) (x : obj) : Prop :=
  exists p v, digit_free p = true /\ oname x = mk_name p v /\
              (last_or0 p s < v)%N /\ (v <= last_or0 p s')%N.

Lemma minted_simple k p s disp lt d a :
  digit_free p = true ->
  minted s (snd (next_id p s)) (mkobj k (mk_name p (next_val p s)) disp lt d a).
Proof.
  intros D. exists p, (next_val p s). destruct (fresh_next p s) as [A B].
  repeat split; auto. rewrite B. lia.
Qed.

Local Opaque next_id next_val update.

Lemma exec_spec o st s' r :
  exec o st = (s', r) ->
  (forall q, (last_or0 q (ids st) <= last_or0 q s')%N) /\
  match r with None => True | Some x => minted (ids st) s' x end.
Proof.
  destruct o; cbn [exec]; unfold new_symbol, new_indexed, new_function, mk_dimsym.
  - rewrite next_name_eq. intros E. injection E as <- <-. split; [intros; apply mono_next|].
    apply minted_simple; reflexivity.
  - rewrite next_name_eq. intros E. injection E as <- <-. split; [intros; apply mono_next|].
    apply minted_simple; reflexivity.
  - rewrite next_name_eq. intros E. injection E as <- <-. split; [intros; apply mono_next|].
    apply minted_simple; reflexivity.
  - rewrite next_name_eq. intros E. injection E as <- <-. split; [intros; apply mono_next|].
    apply minted_simple; reflexivity.
  - rewrite next_name_eq. intros E. injection E as <- <-. split; [intros; apply mono_next|].
    apply minted_simple; reflexivity.
  - rewrite next_name_eq. intros E. injection E as <- <-. split; [intros; apply mono_next|].
    apply minted_simple; reflexivity.
  - rewrite next_name_eq. intros E. injection E as <- <-. split; [intros; apply mono_next|].
    apply minted_simple; reflexivity.
  - (* NewVector: SYM then VEC *)
    rewrite next_name_eq.
    rewrite (next_id_eq "VEC" (snd (next_id "SYM" (ids st)))).
    destruct (vector_names display latex _) as [c l].
    intros E. injection E as <- <-. split.
    + intros q. pose proof (mono_next "SYM" (ids st) q).
      pose proof (mono_next "VEC" (snd (next_id "SYM" (ids st))) q). lia.
    + exists "SYM", (next_val "SYM" (ids st)). destruct (fresh_next "SYM" (ids st)) as [A B].
      repeat split; auto. cbn [oname].
      pose proof (mono_next "VEC" (snd (next_id "SYM" (ids st))) "SYM"). lia.
  - (* NewQVector: k QTY ids then one "" id *)
    rewrite (next_id_eq "" (alloc_many "QTY" fresh_components (ids st))).
    intros E. injection E as <- <-. split.
    + intros q. pose proof (mono_alloc_many "QTY" fresh_components (ids st) q).
      pose proof (mono_next "" (alloc_many "QTY" fresh_components (ids st)) q). lia.
    + set (s1 := alloc_many "QTY" fresh_components (ids st)).
      exists "", (next_val "" s1). destruct (fresh_next "" s1) as [A B].
      repeat split; auto.
      * pose proof (mono_alloc_many "QTY" fresh_components (ids st) ""). fold s1 in H. lia.
      * rewrite B. lia.
  - destruct (get_src st src) as [x|]; [|intros E; injection E as <- <-; split; [intros; lia|exact I]].
    destruct (with_subscript _ _ _) as [c l]. rewrite next_name_eq.
    intros E. injection E as <- <-. split; [intros; apply mono_next|]. apply minted_simple; reflexivity.
  - destruct (get_src st src) as [x|]; [|intros E; injection E as <- <-; split; [intros; lia|exact I]].
    destruct (with_subscript _ _ _) as [c l]. rewrite next_name_eq.
    intros E. injection E as <- <-. split; [intros; apply mono_next|]. apply minted_simple; reflexivity.
  - destruct (get_src st src) as [x|]; [|intros E; injection E as <- <-; split; [intros; lia|exact I]].
    rewrite next_name_eq.
    intros E. injection E as <- <-. split; [intros; apply mono_next|]. apply minted_simple; reflexivity.
Qed.

(* ---------------------------------------------------------------------------------------- *)
(* created objects are pairwise distinct, for all histories                                   *)

Definition wf_obj (s : state) (o : obj) : Prop :=
  exists p v, digit_free p = true /\ oname o = mk_name p v /\ (v <= last_or0 p s)%N.

Definition wf_store (st : store) : Prop := Forall (wf_obj (ids st)) (objs st).

Lemma NoDup_snoc {A} (l : list A) a : NoDup l -> ~ In a l -> NoDup (l ++ [a]).
Proof.
  induction 1 as [|x l Hx Hl IH]; intros Ha; cbn.
  - constructor; [intros []|constructor].
  - constructor.
    + intros I. apply in_app_or in I. destruct I as [I|[I|[]]]; [contradiction|].
      apply Ha. left. symmetry. exact I.
    + apply IH. intros I. apply Ha. right. exact I.
Qed.

Lemma step_inv o st :
  wf_store st -> NoDup (map oname (objs st)) ->
  wf_store (step o st) /\ NoDup (map oname (objs (step o st))).
Proof.
  intros W ND. unfold step. destruct (exec o st) as [s' r] eqn:E.
  destruct (exec_spec o st s' r E) as [M X].
  assert (Forall (wf_obj s') (objs st)) as W'.
  { unfold wf_store in W. rewrite Forall_forall in *. intros x Hx.
    destruct (W x Hx) as [p [v [D [Nm L]]]]. exists p, v. repeat split; auto.
    pose proof (M p). lia. }
  destruct r as [x|]; cbn [objs ids]; [|split; assumption].
  destruct X as [p [v [D [Nm [L1 L2]]]]]. split.
  - apply Forall_app. split; [exact W'|]. constructor; [|constructor].
    exists p, v. repeat split; auto.
  - rewrite map_app. cbn [map]. apply NoDup_snoc; [exact ND|].
    intros I. apply in_map_iff in I. destruct I as [y [Ey Hy]].
    unfold wf_store in W. rewrite Forall_forall in W.
    destruct (W y Hy) as [p' [v' [D' [Nm' L']]]].
    rewrite Nm, Nm' in Ey. destruct (decode_unique p' p v' v D' D Ey) as [-> ->]. lia.
Qed.

Lemma run_inv ops : forall st,
  wf_store st -> NoDup (map oname (objs st)) ->
  wf_store (run ops st) /\ NoDup (map oname (objs (run ops st))).
Proof.
  induction ops as [|o r IH]; intros st W ND; cbn [run]; [split; assumption|].
  destruct (step_inv o st W ND) as [W' ND']. apply IH; assumption.
Qed.

Lemma NoDup_map_coarser {A B C} (f : A -> B) (g : A -> C) (l : list A) :
  (forall x y, g x = g y -> f x = f y) -> NoDup (map f l) -> NoDup (map g l).
Proof.
  intros Hfg. induction l as [|x l IH]; cbn; intros H; [constructor|].
  inversion H as [|? ? N1 N2]; subst. constructor; [|apply IH; exact N2].
  intros I. apply N1. apply in_map_iff in I. destruct I as [y [E Hy]].
  apply in_map_iff. exists y. split; [symmetry; apply Hfg; symmetry; exact E|exact Hy].
Qed.

(* every sequence of creations and clones, from every counter state: pairwise distinct identities *)
Theorem created_pairwise_distinct ops s0 :
  NoDup (map identity (objs (run ops (mkstore s0 [])))).
Proof.
  destruct (run_inv ops (mkstore s0 [])) as [_ ND]; [constructor|constructor|].
  apply (NoDup_map_coarser oname identity); [|exact ND].
  intros x y E. unfold identity in E. congruence.
Qed.

(* and more generally on top of any consistent store *)
Theorem created_pairwise_distinct_from ops st :
  wf_store st -> NoDup (map oname (objs st)) -> NoDup (map identity (objs (run ops st))).
Proof.
  intros W ND. destruct (run_inv ops st W ND) as [_ ND'].
  apply (NoDup_map_coarser oname identity); [|exact ND'].
  intros x y E. unfold identity in E. congruence.
Qed.

Lemma alias_row_nil i x l : forall j, ~ In (oname x) (map oname l) -> alias_row i j x l = [].
Proof.
  induction l as [|y l IH]; intros j H; cbn; [reflexivity|].
  cbn in H. unfold same_identity.
  destruct (String.eqb (oname x) (oname y)) eqn:E.
  - apply String.eqb_eq in E. exfalso. apply H. left. symmetry. exact E.
  - rewrite andb_false_r. cbn. apply IH. intros I. apply H. right. exact I.
Qed.

Lemma alias_pairs_from_nil l : forall i, NoDup (map oname l) -> alias_pairs_from i l = [].
Proof.
  induction l as [|x l IH]; intros i H; cbn; [reflexivity|].
  cbn in H. inversion H as [|? ? N1 N2]; subst.
  rewrite alias_row_nil by exact N1. rewrite IH by exact N2. reflexivity.
Qed.

(* the executable aliasing matrix of the model is empty for every history *)
Theorem created_never_alias ops s0 : alias_pairs (run ops (mkstore s0 [])) = [].
Proof.
  destruct (run_inv ops (mkstore s0 [])) as [_ ND]; [constructor|constructor|].
  apply alias_pairs_from_nil. exact ND.
Qed.

Local Transparent next_id next_val update.

(* ---------------------------------------------------------------------------------------- *)
(* substitution / differentiation / solving touch only the named object                       *)

Theorem subs_non_interference x y v : x <> y -> subs x v (EVar y) = EVar y.
Proof.
  intros H. cbn. destruct (String.eqb x y) eqn:E; [apply String.eqb_eq in E; contradiction|reflexivity].
Qed.

Theorem subs_unmentioned x v e : ~ In x (free e) -> subs x v e = e.
Proof.
  induction e as [q|y|a IHa b IHb|a IHa b IHb|a IHa|a IHa b IHb]; cbn [free subs]; intros H.
  - reflexivity.
  - apply subs_non_interference. intros ->. apply H. left. reflexivity.
  - rewrite IHa, IHb; auto; intros I; apply H; apply in_or_app; auto.
  - rewrite IHa, IHb; auto; intros I; apply H; apply in_or_app; auto.
  - rewrite IHa; auto.
  - rewrite IHa, IHb; auto; intros I; apply H; apply in_or_app; auto.
Qed.

Theorem diff_non_interference x y : x <> y -> diff x (EVar y) = ENum 0.
Proof.
  intros H. cbn. destruct (String.eqb x y) eqn:E; [apply String.eqb_eq in E; contradiction|reflexivity].
Qed.

Theorem diff_unmentioned x e r : ~ In x (free e) -> eval r (diff x e) == 0.
Proof.
  induction e as [q|y|a IHa b IHb|a IHa b IHb|a IHa|a IHa b IHb]; cbn [free diff eval]; intros H.
  - reflexivity.
  - destruct (String.eqb x y) eqn:E; [|reflexivity]. apply String.eqb_eq in E. exfalso. apply H. left. symmetry. exact E.
  - rewrite IHa, IHb; [ring| |]; intros I; apply H; apply in_or_app; auto.
  - rewrite IHa, IHb; [ring| |]; intros I; apply H; apply in_or_app; auto.
  - rewrite IHa; [ring|exact H].
  - rewrite IHa, IHb; [|intros I; apply H; apply in_or_app; auto|intros I; apply H; apply in_or_app; auto].
    unfold Qdiv. ring.
Qed.

Lemma eqb_neq_false x y : x <> y -> String.eqb x y = false.
Proof. intros H. apply String.eqb_neq. exact H. Qed.

(* a*x + b*y with four distinct objects: substituting for x leaves a, b, y alone *)
Theorem subs_lin2 a x b y v : x <> a -> x <> b -> x <> y ->
  subs x v (lin2 a x b y) = EAdd (EMul (EVar a) v) (EMul (EVar b) (EVar y)).
Proof.
  intros H1 H2 H3. unfold lin2. cbn [subs].
  rewrite String.eqb_refl, !eqb_neq_false by assumption. reflexivity.
Qed.

Theorem diff_lin2 a x b y r : x <> a -> x <> b -> x <> y ->
  eval r (diff x (lin2 a x b y)) == env_get a r.
Proof.
  intros H1 H2 H3. unfold lin2. cbn [diff eval].
  rewrite String.eqb_refl, !eqb_neq_false by assumption. cbn [eval]. ring.
Qed.

Theorem solve_lin2_sound a x b y r : x <> a -> x <> b -> x <> y -> ~ env_get a r == 0 ->
  eval r (subs x (solve_lin2 a b y) (lin2 a x b y)) == 0.
Proof.
  intros H1 H2 H3 Ha. rewrite subs_lin2 by assumption. unfold solve_lin2. cbn [eval]. field. exact Ha.
Qed.

(* ---------------------------------------------------------------------------------------- *)
(* clones                                                                                     *)

Definition clone_src (o : sop) : option nat :=
  match o with
  | CloneSymbol s _ _ _ _ | CloneFunction s _ _ _ _ | CloneIndexed s _ _ _ => Some s
  | _ => None
  end.

Definition clone_display (o : sop) : option string :=
  match o with
  | CloneSymbol _ d _ _ _ | CloneFunction _ d _ _ _ | CloneIndexed _ d _ _ => d
  | _ => None
  end.

Definition clone_latex (o : sop) : option string :=
  match o with
  | CloneSymbol _ _ l _ _ | CloneFunction _ _ l _ _ | CloneIndexed _ _ l _ => l
  | _ => None
  end.

Definition clone_sub (o : sop) : option string :=
  match o with
  | CloneSymbol _ _ _ s _ | CloneFunction _ _ _ s _ => s
  | _ => None
  end.

Definition clone_assum (o : sop) : assum :=
  match o with
  | CloneSymbol _ _ _ _ a | CloneFunction _ _ _ _ a | CloneIndexed _ _ _ a => a
  | _ => []
  end.

Definition absent (o : option string) : bool := is_empty (str_or o "").

Lemma str_or_absent o d : absent o = true -> str_or o d = d.
Proof. unfold absent, str_or. destruct o as [s|]; [destruct s; [reflexivity|discriminate]|reflexivity]. Qed.

Lemma str_or_nonempty s d : s <> "" -> str_or (Some s) d = s.
Proof. intros H. cbn. destruct s; [congruence|reflexivity]. Qed.

Lemma with_subscript_absent c l sub : absent sub = true -> with_subscript c l sub = (c, l).
Proof. unfold absent, with_subscript. destruct sub as [s|]; [destruct s; [reflexivity|discriminate]|reflexivity]. Qed.

Lemma with_subscript_some c l s : s <> "" ->
  with_subscript c l (Some s) = (c ++ "_" ++ s, l ++ "_{" ++ s ++ "}").
Proof. intros H. cbn. destruct s; [congruence|reflexivity]. Qed.

Lemma append_nonempty a b : b <> "" -> (a ++ b) <> "".
Proof. destruct a; cbn; [auto|discriminate]. Qed.

(* a clone is created, for every clonable source *)
Theorem clone_creates op st src x :
  clone_src op = Some src -> get_src st src = Some x -> exists y, snd (exec op st) = Some y.
Proof.
  destruct op; cbn [clone_src]; intros E; try discriminate; injection E as ->; intros G;
    cbn [exec]; rewrite G; unfold new_symbol, new_function, new_indexed;
    try destruct (with_subscript _ _ _) as [c l]; rewrite next_name_eq; cbn [snd]; eexists; reflexivity.
Qed.

Theorem clone_keeps_dimension op st src x y :
  clone_src op = Some src -> get_src st src = Some x -> snd (exec op st) = Some y -> odim y = odim x.
Proof.
  destruct op; cbn [clone_src]; intros E; try discriminate; injection E as ->; intros G;
    cbn [exec]; rewrite G; unfold new_symbol, new_function, new_indexed, mk_dimsym;
    try destruct (with_subscript _ _ _) as [c l]; rewrite next_name_eq; cbn [snd];
    intros Y; injection Y as <-; reflexivity.
Qed.

Theorem clone_keeps_display_when_not_overridden op st src x y :
  clone_src op = Some src -> get_src st src = Some x -> snd (exec op st) = Some y ->
  absent (clone_sub op) = true ->
  (absent (clone_display op) = true -> odisplay x <> "" -> odisplay y = odisplay x) /\
  (absent (clone_latex op) = true -> olatex x <> "" -> olatex y = olatex x).
Proof.
  destruct op; cbn [clone_src clone_sub clone_display clone_latex]; intros E; try discriminate;
    injection E as ->; intros G; cbn [exec]; rewrite G;
    unfold new_symbol, new_function, new_indexed, mk_dimsym; intros Y S.
  - rewrite with_subscript_absent in Y by exact S. rewrite next_name_eq in Y. cbn [snd] in Y.
    injection Y as <-. cbn [odisplay olatex]. split; intros A N.
    + rewrite (str_or_absent display) by exact A. apply str_or_nonempty. exact N.
    + rewrite (str_or_absent latex) by exact A. apply str_or_nonempty. exact N.
  - rewrite with_subscript_absent in Y by exact S. rewrite next_name_eq in Y. cbn [snd] in Y.
    injection Y as <-. cbn [odisplay olatex]. split; intros A N.
    + rewrite (str_or_absent display) by exact A. apply str_or_nonempty. exact N.
    + rewrite (str_or_absent latex) by exact A. apply str_or_nonempty. exact N.
  - rewrite next_name_eq in Y. cbn [snd] in Y.
    injection Y as <-. cbn [odisplay olatex]. split; intros A N.
    + rewrite (str_or_absent display) by exact A. reflexivity.
    + rewrite (str_or_absent latex) by exact A. apply str_or_nonempty. exact N.
Qed.

(* a requested subscript goes to BOTH names: code name gets "_sub", LaTeX name gets "_{sub}" *)
Theorem clone_subscript op st src x y sub :
  clone_src op = Some src -> get_src st src = Some x -> snd (exec op st) = Some y ->
  clone_sub op = Some sub -> sub <> "" ->
  odisplay y = str_or (clone_display op) (odisplay x) ++ "_" ++ sub /\
  olatex y = str_or (clone_latex op) (olatex x) ++ "_{" ++ sub ++ "}".
Proof.
  destruct op; cbn [clone_src clone_sub clone_display clone_latex]; intros E; try discriminate;
    injection E as ->; intros G; cbn [exec]; rewrite G;
    unfold new_symbol, new_function, new_indexed, mk_dimsym; intros Y S N; try discriminate;
    subst subscript; rewrite with_subscript_some in Y by exact N; rewrite next_name_eq in Y;
    cbn [snd] in Y; injection Y as <-; cbn [odisplay olatex]; split; apply str_or_nonempty;
    apply append_nonempty; discriminate.
Qed.

(* all three clone helpers: no assumptions passed => the source's assumptions *)
Theorem clone_assumptions op st src x y :
  clone_src op = Some src -> get_src st src = Some x -> snd (exec op st) = Some y ->
  clone_assum op = [] -> oassum y = oassum x.
Proof.
  destruct op; cbn [clone_src clone_assum]; intros E; try discriminate; injection E as ->; intros G;
    cbn [exec]; rewrite G; unfold new_symbol, new_function, new_indexed, mk_dimsym; intros Y A; subst a;
    try destruct (with_subscript _ _ _) as [c l]; rewrite next_name_eq in Y; cbn [snd] in Y;
    injection Y as <-; reflexivity.
Qed.

(* passed assumptions replace the source's, for all three helpers *)
Theorem clone_assumptions_passed op st src x y :
  clone_src op = Some src -> get_src st src = Some x -> snd (exec op st) = Some y ->
  clone_assum op <> [] -> oassum y = clone_assum op.
Proof.
  destruct op; cbn [clone_src clone_assum]; intros E; try discriminate; injection E as ->; intros G;
    cbn [exec]; rewrite G; unfold new_symbol, new_function, new_indexed, mk_dimsym; intros Y A;
    try destruct (with_subscript _ _ _) as [c l]; rewrite next_name_eq in Y; cbn [snd] in Y;
    injection Y as <-; cbn [oassum]; destruct a; try reflexivity; congruence.
Qed.

(* non-vacuity: a function cloned from a positive symbol is positive; passed assumptions win *)
Definition clone_example_store : store :=
  run [NewSymbol (Some "x") dzero None [("positive", true)]] (mkstore [] []).

Example ex_clone_function_inherits :
  option_map oassum (snd (exec (CloneFunction 0 None None None []) clone_example_store)) = Some [("positive", true)] /\
  option_map oassum (snd (exec (CloneFunction 0 None None None [("real", true)]) clone_example_store)) = Some [("real", true)] /\
  option_map oassum (snd (exec (CloneIndexed 0 None None []) clone_example_store)) = Some [("positive", true)].
Proof. vm_compute. repeat split; reflexivity. Qed.

(* signed facts: a fact known to be FALSE is inherited just like one known to be true *)
Example ex_clone_signed_facts :
  let st := run [NewSymbol (Some "d") dzero None [("zero", false)];
                 NewIndexed (Some "w") dzero None [("complex", true); ("real", false)]] (mkstore [] []) in
  option_map oassum (snd (exec (CloneSymbol 0 None None (Some "1") []) st)) = Some [("zero", false)] /\
  option_map oassum (snd (exec (CloneFunction 0 None None None []) st)) = Some [("zero", false)] /\
  option_map oassum (snd (exec (CloneIndexed 1 None None []) st)) = Some [("complex", true); ("real", false)] /\
  option_map oassum (snd (exec (CloneSymbol 1 None None None [("real", true)]) st)) = Some [("real", true)].
Proof. vm_compute. repeat split; reflexivity. Qed.

(* ---------------------------------------------------------------------------------------- *)
(* printing                                                                                   *)

(* an atom prints as its display name (decorated by kind); the only exception is a quantity whose display name
   contains "QTY", which prints as its value; coordinate systems have no display name *)
Theorem printing_uses_display o :
  okind o <> KCoordSys ->
  pp o = PText (decorate (okind o) (odisplay o)) \/
  (pp o = PValue /\ okind o = KQuantity /\ contains "QTY" (odisplay o) = true).
Proof.
  intros H. unfold pp, pp_name. destruct (okind o) eqn:K; try (left; reflexivity); [|congruence].
  destruct (contains "QTY" (odisplay o)) eqn:C; [right; auto|left; reflexivity].
Qed.

(* an IndexedSymbol without its index, and a Function that is not applied, print as their display names too *)
Theorem printing_bare_uses_display o :
  okind o = KIndexed \/ okind o = KFunction -> pp_bare o = PText (odisplay o).
Proof. intros [K|K]; unfold pp_bare, pp_name; rewrite K; reflexivity. Qed.

Definition given_display (o : sop) : option string :=
  match o with
  | NewSymbol d _ _ _ | NewIndexed d _ _ _ | NewFunction d _ _ _ | NewQuantity d _ _ | NewVector d _ _ => d
  | _ => None
  end.

(* a display name given at creation is the display name of the object ... *)
Theorem display_is_given op st y d :
  given_display op = Some d -> d <> "" -> snd (exec op st) = Some y -> odisplay y = d.
Proof.
  destruct op; cbn [given_display]; intros E; try discriminate; subst; intros N;
    cbn [exec]; unfold new_symbol, new_function, new_indexed, mk_dimsym.
  - rewrite next_name_eq. cbn [snd]. intros Y. injection Y as <-. apply str_or_nonempty. exact N.
  - rewrite next_name_eq. cbn [snd]. intros Y. injection Y as <-. reflexivity.
  - rewrite next_name_eq. cbn [snd]. intros Y. injection Y as <-. apply str_or_nonempty. exact N.
  - rewrite next_name_eq. cbn [snd]. intros Y. injection Y as <-. apply str_or_nonempty. exact N.
  - rewrite next_name_eq. rewrite (next_id_eq "VEC").
    unfold vector_names. rewrite (str_or_nonempty d "") by exact N.
    destruct d; [congruence|]. cbn [is_empty snd]. intros Y. injection Y as <-. reflexivity.
Qed.

(* ... and is what gets printed: the generated internal name is not consulted *)
Theorem printing_shows_given_display op st y d :
  given_display op = Some d -> d <> "" -> contains "QTY" d = false ->
  snd (exec op st) = Some y -> pp y = PText (decorate (okind y) d).
Proof.
  intros G N C Y. pose proof (display_is_given op st y d G N Y) as D.
  assert (okind y <> KCoordSys) as K.
  { destruct op; cbn [given_display] in G; try discriminate; cbn [exec] in Y;
      unfold new_symbol, new_function, new_indexed, mk_dimsym in Y;
      rewrite next_name_eq in Y; try rewrite (next_id_eq "VEC") in Y;
      try destruct (vector_names _ _ _); cbn [snd] in Y; injection Y as <-; discriminate. }
  destruct (printing_uses_display y K) as [P|[_ [_ P]]]; [rewrite <- D; exact P|].
  rewrite D in P. congruence.
Qed.

(* non-vacuity *)
Example ex_run_store :
  map (fun o => (oname o, odisplay o, olatex o))
    (objs (run [NewSymbol (Some "x") dzero None []; NewSymbol (Some "x") dzero None [];
                CloneSymbol 0 None None (Some "0") []; CloneFunction 1 (Some "y") None None [];
                NewQuantity None None dzero; NewVector None dzero None; NewQVector 2 dzero]
              (mkstore [("SYM", 8%N)] [])))
  = [("SYM9", "x", "x"); ("SYM10", "x", "x"); ("SYM11", "x_0", "x_{0}"); ("FUN1", "y", "x");
     ("QTY1", "QTY1", "QTY1"); ("SYM12", "VEC1", "\mathbf{v}_{1}"); ("1", "VEC1", "v_{1}")].
Proof. vm_compute. reflexivity. Qed.

Example ex_clone_subscript_only_code_would_differ :
  with_subscript "x" "x" (Some "0") = ("x_0", "x_{0}").
Proof. reflexivity. Qed.
