(* C03: what proof can carry about import histories -- the only library state a history changes is the counter
   table of Model/Ids.v; a module sees it through the names it mints.  Built on Proofs/IdsProofs.v. *)
From Coq Require Import List NArith String Ascii Bool Lia ZifyBool Arith.
From VP Require Import Model.Ids Proofs.IdsProofs.
Import ListNotations.
Open Scope N_scope.

(* the k names a module mints for prefix p when the counter stands at n *)
Definition names (p : string) (n k : N) : list string := map (wname p n) (offsets k).

(* two name lists are indistinguishable by equality tests and lexicographic comparisons *)
Definition same_order (l l' : list string) : Prop :=
  List.length l = List.length l' /\
  forall i j, (i < List.length l)%nat -> (j < List.length l)%nat ->
    str_ltb (nth i l EmptyString) (nth j l EmptyString) = str_ltb (nth i l' EmptyString) (nth j l' EmptyString).

Definition order_invariant {M} (imp : list string -> M) : Prop :=
  forall l l', same_order l l' -> imp l = imp l'.

Lemma offsets_length k : List.length (offsets k) = N.to_nat k.
Proof. unfold offsets. rewrite map_length, seq_length. reflexivity. Qed.

Lemma nth_offsets k i : (i < N.to_nat k)%nat -> nth i (offsets k) 0 = N.of_nat (S i).
Proof.
  intros H. unfold offsets. change 0 with (N.of_nat 0). rewrite map_nth. rewrite seq_nth by exact H. reflexivity.
Qed.

Lemma nth_names p n k i : (i < N.to_nat k)%nat -> nth i (names p n k) EmptyString = wname p n (N.of_nat (S i)).
Proof.
  intros H. unfold names.
  rewrite (nth_indep _ EmptyString (wname p n 0)) by (rewrite map_length, offsets_length; exact H).
  rewrite map_nth. rewrite nth_offsets by exact H. reflexivity.
Qed.

Lemma names_length p n k : List.length (names p n k) = N.to_nat k.
Proof. unfold names. rewrite map_length. apply offsets_length. Qed.

Lemma same_order_of_pointwise p n n' k :
  (forall i j, 1 <= i <= k -> 1 <= j <= k ->
     str_ltb (wname p n i) (wname p n j) = str_ltb (wname p n' i) (wname p n' j)) ->
  same_order (names p n k) (names p n' k).
Proof.
  intros H. split; [rewrite !names_length; reflexivity|].
  intros i j Hi Hj. rewrite names_length in Hi, Hj. rewrite !nth_names by assumption. apply H; lia.
Qed.

Theorem names_same_order p n n' k :
  small_window n k -> small_window n' k -> same_pow10_positions n n' k ->
  same_order (names p n k) (names p n' k).
Proof.
  intros Sw Sw' P. apply same_order_of_pointwise. intros i j Hi Hj.
  apply (window_order_classes p n n' k); assumption.
Qed.

Theorem names_same_order_generic p n n' k :
  small_window n k -> small_window n' k -> 1 <= n -> 1 <= n' ->
  ~ pow_between n 0 k -> ~ pow_between n' 0 k ->
  same_order (names p n k) (names p n' k).
Proof.
  intros Sw Sw' H H' P P'. apply same_order_of_pointwise. intros i j Hi Hj.
  rewrite (window_generic p n k), (window_generic p n' k) by assumption. reflexivity.
Qed.

(* a small window contains at most one power of ten *)
Lemma pow10_unique n k t t' (e e' : nat) :
  small_window n k -> 1 <= t <= k -> 1 <= t' <= k ->
  n + t = 10 ^ N.of_nat e -> n + t' = 10 ^ N.of_nat e' -> t = t'.
Proof.
  unfold small_window. intros Sw Ht Ht' E E'.
  destruct (lt_eq_lt_dec e e') as [[L|Q]|G].
  - exfalso.
    assert (10 ^ N.of_nat (S e) <= 10 ^ N.of_nat e') by (apply N.pow_le_mono_r; lia).
    rewrite Nnat.Nat2N.inj_succ, N.pow_succ_r' in H. lia.
  - subst e'. lia.
  - exfalso.
    assert (10 ^ N.of_nat (S e') <= 10 ^ N.of_nat e) by (apply N.pow_le_mono_r; lia).
    rewrite Nnat.Nat2N.inj_succ, N.pow_succ_r' in H. lia.
Qed.

(* representative counter states: one generic (no power of ten in the window) and, for every offset j, one with the
   power of ten exactly at offset j *)
Definition generic_state (mmax : nat) : N := 10 ^ N.of_nat mmax.
Definition representatives (mmax : nat) (k : N) : list N := generic_state mmax :: boundary_states mmax k.

Lemma pow_pos e : 0 < 10 ^ N.of_nat e.
Proof. apply N.neq_0_lt_0, N.pow_nonzero. lia. Qed.

Lemma in_boundary_top mmax k j : (1 <= mmax)%nat -> 1 <= j <= k -> In (10 ^ N.of_nat mmax - j) (boundary_states mmax k).
Proof.
  intros Hm Hj. unfold boundary_states. apply in_flat_map. exists mmax. split.
  - apply in_seq. lia.
  - apply in_map_iff. exists j. split; [reflexivity|]. right. apply in_offsets. exact Hj.
Qed.

Lemma generic_no_pow mmax k : 10 * k <= 9 * 10 ^ N.of_nat mmax -> ~ pow_between (generic_state mmax) 0 k.
Proof.
  unfold generic_state. intros B [t [e [H1 [H2 H3]]]].
  pose proof (pow_pos mmax) as P.
  destruct (le_lt_dec e mmax) as [L|G].
  - assert (10 ^ N.of_nat e <= 10 ^ N.of_nat mmax) by (apply N.pow_le_mono_r; lia). lia.
  - assert (10 ^ N.of_nat (S mmax) <= 10 ^ N.of_nat e) by (apply N.pow_le_mono_r; lia).
    rewrite Nnat.Nat2N.inj_succ, N.pow_succ_r' in H. lia.
Qed.

(* every admissible counter value has a representative with an indistinguishable window *)
Theorem representatives_cover p mmax n k :
  (1 <= mmax)%nat -> 10 * k <= 9 * 10 ^ N.of_nat mmax -> 1 <= n -> small_window n k ->
  exists r, In r (representatives mmax k) /\ same_order (names p r k) (names p n k).
Proof.
  intros Hm B Hn Sw. pose proof (pow_pos mmax) as P.
  destruct (pow10_positions n k) as [|j rest] eqn:E.
  - (* no power of ten inside: the generic representative *)
    exists (generic_state mmax). split; [left; reflexivity|].
    apply names_same_order_generic; try assumption.
    + unfold small_window, generic_state. lia.
    + unfold generic_state. lia.
    + apply generic_no_pow. exact B.
    + intros [t [e [H1 [H2 H3]]]].
      assert (In t (pow10_positions n k)) as I.
      { unfold pow10_positions. apply filter_In. split; [apply in_offsets; lia|].
        apply is_pow10_spec. exists e. exact H3. }
      rewrite E in I. exact I.
  - (* a power of ten at offset j *)
    assert (In j (pow10_positions n k)) as I by (rewrite E; left; reflexivity).
    unfold pow10_positions in I. apply filter_In in I. destruct I as [Ij Pj].
    apply in_offsets in Ij. apply is_pow10_spec in Pj. destruct Pj as [e Pe].
    set (r := 10 ^ N.of_nat mmax - j).
    assert (small_window r k) as Sr by (unfold small_window, r; lia).
    assert (r + j = 10 ^ N.of_nat mmax) as Er by (unfold r; lia).
    exists r. split; [right; apply in_boundary_top; assumption|].
    apply names_same_order; try assumption.
    intros t Ht. split; intros [e' He'].
    + assert (t = j) by (eapply (pow10_unique r k); eauto). subst t. exists e. exact Pe.
    + assert (t = j) by (eapply (pow10_unique n k); eauto). subst t. exists mmax. exact Er.
Qed.

(* ---------------------------------------------------------------------------------------- *)
(* the property, and the part of it that the theorems above decide                            *)

(* full statement: importing a module succeeds and means the same in every state the process can be in *)
Definition C03_full_statement {Mod Meaning : Type} (import : state -> Mod -> option Meaning) : Prop :=
  forall (m : Mod) (s s' : state), import s m <> None /\ import s m = import s' m.

(* partial: IF a module sees the history only through the k names it mints for a prefix, and those only through
   equality and lexicographic order, THEN checking the representative counter states decides every admissible state *)
Theorem C03_partial {Mod Meaning : Type} (import : state -> Mod -> option Meaning)
  (p : string) (k : Mod -> N) (imp : Mod -> list string -> option Meaning) (mmax : nat) :
  (forall s m, import s m = imp m (names p (last_or0 p s) (k m))) ->
  (forall m, order_invariant (imp m)) ->
  (1 <= mmax)%nat ->
  forall m v,
    10 * k m <= 9 * 10 ^ N.of_nat mmax ->
    (forall r, In r (representatives mmax (k m)) -> imp m (names p r (k m)) = Some v) ->
    forall s, 1 <= last_or0 p s -> small_window (last_or0 p s) (k m) -> import s m = Some v.
Proof.
  intros Himp Hinv Hm m v B Hrep s Hn Sw.
  destruct (representatives_cover p mmax (last_or0 p s) (k m) Hm B Hn Sw) as [r [Ir Or]].
  rewrite Himp. rewrite <- (Hinv m _ _ Or). apply Hrep. exact Ir.
Qed.

Corollary C03_partial_pairwise {Mod Meaning : Type} (import : state -> Mod -> option Meaning)
  (p : string) (k : Mod -> N) (imp : Mod -> list string -> option Meaning) (mmax : nat) :
  (forall s m, import s m = imp m (names p (last_or0 p s) (k m))) ->
  (forall m, order_invariant (imp m)) ->
  (1 <= mmax)%nat ->
  forall m v,
    10 * k m <= 9 * 10 ^ N.of_nat mmax ->
    (forall r, In r (representatives mmax (k m)) -> imp m (names p r (k m)) = Some v) ->
    forall s s', 1 <= last_or0 p s -> small_window (last_or0 p s) (k m) ->
                 1 <= last_or0 p s' -> small_window (last_or0 p s') (k m) ->
      import s m <> None /\ import s m = import s' m.
Proof.
  intros Himp Hinv Hm m v B Hrep s s' H1 H2 H3 H4.
  rewrite (C03_partial import p k imp mmax Himp Hinv Hm m v B Hrep s H1 H2).
  rewrite (C03_partial import p k imp mmax Himp Hinv Hm m v B Hrep s' H3 H4).
  split; [discriminate|reflexivity].
Qed.

(* names of different prefixes of /repo compare the same way whatever the counters are *)
Lemma dec_head n : exists c r, dec n = String c r /\ is_digit c = true.
Proof.
  pose proof (all_digits_dec n) as A. pose proof (dec_nonempty n) as N.
  destruct (dec n) as [|c r]; [congruence|]. exists c, r. split; [reflexivity|].
  cbn in A. apply andb_true_iff in A. tauto.
Qed.

Theorem cross_prefix_order_constant p q :
  In p repo_prefixes -> In q repo_prefixes -> p <> q ->
  forall n m n' m', str_ltb (mk_name p n) (mk_name q m) = str_ltb (mk_name p n') (mk_name q m').
Proof.
  intros Hp Hq Hne n m n' m'. unfold mk_name.
  destruct (dec_head n) as [c1 [r1 [E1 D1]]]. destruct (dec_head m) as [c2 [r2 [E2 D2]]].
  destruct (dec_head n') as [c3 [r3 [E3 D3]]]. destruct (dec_head m') as [c4 [r4 [E4 D4]]].
  rewrite E1, E2, E3, E4. clear E1 E2 E3 E4.
  unfold is_digit in *.
  cbn in Hp, Hq.
  repeat (destruct Hp as [<-|Hp]; [|]); try contradiction;
  repeat (destruct Hq as [<-|Hq]; [|]); try contradiction; try congruence;
  cbn [append str_ltb N_of_ascii]; cbn;
  repeat match goal with
  | |- context [N_of_ascii ?c] => let v := fresh "v" in set (v := N_of_ascii c) in *
  end; try reflexivity;
  repeat match goal with
  | |- context [(?a <? ?b)%N] => let e := fresh "e" in destruct (N.ltb_spec a b) as [e|e]
  end; try reflexivity; lia.
Qed.

(* non-vacuity *)
Example ex_names : names "SYM" 98 3 = ["SYM99"; "SYM100"; "SYM101"]%string.
Proof. vm_compute. reflexivity. Qed.

Example ex_representatives : representatives 2 2 = [100; 10; 9; 8; 100; 99; 98].
Proof. vm_compute. reflexivity. Qed.

(* an import function that is NOT order invariant (it looks at the hash of a name, here: its last character)
   is not covered: the antecedent of C03_partial is a genuine restriction *)
Example ex_not_order_invariant :
  ~ order_invariant (fun l : list string => match l with [x] => String.eqb x "SYM7" | _ => false end).
Proof.
  intros H. specialize (H ["SYM7"%string] ["SYM8"%string]).
  assert (same_order ["SYM7"%string] ["SYM8"%string]) as S.
  { split; [reflexivity|]. intros i j Hi Hj. cbn in Hi, Hj.
    assert (i = 0%nat) by lia. assert (j = 0%nat) by lia. subst. vm_compute. reflexivity. }
  specialize (H S). vm_compute in H. discriminate.
Qed.
