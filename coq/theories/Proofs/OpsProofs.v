(* Theorems about the operator formulas of Model/Ops.v (= operators.py, tied on every run by the generated
   corr_* lemmas).  Every statement quantifies over ALL valuations rho: the point and every jet are arbitrary
   reals, i.e. the statements hold for every field that has the derivatives involved. *)
From Coq Require Import ZArith Reals List Lra Lia Field Bool.
From VP Require Import Model.DiffAlg Model.Ops.
Import ListNotations.
Local Open Scope R_scope.

Ltac ev_cbn := cbn [ev ev3 grad_cart grad_cyl grad_sph div_cart div_cyl div_sph div_sph_gen div_sph_code
  curl_cart curl_cyl curl_sph grad div curl
  pad3 List.nth list3 map3 D Dvia Dgen bumpJ chainK delta Nat.eqb TSub TDiv T0 T1 q0 q1 q2 ttan
  gen_scalar gen_vector List.map List.seq
  X_cyl X_sph X_of E_cyl E_sph E_of local_tx local_R comp cart_scalar_at cart_vector cart_vector_local lame
  fst snd].

Lemma triple_eq (a b c a' b' c' : R) : a = a' -> b = b' -> c = c' -> (a, b, c) = (a', b', c').
Proof. intros; subst; reflexivity. Qed.

(* abstract sin/cos of coordinate i to variables s c with  c*c = 1 - s*s *)
Ltac trig_abs rho i H :=
  let s := fresh "s" in let c := fresh "c" in
  assert (H : cos (vq rho i) * cos (vq rho i) = 1 - sin (vq rho i) * sin (vq rho i))
    by (let Hq := fresh in pose proof (sin2_cos2 (vq rho i)) as Hq; unfold Rsqr in Hq; lra);
  set (s := sin (vq rho i)) in *; set (c := cos (vq rho i)) in *; clearbody s c.
Ltac fin0 := field; auto.
Ltac fin1 H := field_simplify_eq; [ring [H] | auto ..].
Ltac fin2 H1 H2 := field_simplify_eq; [ring [H1 H2] | auto ..].

(* ---- curl (grad f) = 0 ----------------------------------------------------------------------------------- *)
Lemma curl_grad_zero_cart rho :
  ev3 rho (curl_cart D (list3 (grad_cart D gen_scalar))) = (0, 0, 0).
Proof. ev_cbn. apply triple_eq; ring. Qed.

Lemma curl_grad_zero_cyl rho :
  vq rho 0%nat <> 0 ->
  ev3 rho (curl_cyl D (list3 (grad_cyl D gen_scalar))) = (0, 0, 0).
Proof. intros Hr. ev_cbn. apply triple_eq; fin0. Qed.

Lemma curl_grad_zero_sph rho :
  vq rho 0%nat <> 0 -> sin (vq rho 2%nat) <> 0 ->
  ev3 rho (curl_sph D (list3 (grad_sph D gen_scalar))) = (0, 0, 0).
Proof. intros Hr Hs. ev_cbn. apply triple_eq; fin0. Qed.

(* ---- div (curl F) = 0 ------------------------------------------------------------------------------------ *)
Lemma div_curl_zero_cart rho :
  ev rho (div_cart D (list3 (curl_cart D (gen_vector 3)))) = 0.
Proof. ev_cbn. ring. Qed.

Lemma div_curl_zero_cyl rho :
  vq rho 0%nat <> 0 ->
  ev rho (div_cyl D (list3 (curl_cyl D (gen_vector 3)))) = 0.
Proof. intros Hr. ev_cbn. fin0. Qed.

Lemma div_curl_zero_sph rho :
  vq rho 0%nat <> 0 -> sin (vq rho 2%nat) <> 0 ->
  ev rho (div_sph D (list3 (curl_sph D (gen_vector 3)))) = 0.
Proof. intros Hr Hs. ev_cbn. fin0. Qed.

(* the formula as written in operators.py (with tan) agrees with div_sph wherever cos phi <> 0, for EVERY field *)
Lemma div_sph_code_eq rho d l :
  vq rho 0%nat <> 0 -> sin (vq rho 2%nat) <> 0 -> cos (vq rho 2%nat) <> 0 ->
  ev rho (div_sph_code d l) = ev rho (div_sph d l).
Proof.
  intros Hr Hs Hc. unfold div_sph_code, div_sph, div_sph_gen.
  destruct (pad3 l) as [[fr ft] fp]. cbn [ev TDiv ttan q0]. field. auto.
Qed.

(* hence the identities also hold for the formula as written, off the plane phi = pi/2 *)
Lemma div_curl_zero_sph_code rho :
  vq rho 0%nat <> 0 -> sin (vq rho 2%nat) <> 0 -> cos (vq rho 2%nat) <> 0 ->
  ev rho (div_sph_code D (list3 (curl_sph D (gen_vector 3)))) = 0.
Proof. intros Hr Hs Hc. rewrite div_sph_code_eq by assumption. apply div_curl_zero_sph; assumption. Qed.

(* ---- the curvilinear formulas are the Cartesian operators in the local orthonormal basis ---------------- *)
(* scalar field g of the Cartesian point, seen as f(q) = g(X(q)) : cart_scalar_at, differentiated by the chain rule *)
Lemma grad_cyl_is_cart rho :
  vq rho 0%nat <> 0 ->
  ev3 rho (grad_cyl (Dvia X_cyl) cart_scalar_at) =
  local_R rho E_cyl (ev3 rho (map3 (comp X_cyl) (grad_cart D gen_scalar))).
Proof. intros Hr. ev_cbn. apply triple_eq; fin0. Qed.

Lemma grad_sph_is_cart rho :
  vq rho 0%nat <> 0 -> sin (vq rho 2%nat) <> 0 ->
  ev3 rho (grad_sph (Dvia X_sph) cart_scalar_at) =
  local_R rho E_sph (ev3 rho (map3 (comp X_sph) (grad_cart D gen_scalar))).
Proof. intros Hr Hs. ev_cbn. apply triple_eq; fin0. Qed.

(* vector field G of the Cartesian point; its components in the local basis F_i(q) = sum_k G_k(X(q)) E i k (q) *)
Lemma div_cyl_is_cart rho :
  vq rho 0%nat <> 0 ->
  ev rho (div_cyl (Dvia X_cyl) (cart_vector_local Cyl)) = ev rho (comp X_cyl (div_cart D cart_vector)).
Proof. intros Hr. ev_cbn. trig_abs rho 1%nat H1. fin1 H1. Qed.

Lemma div_sph_is_cart rho :
  vq rho 0%nat <> 0 -> sin (vq rho 2%nat) <> 0 ->
  ev rho (div_sph (Dvia X_sph) (cart_vector_local Sph)) = ev rho (comp X_sph (div_cart D cart_vector)).
Proof. intros Hr Hs. ev_cbn. trig_abs rho 1%nat H1. trig_abs rho 2%nat H2. fin2 H1 H2. Qed.

Lemma curl_cyl_is_cart rho :
  vq rho 0%nat <> 0 ->
  ev3 rho (curl_cyl (Dvia X_cyl) (cart_vector_local Cyl)) =
  local_R rho E_cyl (ev3 rho (map3 (comp X_cyl) (curl_cart D cart_vector))).
Proof. intros Hr. ev_cbn. trig_abs rho 1%nat H1. apply triple_eq; fin1 H1. Qed.

Lemma curl_sph_is_cart rho :
  vq rho 0%nat <> 0 -> sin (vq rho 2%nat) <> 0 ->
  ev3 rho (curl_sph (Dvia X_sph) (cart_vector_local Sph)) =
  local_R rho E_sph (ev3 rho (map3 (comp X_sph) (curl_cart D cart_vector))).
Proof. intros Hr Hs. ev_cbn. trig_abs rho 1%nat H1. trig_abs rho 2%nat H2. apply triple_eq; fin2 H1 H2. Qed.

(* ---- second order ---------------------------------------------------------------------------------------- *)
Definition lap (d : nat -> tx -> tx) (t : tx) : tx :=
  TAdd (TAdd (d 0%nat (d 0%nat t)) (d 1%nat (d 1%nat t))) (d 2%nat (d 2%nat t)).

Lemma div_grad_cart_is_laplacian rho :
  ev rho (div_cart D (list3 (grad_cart D gen_scalar))) = ev rho (lap D gen_scalar).
Proof. unfold lap. ev_cbn. ring. Qed.
Lemma curl_curl_cart rho :
  ev3 rho (curl_cart D (list3 (curl_cart D (gen_vector 3)))) =
  (let '(g1, g2, g3) := ev3 rho (grad_cart D (div_cart D (gen_vector 3))) in
   (g1 - ev rho (lap D (TJ 1 0 0 0)), g2 - ev rho (lap D (TJ 2 0 0 0)), g3 - ev rho (lap D (TJ 3 0 0 0)))).
Proof. unfold lap. ev_cbn. apply triple_eq; ring. Qed.

Lemma curl_curl_cyl_is_cart rho : vq rho 0%nat <> 0 ->
  ev3 rho (curl_cyl (Dvia X_cyl) (list3 (curl_cyl (Dvia X_cyl) (cart_vector_local Cyl)))) =
  local_R rho E_cyl (ev3 rho (map3 (comp X_cyl) (curl_cart D (list3 (curl_cart D cart_vector))))).
Proof. intros Hr. ev_cbn. trig_abs rho 1%nat H1. apply triple_eq; fin1 H1. Qed.
Lemma div_grad_cyl_is_cart rho : vq rho 0%nat <> 0 ->
  ev rho (div_cyl (Dvia X_cyl) (list3 (grad_cyl (Dvia X_cyl) cart_scalar_at))) =
  ev rho (comp X_cyl (div_cart D (list3 (grad_cart D gen_scalar)))).
Proof. intros Hr. ev_cbn. trig_abs rho 1%nat H1. fin1 H1. Qed.
Lemma div_grad_sph_is_cart rho : vq rho 0%nat <> 0 -> sin (vq rho 2%nat) <> 0 ->
  ev rho (div_sph (Dvia X_sph) (list3 (grad_sph (Dvia X_sph) cart_scalar_at))) =
  ev rho (comp X_sph (div_cart D (list3 (grad_cart D gen_scalar)))).
Proof. intros Hr Hs. ev_cbn. trig_abs rho 1%nat H1. trig_abs rho 2%nat H2. fin2 H1 H2. Qed.

Lemma grad_div_cyl_is_cart rho : vq rho 0%nat <> 0 ->
  ev3 rho (grad_cyl (Dvia X_cyl) (div_cyl (Dvia X_cyl) (cart_vector_local Cyl))) =
  local_R rho E_cyl (ev3 rho (map3 (comp X_cyl) (grad_cart D (div_cart D cart_vector)))).
Proof. intros Hr. ev_cbn. trig_abs rho 1%nat H1. apply triple_eq; fin1 H1. Qed.
Lemma grad_div_sph_is_cart rho : vq rho 0%nat <> 0 -> sin (vq rho 2%nat) <> 0 ->
  ev3 rho (grad_sph (Dvia X_sph) (div_sph (Dvia X_sph) (cart_vector_local Sph))) =
  local_R rho E_sph (ev3 rho (map3 (comp X_sph) (grad_cart D (div_cart D cart_vector)))).
Proof. intros Hr Hs. ev_cbn. trig_abs rho 1%nat H1. trig_abs rho 2%nat H2. apply triple_eq; fin2 H1 H2. Qed.
Lemma curl_curl_sph_is_cart rho : vq rho 0%nat <> 0 -> sin (vq rho 2%nat) <> 0 ->
  ev3 rho (curl_sph (Dvia X_sph) (list3 (curl_sph (Dvia X_sph) (cart_vector_local Sph)))) =
  local_R rho E_sph (ev3 rho (map3 (comp X_sph) (curl_cart D (list3 (curl_cart D cart_vector))))).
Proof. intros Hr Hs. ev_cbn. trig_abs rho 1%nat H1. trig_abs rho 2%nat H2. apply triple_eq; fin2 H1 H2. Qed.

(* ---- the local bases: orthonormal, and tangent to the coordinate lines of the coordinate map ------------ *)
Definition dotE rho (E : nat -> nat -> tx) (i j : nat) : R :=
  ev rho (E i 0%nat) * ev rho (E j 0%nat) + ev rho (E i 1%nat) * ev rho (E j 1%nat) +
  ev rho (E i 2%nat) * ev rho (E j 2%nat).

Lemma basis_orthonormal_cyl rho i j : (i < 3)%nat -> (j < 3)%nat ->
  dotE rho E_cyl i j = if Nat.eqb i j then 1 else 0.
Proof.
  intros Hi Hj. unfold dotE.
  destruct i as [|[|[|i]]]; try lia; destruct j as [|[|[|j]]]; try lia; cbn [Nat.eqb E_cyl ev T0 T1];
    trig_abs rho 1%nat H1; ring [H1].
Qed.

Lemma basis_orthonormal_sph rho i j : (i < 3)%nat -> (j < 3)%nat ->
  dotE rho E_sph i j = if Nat.eqb i j then 1 else 0.
Proof.
  intros Hi Hj. unfold dotE.
  destruct i as [|[|[|i]]]; try lia; destruct j as [|[|[|j]]]; try lia; cbn [Nat.eqb E_sph ev T0 T1];
    trig_abs rho 1%nat H1; trig_abs rho 2%nat H2; ring [H1 H2].
Qed.

(* dX_k/dq_i = h_i * E i k : the basis vectors are the normalised tangents of the coordinate lines *)
Lemma basis_tangent_cyl rho i k : (i < 3)%nat -> (k < 3)%nat ->
  ev rho (D i (X_cyl k)) = ev rho (lame Cyl i) * ev rho (E_cyl i k).
Proof.
  intros Hi Hk.
  destruct i as [|[|[|i]]]; try lia; destruct k as [|[|[|k]]]; try lia; ev_cbn; ring.
Qed.

Lemma basis_tangent_sph rho i k : (i < 3)%nat -> (k < 3)%nat ->
  ev rho (D i (X_sph k)) = ev rho (lame Sph i) * ev rho (E_sph i k).
Proof.
  intros Hi Hk.
  destruct i as [|[|[|i]]]; try lia; destruct k as [|[|[|k]]]; try lia; ev_cbn; ring.
Qed.

(* ---- zero padding ---------------------------------------------------------------------------------------- *)
Definition padded (l : list tx) : list tx := l ++ repeat T0 (3 - length l).

Lemma pad3_padded l : (length l <= 3)%nat -> pad3 (padded l) = pad3 l.
Proof.
  intros H. destruct l as [|a [|b [|c [|e l]]]]; cbn in H; try lia; reflexivity.
Qed.

Lemma padding_div s d l : (length l <= 3)%nat -> div s d l = div s d (padded l).
Proof.
  intros H. destruct s; cbn [div]; unfold div_cart, div_cyl, div_sph, div_sph_gen;
    rewrite (pad3_padded l H); reflexivity.
Qed.

Lemma padding_curl s d l : (length l <= 3)%nat -> curl s d l = curl s d (padded l).
Proof.
  intros H. destruct s; cbn [curl]; unfold curl_cart, curl_cyl, curl_sph;
    rewrite (pad3_padded l H); reflexivity.
Qed.

Lemma padding_div_code d l : (length l <= 3)%nat -> div_sph_code d l = div_sph_code d (padded l).
Proof. intros H. unfold div_sph_code, div_sph_gen. rewrite (pad3_padded l H). reflexivity. Qed.

(* the padded zeros contribute nothing: e.g. a 2-component Cartesian field *)
Lemma padding_div_cart_2 rho a b : ev rho (div_cart D [a; b]) = ev rho (D 0%nat a) + ev rho (D 1%nat b).
Proof. cbn. ring. Qed.

Lemma padding_zero_components rho s :
  ev rho (div s D []) = 0 /\ ev3 rho (curl s D []) = (0, 0, 0).
Proof.
  destruct s; cbn; (split; [ring | apply triple_eq; ring]).
Qed.

(* ---- non-vacuity ----------------------------------------------------------------------------------------- *)
Definition sample_val : val :=
  mkval (fun i => match i with 0%nat => 2 | 1%nat => 0 | _ => PI / 2 end)
        (fun f a b c => match f, a, b, c with 3%nat, 0%nat, 1%nat, 0%nat => 1 | _, _, _, _ => 0 end)
        (fun _ _ _ _ => 0).

Example hyps_satisfiable : vq sample_val 0%nat <> 0 /\ sin (vq sample_val 2%nat) <> 0.
Proof. cbn. rewrite sin_PI2. split; lra. Qed.

(* curl and div are not identically zero in the model: the identities are not an artefact of a degenerate ev *)
Example curl_not_trivial : exists rho, ev3 rho (curl_cart D (gen_vector 3)) <> (0, 0, 0).
Proof.
  exists sample_val. ev_cbn. cbn [sample_val vj]. intros H. injection H as H1 H2 H3. lra.
Qed.

Example div_not_trivial : exists rho, ev rho (div_sph D (gen_vector 3)) <> 0.
Proof.
  exists (mkval (fun i => match i with 0%nat => 1 | 1%nat => 0 | _ => PI / 2 end)
                (fun f a b c => match f, a, b, c with 1%nat, 1%nat, 0%nat, 0%nat => 1 | _, _, _, _ => 0 end)
                (fun _ _ _ _ => 0)).
  ev_cbn. cbn. rewrite sin_PI2, cos_PI2. intros H. field_simplify in H. lra.
Qed.
