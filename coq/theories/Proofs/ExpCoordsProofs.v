(* C15 -- lemmas about Model/ExpCoords.v. *)
From Coq Require Import Reals Lra Psatz Field Bool Nsatz.
From Coquelicot Require Import Coquelicot.
From VP Require Import Base.Atan2 Model.ExpCoords Proofs.CoordsProofs.
Local Open Scope R_scope.

(* tactic for the generated `implementation output = model formula` lemmas of harness/props/c15.py *)
Ltac vp_ecorr :=
  intros;
  cbv beta iota zeta delta [scal bvec convert_point convert_vector lame jacobian vecmat dotv mrow I3 position];
  vp_split3; vp_corr1.

Ltac split3 := vp_split3.

(* ================================================================================================== *)
(* auxiliary facts about square roots of sums of squares                                                *)
(* ================================================================================================== *)

Lemma sq_trig (t : R) : sin t * sin t + cos t * cos t = 1.
Proof. pose proof (sin2_cos2 t) as E. unfold Rsqr in E. exact E. Qed.

Lemma sqrt_sq_pos (a : R) : 0 <= a -> sqrt (a * a) = a.
Proof. apply sqrt_square. Qed.

(* rho*cos, rho*sin *)
Lemma hyp_polar (r t : R) : 0 <= r -> sqrt (r * cos t * (r * cos t) + r * sin t * (r * sin t)) = r.
Proof. intros H. exact (polar_hyp r t H). Qed.

Lemma hyp3_sph (r t f : R) :
  0 <= r ->
  sqrt (r * sin t * cos f * (r * sin t * cos f) + r * sin t * sin f * (r * sin t * sin f) + r * cos t * (r * cos t)) = r.
Proof.
  intros H.
  replace (r * sin t * cos f * (r * sin t * cos f) + r * sin t * sin f * (r * sin t * sin f) + r * cos t * (r * cos t))
    with (r * r).
  - apply sqrt_square. exact H.
  - pose proof (sq_trig t) as E1. pose proof (sq_trig f) as E2.
    replace (r * sin t * cos f * (r * sin t * cos f) + r * sin t * sin f * (r * sin t * sin f) + r * cos t * (r * cos t))
      with (r * r * (sin t * sin t * (sin f * sin f + cos f * cos f) + cos t * cos t)) by ring.
    rewrite E2, Rmult_1_r, E1. ring.
Qed.

Lemma hyp2_sph (r t f : R) :
  0 <= r * sin t ->
  sqrt (r * sin t * cos f * (r * sin t * cos f) + r * sin t * sin f * (r * sin t * sin f)) = r * sin t.
Proof.
  intros H.
  replace (r * sin t * cos f * (r * sin t * cos f) + r * sin t * sin f * (r * sin t * sin f))
    with ((r * sin t) * (r * sin t)).
  - apply sqrt_square. exact H.
  - pose proof (sq_trig f) as E2.
    replace (r * sin t * cos f * (r * sin t * cos f) + r * sin t * sin f * (r * sin t * sin f))
      with (r * sin t * (r * sin t) * (sin f * sin f + cos f * cos f)) by ring.
    rewrite E2. ring.
Qed.

Lemma hyp_rsin_rcos (r t : R) : 0 <= r -> sqrt (r * sin t * (r * sin t) + r * cos t * (r * cos t)) = r.
Proof.
  intros H. replace (r * sin t * (r * sin t) + r * cos t * (r * cos t)) with (r * r).
  - apply sqrt_square. exact H.
  - pose proof (sq_trig t). nra.
Qed.

Lemma sqrt_hyp_sq (x y : R) : sqrt (x * x + y * y) * sqrt (x * x + y * y) = x * x + y * y.
Proof. apply sqrt_sqrt. nra. Qed.

Lemma hyp_of_hyp (x y z : R) :
  sqrt (z * z + sqrt (x * x + y * y) * sqrt (x * x + y * y)) = sqrt (x * x + y * y + z * z).
Proof. rewrite sqrt_hyp_sq. f_equal. ring. Qed.

Lemma hyp3_pos (x y z : R) : (x, y) <> (0, 0) -> 0 < sqrt (x * x + y * y + z * z).
Proof. intros H. apply sqrt_lt_R0. apply pair_neq_00 in H. nra. Qed.

Lemma rsin_pos (r t : R) : 0 < r -> 0 < t < PI -> 0 < r * sin t.
Proof. intros Hr Ht. apply Rmult_lt_0_compat; [exact Hr | apply sin_gt_0; lra]. Qed.

(* ================================================================================================== *)
(* scalars: to Cartesian and back                                                                       *)
(* ================================================================================================== *)

(* from Cartesian and back to Cartesian *)
Lemma to_from_cart (b : esys) (x : V3) :
  regular ECart x -> scal ECart b (scal b ECart x) = x.
Proof.
  destruct x as [[x y] z]. cbn [regular]. intros H.
  pose proof (hyp_pos x y H) as Hh. pose proof (hyp3_pos x y z H) as Hr.
  destruct b; cbv [scal].
  - reflexivity.
  - rewrite atan2_cos, atan2_sin by exact H. split3; try reflexivity; field; lra.
  - assert (H2 : (z, sqrt (x * x + y * y)) <> (0, 0)).
    { intros E. inversion E. lra. }
    rewrite (atan2_cos (sqrt (x * x + y * y)) z), (atan2_sin (sqrt (x * x + y * y)) z) by exact H2.
    rewrite atan2_cos, atan2_sin by exact H.
    rewrite hyp_of_hyp.
    split3; field; lra.
Qed.

(* to Cartesian and back *)
Lemma from_to_cart (b : esys) (q : V3) :
  regular b q -> scal b ECart (scal ECart b q) = q.
Proof.
  destruct q as [[q1 q2] q3].
  destruct b; cbn [regular]; cbv [scal].
  - reflexivity.
  - intros [Hr Hp]. rewrite hyp_polar by lra. rewrite atan2_polar by assumption. reflexivity.
  - intros [Hr [Ht Hp]].
    pose proof (rsin_pos q1 q2 Hr Ht) as Hs.
    rewrite hyp3_sph by lra. rewrite hyp2_sph by lra.
    replace (q1 * sin q2 * sin q3) with ((q1 * sin q2) * sin q3) by ring.
    replace (q1 * sin q2 * cos q3) with ((q1 * sin q2) * cos q3) by ring.
    rewrite (atan2_polar (q1 * sin q2) q3) by assumption.
    rewrite (atan2_polar q1 q2) by (try assumption; lra).
    reflexivity.
Qed.

Lemma regular_to_cart (b : esys) (q : V3) : regular b q -> regular ECart (scal ECart b q).
Proof.
  destruct q as [[q1 q2] q3].
  destruct b; cbn [regular]; cbv [scal].
  - trivial.
  - intros [Hr _]. apply polar_neq_00. exact Hr.
  - intros [Hr [Ht _]]. pose proof (rsin_pos q1 q2 Hr Ht) as Hs.
    replace (q1 * sin q2 * sin q3) with ((q1 * sin q2) * sin q3) by ring.
    replace (q1 * sin q2 * cos q3) with ((q1 * sin q2) * cos q3) by ring.
    apply polar_neq_00. exact Hs.
Qed.

Lemma regular_from_cart (a : esys) (x : V3) : regular ECart x -> regular a (scal a ECart x).
Proof.
  destruct x as [[x y] z]. cbn [regular]. intros H. pose proof (hyp_pos x y H) as Hh.
  destruct a; cbv [scal]; cbn [regular].
  - exact H.
  - split; [exact Hh | apply atan2_range].
  - split; [apply hyp3_pos; exact H |]. split; [apply atan2_ypos_range; exact Hh | apply atan2_range].
Qed.

(* every table factors through the Cartesian ones *)
Lemma scal_via_cart (a b : esys) (q : V3) :
  regular b q -> scal a b q = scal a ECart (scal ECart b q).
Proof.
  intros H. destruct q as [[q1 q2] q3].
  destruct a, b; try reflexivity.
  - symmetry. apply (from_to_cart ECyl). exact H.
  - (* Cyl of Sph *)
    cbn [regular] in H. destruct H as [Hr [Ht Hp]].
    pose proof (rsin_pos q1 q2 Hr Ht) as Hs.
    cbv [scal]. rewrite hyp2_sph by lra.
    replace (q1 * sin q2 * sin q3) with ((q1 * sin q2) * sin q3) by ring.
    replace (q1 * sin q2 * cos q3) with ((q1 * sin q2) * cos q3) by ring.
    rewrite atan2_polar by assumption. reflexivity.
  - (* Sph of Cyl *)
    cbn [regular] in H. destruct H as [Hr Hp].
    cbv [scal]. rewrite hyp_polar by lra. rewrite atan2_polar by assumption.
    replace (q1 * cos q2 * (q1 * cos q2) + q1 * sin q2 * (q1 * sin q2) + q3 * q3) with (q1 * q1 + q3 * q3).
    + reflexivity.
    + pose proof (sq_trig q2). nra.
  - symmetry. apply (from_to_cart ESph). exact H.
Qed.

Lemma regular_scal (a b : esys) (q : V3) : regular b q -> regular a (scal a b q).
Proof.
  intros H. rewrite scal_via_cart by exact H.
  apply regular_from_cart, regular_to_cart, H.
Qed.

Lemma scal_cart_cart (q : V3) : scal ECart ECart q = q.
Proof. destruct q as [[? ?] ?]. reflexivity. Qed.

(* the Cartesian position is the same after any conversion *)
Lemma position_scal (a b : esys) (q : V3) :
  regular b q -> scal ECart a (scal a b q) = scal ECart b q.
Proof.
  intros H. rewrite (scal_via_cart a b q H).
  apply to_from_cart, regular_to_cart, H.
Qed.

Theorem scalars_roundtrip (a b : esys) (q : V3) :
  regular a q -> scal a b (scal b a q) = q.
Proof.
  intros H.
  rewrite (scal_via_cart a b) by (apply regular_scal; exact H).
  rewrite position_scal by exact H.
  apply from_to_cart. exact H.
Qed.

Theorem direct_equals_via_third (a b c : esys) (q : V3) :
  regular c q -> scal a c q = scal a b (scal b c q).
Proof.
  intros H.
  rewrite (scal_via_cart a b) by (apply regular_scal; exact H).
  rewrite position_scal by exact H.
  apply scal_via_cart. exact H.
Qed.

Theorem convert_point_preserves_cartesian (a b : esys) (p : V3) :
  regular a p -> position b (convert_point a b p) = position a p.
Proof. intros H. unfold position, convert_point. apply position_scal. exact H. Qed.

Theorem convert_point_roundtrip (a b : esys) (p : V3) :
  regular a p -> convert_point b a (convert_point a b p) = p.
Proof. intros H. unfold convert_point. apply scalars_roundtrip. exact H. Qed.

(* ================================================================================================== *)
(* 3x3 matrix algebra                                                                                   *)
(* ================================================================================================== *)

Ltac destr_m m :=
  let r1 := fresh "r" in let r2 := fresh "r" in let r3 := fresh "r" in
  destruct m as [[r1 r2] r3]; destruct r1 as [[? ?] ?]; destruct r2 as [[? ?] ?]; destruct r3 as [[? ?] ?].

Lemma mmul_assoc (a b c : M3) : mmul (mmul a b) c = mmul a (mmul b c).
Proof. destr_m a; destr_m b; destr_m c. cbv [mmul]. split3; ring. Qed.

Lemma mtr_mmul (a b : M3) : mtr (mmul a b) = mmul (mtr b) (mtr a).
Proof. destr_m a; destr_m b. cbv [mmul mtr]. split3; ring. Qed.

Lemma mtr_mtr (a : M3) : mtr (mtr a) = a.
Proof. destr_m a. reflexivity. Qed.

Lemma mtr_I3 : mtr I3 = I3.
Proof. reflexivity. Qed.

Lemma mmul_I3_l (a : M3) : mmul I3 a = a.
Proof. destr_m a. cbv [mmul I3]. split3; ring. Qed.

Lemma mmul_I3_r (a : M3) : mmul a I3 = a.
Proof. destr_m a. cbv [mmul I3]. split3; ring. Qed.

Lemma det_mmul (a b : M3) : det (mmul a b) = det a * det b.
Proof. destr_m a; destr_m b. cbv [mmul det]. ring. Qed.

Lemma det_mtr (a : M3) : det (mtr a) = det a.
Proof. destr_m a. cbv [mtr det]. ring. Qed.

Lemma det_I3 : det I3 = 1.
Proof. cbv [det I3]. ring. Qed.

Lemma vecmat_mmul (c : V3) (a b : M3) : vecmat (vecmat c a) b = vecmat c (mmul a b).
Proof. destruct c as [[? ?] ?]; destr_m a; destr_m b. cbv [vecmat mmul]. split3; ring. Qed.

Lemma vecmat_I3 (c : V3) : vecmat c I3 = c.
Proof. destruct c as [[? ?] ?]. cbv [vecmat I3]. split3; ring. Qed.

Definition orthonormal (m : M3) : Prop := mmul m (mtr m) = I3 /\ mmul (mtr m) m = I3 /\ det m = 1.

Lemma orthonormal_I3 : orthonormal I3.
Proof. repeat split; cbv [mmul mtr I3 det]; try (split3; ring); ring. Qed.

Lemma orthonormal_mtr (m : M3) : orthonormal m -> orthonormal (mtr m).
Proof. intros [H1 [H2 H3]]. repeat split; rewrite ?mtr_mtr, ?det_mtr; assumption. Qed.

Lemma orthonormal_mmul (a b : M3) : orthonormal a -> orthonormal b -> orthonormal (mmul a b).
Proof.
  intros [A1 [A2 A3]] [B1 [B2 B3]]. repeat split.
  - rewrite mtr_mmul, mmul_assoc, <- (mmul_assoc b), B1, mmul_I3_l. exact A1.
  - rewrite mtr_mmul, mmul_assoc, <- (mmul_assoc (mtr a)), A2, mmul_I3_l. exact B2.
  - rewrite det_mmul, A3, B3. ring.
Qed.

(* ================================================================================================== *)
(* frames: rows of [frame a x] are the unit vectors of system a at the Cartesian point x, in Cartesian   *)
(* components -- this is the code's table express_base_vectors(a, Cartesian)                             *)
(* ================================================================================================== *)

Definition frame (a : esys) (x : V3) : M3 := bvec a ECart x.

Ltac abs_trig t :=
  let s := fresh "s" in let c := fresh "c" in let E := fresh "E" in
  pose proof (sq_trig t) as E; set (s := sin t) in *; set (c := cos t) in *; clearbody s c.

(* NB: nsatz may "succeed" leaving a reified goal when it meets x ^ 2; always under solve, after unfolding pow *)
Ltac unpow := repeat match goal with |- context [?a ^ 2] => replace (a ^ 2) with (a * a) by ring end.
Ltac poly := first [ ring | solve [ unpow; nsatz ] | solve [ unpow; nra ] ].
Ltac ent :=
  first [ ring
        | solve [ field_simplify_eq; [ poly | repeat split; first [ lra | nra ] ] ]
        | solve [ field_simplify_eq; poly ] ].

Lemma frame_orthonormal (a : esys) (x : V3) : regular ECart x -> orthonormal (frame a x).
Proof.
  destruct x as [[x y] z]. cbn [regular]. intros H.
  pose proof (hyp_pos x y H) as Hh. pose proof (hyp3_pos x y z H) as Hr.
  pose proof (sqrt_hyp_sq x y) as Eh.
  assert (Er : sqrt (x * x + y * y + z * z) * sqrt (x * x + y * y + z * z) = x * x + y * y + z * z)
    by (apply sqrt_sqrt; apply pair_neq_00 in H; nra).
  destruct a; unfold frame; cbv [bvec].
  - apply orthonormal_I3.
  - set (h := sqrt (x * x + y * y)) in *. clearbody h.
    repeat split; cbv [mmul mtr det I3]; try split3; ent.
  - set (h := sqrt (x * x + y * y)) in *. set (r := sqrt (x * x + y * y + z * z)) in *. clearbody h r.
    clear H.
    repeat split; cbv [mmul mtr det I3]; try split3; ent.
Qed.

(* every base-vector table factors through the Cartesian frames at the same point *)
Lemma bvec_via_cart (a b : esys) (q : V3) :
  regular b q ->
  bvec a b q = mmul (frame a (scal ECart b q)) (mtr (frame b (scal ECart b q))).
Proof.
  intros H.
  destruct a, b;
    try (destruct (frame_orthonormal ECyl (scal ECart ECyl q) (regular_to_cart ECyl q H)) as [E _];
         rewrite E; destruct q as [[? ?] ?]; reflexivity);
    try (destruct (frame_orthonormal ESph (scal ECart ESph q) (regular_to_cart ESph q H)) as [E _];
         rewrite E; destruct q as [[? ?] ?]; reflexivity);
    destruct q as [[q1 q2] q3]; cbn [regular] in H.
  - (* Cart Cart *) cbv [frame bvec scal mmul mtr I3]. split3; ring.
  - (* Cart Cyl *) destruct H as [Hr Hp].
    cbv [frame bvec scal mmul mtr I3]. rewrite hyp_polar by lra. split3; ent.
  - (* Cart Sph *) destruct H as [Hr [Ht Hp]].
    pose proof (rsin_pos q1 q2 Hr Ht) as Hs. assert (Hst : 0 < sin q2) by (apply sin_gt_0; lra).
    cbv [frame bvec scal mmul mtr I3]. rewrite hyp3_sph by lra. rewrite hyp2_sph by lra.
    clear Hs. abs_trig q2. abs_trig q3. split3; ent.
  - (* Cyl Cart *) cbv [frame bvec scal mmul mtr I3]. split3; ring.
  - (* Cyl Sph *) destruct H as [Hr [Ht Hp]].
    pose proof (rsin_pos q1 q2 Hr Ht) as Hs. assert (Hst : 0 < sin q2) by (apply sin_gt_0; lra).
    cbv [frame bvec scal mmul mtr I3]. rewrite hyp3_sph by lra. rewrite hyp2_sph by lra.
    clear Hs. abs_trig q2. abs_trig q3. split3; ent.
  - (* Sph Cart *) cbv [frame bvec scal mmul mtr I3]. split3; ring.
  - (* Sph Cyl *) destruct H as [Hr Hp].
    cbv [frame bvec scal mmul mtr I3]. rewrite hyp_polar by lra.
    replace (q1 * cos q2 * (q1 * cos q2) + q1 * sin q2 * (q1 * sin q2) + q3 * q3) with (q1 * q1 + q3 * q3)
      by (pose proof (sq_trig q2); nra).
    assert (Hq : 0 < sqrt (q1 * q1 + q3 * q3)) by (apply sqrt_lt_R0; nra).
    set (r := sqrt (q1 * q1 + q3 * q3)) in *. clearbody r.
    abs_trig q2. split3; ent.
Qed.

Theorem basis_matrix_orthonormal (a b : esys) (q : V3) : regular b q -> orthonormal (bvec a b q).
Proof.
  intros H. rewrite bvec_via_cart by exact H.
  apply orthonormal_mmul; [| apply orthonormal_mtr]; apply frame_orthonormal, regular_to_cart, H.
Qed.

(* M_ab(q) * M_ba(q') = I when q' are the a-coordinates of the point with b-coordinates q *)
Theorem basis_inverse (a b : esys) (q : V3) :
  regular b q -> mmul (bvec a b q) (bvec b a (scal a b q)) = I3.
Proof.
  intros H.
  rewrite (bvec_via_cart a b q H).
  rewrite (bvec_via_cart b a (scal a b q)) by (apply regular_scal; exact H).
  rewrite position_scal by exact H.
  set (x := scal ECart b q).
  assert (Hx : regular ECart x) by (apply regular_to_cart; exact H).
  destruct (frame_orthonormal a x Hx) as [A1 [A2 _]]. destruct (frame_orthonormal b x Hx) as [B1 [B2 _]].
  rewrite mmul_assoc, <- (mmul_assoc (mtr (frame b x))), B2, mmul_I3_l. exact A1.
Qed.

Theorem basis_direct_equals_via_third (a b c : esys) (q : V3) :
  regular c q -> bvec a c q = mmul (bvec a b (scal b c q)) (bvec b c q).
Proof.
  intros H.
  rewrite (bvec_via_cart a c q H), (bvec_via_cart b c q H).
  rewrite (bvec_via_cart a b (scal b c q)) by (apply regular_scal; exact H).
  rewrite position_scal by exact H.
  set (x := scal ECart c q).
  assert (Hx : regular ECart x) by (apply regular_to_cart; exact H).
  destruct (frame_orthonormal b x Hx) as [B1 [B2 _]].
  rewrite mmul_assoc, <- (mmul_assoc (mtr (frame b x))), B2, mmul_I3_l. reflexivity.
Qed.

(* Cartesian components of the vector with components c in system a at the point with a-coordinates p *)
Definition cart_components (a : esys) (c p : V3) : V3 := vecmat c (frame a (position a p)).

Theorem convert_vector_preserves_cartesian_components (a b : esys) (c p : V3) :
  regular a p ->
  cart_components b (convert_vector a b c p) (convert_point a b p) = cart_components a c p.
Proof.
  intros H. unfold cart_components, convert_vector, convert_point, position.
  assert (Hq : regular b (scal b a p)) by (apply regular_scal; exact H).
  rewrite vecmat_mmul. rewrite (bvec_via_cart a b _ Hq). rewrite position_scal by exact H.
  set (x := scal ECart a p).
  assert (Hx : regular ECart x) by (apply regular_to_cart; exact H).
  destruct (frame_orthonormal b x Hx) as [B1 [B2 _]].
  rewrite mmul_assoc, B2, mmul_I3_r. reflexivity.
Qed.

(* converting there and back gives the original components *)
Theorem convert_vector_roundtrip (a b : esys) (c p : V3) :
  regular a p -> convert_vector b a (convert_vector a b c p) (convert_point a b p) = c.
Proof.
  intros H. unfold convert_vector at 1 2.
  rewrite convert_point_roundtrip by exact H.
  rewrite vecmat_mmul. unfold convert_point.
  assert (Hq : regular b (scal b a p)) by (apply regular_scal; exact H).
  pose proof (basis_inverse a b (scal b a p) Hq) as E.
  rewrite scalars_roundtrip in E by exact H. rewrite E. apply vecmat_I3.
Qed.

(* ================================================================================================== *)
(* Lame coefficients                                                                                    *)
(* ================================================================================================== *)

Definition c1 (v : V3) : R := fst (fst v).
Definition c2 (v : V3) : R := snd (fst v).
Definition c3 (v : V3) : R := snd v.

(* the coordinate line through q along coordinate i *)
Definition along (i : nat) (q : V3) (t : R) : V3 :=
  let '(q1, q2, q3) := q in match i with O => (t, q2, q3) | S O => (q1, t, q3) | _ => (q1, q2, t) end.

Definition coord (i : nat) (q : V3) : R :=
  let '(q1, q2, q3) := q in match i with O => q1 | S O => q2 | _ => q3 end.

(* [dposition a i q] really is the derivative of the position along coordinate i (three components) *)
Lemma dposition_is_derivative (a : esys) (i : nat) (q : V3) :
  is_derive (fun t => c1 (position a (along i q t))) (coord i q) (c1 (dposition a i q)) /\
  is_derive (fun t => c2 (position a (along i q t))) (coord i q) (c2 (dposition a i q)) /\
  is_derive (fun t => c3 (position a (along i q t))) (coord i q) (c3 (dposition a i q)).
Proof.
  destruct q as [[q1 q2] q3].
  destruct a; destruct i as [| [| i]];
    cbv [position ExpCoords.scal along coord dposition c1 c2 c3 fst snd];
    (split; [| split]); (auto_derive; [exact I | ring]).
Qed.

Lemma sqrt_eq_of_sq (a s : R) : 0 <= a -> s = a * a -> sqrt s = a.
Proof. intros Ha E. rewrite E. apply sqrt_square. exact Ha. Qed.

Theorem lame_is_norm_of_position_derivative (a : esys) (q : V3) :
  regular a q ->
  lame a q = (norm (dposition a 0 q), norm (dposition a 1 q), norm (dposition a 2 q)).
Proof.
  destruct q as [[q1 q2] q3].
  destruct a; cbn [regular]; intros H; cbv [lame norm dposition dotv].
  - split3; symmetry; apply sqrt_eq_of_sq; try lra; ring.
  - destruct H as [Hr _]. pose proof (sq_trig q2) as E.
    split3; symmetry; apply sqrt_eq_of_sq; try lra; try ring; nra.
  - destruct H as [Hr [Ht _]]. pose proof (sq_trig q2) as E2. pose proof (sq_trig q3) as E3.
    assert (Hs : 0 < sin q2) by (apply sin_gt_0; lra).
    split3; symmetry; apply sqrt_eq_of_sq; try lra; try (solve [nra]);
      clear Hs Ht; abs_trig q2; abs_trig q3; poly.
Qed.

(* the coordinate lines are mutually orthogonal (the systems are orthogonal, as coordinate_systems.py assumes) *)
Theorem coordinate_lines_orthogonal (a : esys) (q : V3) :
  dotv (dposition a 0 q) (dposition a 1 q) = 0 /\
  dotv (dposition a 0 q) (dposition a 2 q) = 0 /\
  dotv (dposition a 1 q) (dposition a 2 q) = 0.
Proof.
  destruct q as [[q1 q2] q3].
  destruct a; cbv [dposition dotv]; repeat split; try ring.
  - pose proof (sq_trig q3) as E3.
    replace (sin q2 * cos q3 * (q1 * cos q2 * cos q3) + sin q2 * sin q3 * (q1 * cos q2 * sin q3) + cos q2 * - (q1 * sin q2))
      with (q1 * sin q2 * cos q2 * (sin q3 * sin q3 + cos q3 * cos q3) - q1 * sin q2 * cos q2) by ring.
    rewrite E3. ring.
Qed.

(* ================================================================================================== *)
(* dispatch fall-through                                                                                *)
(* ================================================================================================== *)

Lemma dispatch_table_iff (a b : akind) :
  dispatch a b = DTable <-> registered a = true /\ registered b = true /\ a <> b.
Proof.
  destruct a, b; cbv [dispatch akind_eqb registered andb]; split; intros H;
    try discriminate; try (repeat split; try reflexivity; discriminate);
    try reflexivity; destruct H as [? [? N]]; try discriminate; exfalso; apply N; reflexivity.
Qed.

Lemma dispatch_identity_iff (a b : akind) :
  dispatch a b = DIdentity <-> a = b /\ a <> KNotSystem.
Proof.
  destruct a, b; cbv [dispatch akind_eqb registered andb]; split; intros H;
    try discriminate; try (split; [reflexivity | discriminate]); try reflexivity;
    destruct H as [E N]; try discriminate; exfalso; apply N; reflexivity.
Qed.

(* ================================================================================================== *)
(* non-vacuity                                                                                          *)
(* ================================================================================================== *)

Example regular_cart_inhabited : regular ECart (1, 0, 0).
Proof. cbn. intros E. inversion E. lra. Qed.

Example regular_cyl_inhabited : regular ECyl (1, 0, 0).
Proof. cbn. pose proof PI_RGT_0. lra. Qed.

Example regular_sph_inhabited : regular ESph (1, PI / 2, 0).
Proof. cbn. pose proof PI_RGT_0. lra. Qed.

Example scal_example : scal ECart ESph (2, 0, 0) = (2 * 0 * 1, 2 * 0 * 0, 2 * 1).
Proof. cbv [scal]. rewrite sin_0, cos_0. reflexivity. Qed.

Example bvec_example : bvec ECart ECyl (1, 0, 0) = ((1, - 0, 0), (0, 1, 0), (0, 0, 1)).
Proof. cbv [bvec]. rewrite sin_0, cos_0. reflexivity. Qed.

(* ================================================================================================== *)
(* helpers for the generated lemmas of harness/props/c15.py                                             *)
(* ================================================================================================== *)

(* base vectors are handled as linear forms: a combination  m1*E1 + m2*E2 + m3*E3  of the new base vectors is the
   real number obtained for an arbitrary triple (E1, E2, E3) of reals; two combinations are equal for all triples
   iff their coefficients are equal *)
Lemma linear_form_ext (u v : V3) : (forall e : V3, dotv u e = dotv v e) -> u = v.
Proof.
  destruct u as [[u1 u2] u3], v as [[v1 v2] v3]. intros H.
  pose proof (H (1, 0, 0)) as H1. pose proof (H (0, 1, 0)) as H2. pose proof (H (0, 0, 1)) as H3.
  cbv [dotv] in H1, H2, H3. split3; lra.
Qed.

Lemma mmul_apply (i : nat) (m n : M3) (e : V3) :
  dotv (mrow i (mmul m n)) e = dotv (mrow i m) (dotv (mrow 0 n) e, dotv (mrow 1 n) e, dotv (mrow 2 n) e).
Proof.
  destr_m m; destr_m n; destruct e as [[e1 e2] e3].
  destruct i as [| [| i]]; cbv [mmul mrow dotv]; ring.
Qed.

Lemma mrow_I3_apply (i : nat) (e : V3) : dotv (mrow i I3) e = coord i e.
Proof. destruct e as [[e1 e2] e3]. destruct i as [| [| i]]; cbv [mrow I3 dotv coord]; ring. Qed.

(* facts made available to the correspondence proofs of convert_vector, where SymPy has already rewritten
   cos(atan2(..)) and sin(atan2(..)) *)
Ltac vp_pair_side :=
  first [ assumption
        | solve [ apply pair_neq_00; nra ]
        | solve [ intros E; inversion E; lra ]
        | solve [ intros E; inversion E; nra ] ].

Ltac vp_atan2_trig :=
  lazymatch goal with
  | |- context [atan2 _ _] =>
      repeat first [ rewrite atan2_cos by vp_pair_side | rewrite atan2_sin by vp_pair_side ];
      repeat match goal with
      | |- context [sqrt (?z * ?z + sqrt (?x * ?x + ?y * ?y) * sqrt (?x * ?x + ?y * ?y))] =>
          rewrite (hyp_of_hyp x y z)
      end
  | _ => idtac
  end.

Lemma pow2_mul (x : R) : x ^ 2 = x * x.
Proof. ring. Qed.

Ltac vp_nz :=
  repeat split;
  first [ assumption | lra
        | (apply Rgt_not_eq; apply sqrt_lt_R0; nra)
        | (apply Rgt_not_eq; nra) | nra ].

(* the regular-point hypothesis, unpacked into facts usable by lra / nra *)
Ltac vp_regular_facts H :=
  cbn [regular] in H;
  match type of H with
  | (?x, ?y) <> (0, 0) =>
      let Hp := fresh "Hp" in let Hh := fresh "Hh" in
      pose proof (proj1 (pair_neq_00 x y) H) as Hp; pose proof (hyp_pos x y H) as Hh
  | _ /\ _ /\ _ =>
      let Hr := fresh "Hr" in let Ht := fresh "Ht" in let Hf := fresh "Hf" in let Hs := fresh "Hs" in
      destruct H as [Hr [Ht Hf]];
      match type of Hr with 0 < ?r => match type of Ht with 0 < ?t < PI =>
        pose proof (rsin_pos r t Hr Ht) as Hs end end
  | _ /\ _ => let Hr := fresh "Hr" in let Hf := fresh "Hf" in destruct H as [Hr Hf]
  end.

Ltac vp_ecorr_vec H :=
  vp_regular_facts H;
  cbv beta iota zeta delta [ExpCoords.scal bvec convert_point convert_vector vecmat dotv mrow I3];
  vp_atan2_trig;
  rewrite ?pow2_mul;
  first [ ring | (unfold Rdiv; ring)
        | (vp_trig_args; first [ ring | (unfold Rdiv; ring) | (field; vp_nz) ]) ].
