(* Lemmas about Model/CollectQ.v.  Node-level characterisations of acceptance/refusal that do not mention the
   order of the arguments, the value theorem, and the historical witness. *)
From Coq Require Import List QArith ZArith Bool NArith Lia Permutation.
From VP Require Import Base.Util Base.Dim Base.Val Model.CollectQ Proofs.DimProofs.
Import ListNotations.

(* ---- induction principle for the nested type ------------------------------------------------ *)
Section qexpr_ind2.
  Variable P : qexpr -> Prop.
  Hypothesis HNum : forall v, P (QNum v).
  Hypothesis HQty : forall v d, P (QQty v d).
  Hypothesis HPrefix : forall v, P (QPrefix v).
  Hypothesis HMul : forall l, Forall P l -> P (QMul l).
  Hypothesis HPow : forall b e, P b -> P e -> P (QPow b e).
  Hypothesis HAdd : forall l, Forall P l -> P (QAdd l).
  Hypothesis HAbs : forall e, P e -> P (QAbs e).
  Hypothesis HMin : forall l, Forall P l -> P (QMin l).
  Hypothesis HMax : forall l, Forall P l -> P (QMax l).
  Hypothesis HFun : forall ov l, Forall P l -> P (QFun ov l).
  Hypothesis HDeriv : P QDeriv.

  Fixpoint qexpr_ind2 (e : qexpr) : P e :=
    let fix go (l : list qexpr) : Forall P l :=
      match l with
      | [] => Forall_nil P
      | x :: r => Forall_cons x (qexpr_ind2 x) (go r)
      end in
    match e with
    | QNum v => HNum v
    | QQty v d => HQty v d
    | QPrefix v => HPrefix v
    | QMul l => HMul l (go l)
    | QPow b x => HPow b x (qexpr_ind2 b) (qexpr_ind2 x)
    | QAdd l => HAdd l (go l)
    | QAbs a => HAbs a (qexpr_ind2 a)
    | QMin l => HMin l (go l)
    | QMax l => HMax l (go l)
    | QFun ov l => HFun ov l (go l)
    | QDeriv => HDeriv
    end.
End qexpr_ind2.

(* ---- children collected in order ------------------------------------------------------------- *)
Fixpoint map_res (c : qexpr -> cres) (l : list qexpr) : result (list (val * dim)) :=
  match l with
  | [] => Ok []
  | a :: r => match c a with
              | Err k => Err k
              | Ok t => match map_res c r with
                        | Err k => Err k
                        | Ok ts => Ok (t :: ts)
                        end
              end
  end.

(* ---- specification vocabulary (order-free) --------------------------------------------------- *)
Definition nonany (t : val * dim) : Prop := is_any (fst t) = false.

(* the terms that are not of any dimension have pairwise equivalent dimensions *)
Definition pairwise_equiv (ts : list (val * dim)) : Prop :=
  forall t1 t2, In t1 ts -> In t2 ts -> nonany t1 -> nonany t2 -> equivalent_dims (snd t1) (snd t2) = true.

(* the dimension the result takes: that of (any) term not of any dimension, else that of the last term *)
Fixpoint first_nonany (ts : list (val * dim)) : option dim :=
  match ts with
  | [] => None
  | (v, d) :: r => if is_any v then first_nonany r else Some d
  end.

Definition pick_dim (ts : list (val * dim)) : dim :=
  match first_nonany ts with
  | Some d => d
  | None => snd (last ts (VQ 0, dzero))
  end.

Fixpoint fold_comb (comb : val -> val -> option val) (acc : val) (vs : list val) : option val :=
  match vs with
  | [] => Some acc
  | v :: r => match comb acc v with
              | Some y => fold_comb comb y r
              | None => None
              end
  end.

Lemma equivalent_dims_refl d : equivalent_dims d d = true.
Proof. apply deqb_refl. Qed.
Lemma equivalent_dims_sym a b : equivalent_dims a b = equivalent_dims b a.
Proof. apply deqb_sym. Qed.
Lemma equivalent_dims_trans a b c : equivalent_dims a b = true -> equivalent_dims b c = true -> equivalent_dims a c = true.
Proof. apply deqb_trans. Qed.

(* ---- _collect_same_dimension: from the fold to an order-free statement -------------------------- *)
Fixpoint sd_run (comb : val -> val -> option val) (f : option val) (d : option dim) (last : dim)
  (ts : list (val * dim)) : cres :=
  match ts with
  | [] => match f with
          | None => Err E_OTHER
          | Some fv => Ok (fv, match d with Some dd => dd | None => last end)
          end
  | (af, ad) :: r =>
      match sd_dim d af ad with
      | Err k => Err k
      | Ok d' =>
          match f with
          | None => sd_run comb (Some af) d' ad r
          | Some x => match comb x af with
                      | Some y => sd_run comb (Some y) d' ad r
                      | None => Err E_VALUE
                      end
          end
      end
  end.

Lemma sd_go_run c comb l : forall ts f d last,
  map_res c l = Ok ts -> sd_go c comb f d last l = sd_run comb f d last ts.
Proof.
  induction l as [|a r IH]; intros ts f d last H; cbn in H.
  - inversion H; subst. reflexivity.
  - cbn [sd_go]. destruct (c a) as [[af ad]|k] eqn:Ea; [|discriminate].
    destruct (map_res c r) as [ts'|k] eqn:Er; [|discriminate].
    inversion H; subst. cbn [sd_run].
    destruct (sd_dim d af ad) as [d'|k]; [|reflexivity].
    destruct f as [x|]; [destruct (comb x af) as [y|]|]; try reflexivity; apply IH; reflexivity.
Qed.

Lemma sd_go_child_err c comb l : forall k f d last,
  map_res c l = Err k -> exists k', sd_go c comb f d last l = Err k'.
Proof.
  induction l as [|a r IH]; intros k f d last H; cbn in H; [discriminate|].
  cbn [sd_go]. destruct (c a) as [[af ad]|k1] eqn:Ea; [|eexists; reflexivity].
  destruct (map_res c r) as [ts'|k2] eqn:Er; [discriminate|].
  destruct (sd_dim d af ad) as [d'|k3]; [|eexists; reflexivity].
  destruct f as [x|]; [destruct (comb x af) as [y|]|]; try (eexists; reflexivity); eapply IH; reflexivity.
Qed.

(* dimension bookkeeping alone *)
Fixpoint sd_dims (d : option dim) (ts : list (val * dim)) : option (option dim) :=
  match ts with
  | [] => Some d
  | (af, ad) :: r => match sd_dim d af ad with
                     | Err _ => None
                     | Ok d' => sd_dims d' r
                     end
  end.

(* value bookkeeping alone *)
Fixpoint sd_val (comb : val -> val -> option val) (f : option val) (ts : list (val * dim)) : option val :=
  match ts with
  | [] => f
  | (af, _) :: r => match f with
                    | None => sd_val comb (Some af) r
                    | Some x => match comb x af with
                                | Some y => sd_val comb (Some y) r
                                | None => None
                                end
                    end
  end.

Definition last_dim (ts : list (val * dim)) (dflt : dim) : dim := snd (last ts (VQ 0, dflt)).

Lemma last_nonempty_dflt {A} (l : list A) : forall x d d', last (x :: l) d = last (x :: l) d'.
Proof.
  induction l as [|y l IH]; intros x d d'; [reflexivity|].
  change (last (y :: l) d = last (y :: l) d'). apply IH.
Qed.

Lemma last_dim_cons af ad r dflt : last_dim ((af, ad) :: r) dflt = last_dim r ad.
Proof.
  unfold last_dim. destruct r as [|t r']; [reflexivity|].
  change (snd (last (t :: r') (VQ 0, dflt)) = snd (last (t :: r') (VQ 0, ad))).
  f_equal. apply last_nonempty_dflt.
Qed.

Lemma sd_val_some_nonempty comb ts : forall x, sd_val comb (Some x) ts <> Some x -> True.
Proof. trivial. Qed.

Lemma sd_run_split comb ts : forall f d lastd v dd,
  sd_run comb f d lastd ts = Ok (v, dd) <->
  exists dfin, sd_dims d ts = Some dfin /\ sd_val comb f ts = Some v /\
               dd = match dfin with Some x => x | None => last_dim ts lastd end.
Proof.
  induction ts as [|[af ad] r IH]; intros f d lastd v dd; cbn [sd_run sd_dims sd_val].
  - unfold last_dim; cbn. split.
    + destruct f as [fv|]; [|discriminate]. intros H; inversion H; subst. exists d. auto.
    + intros [dfin [H1 [H2 H3]]]. inversion H1; subst. reflexivity.
  - destruct (sd_dim d af ad) as [d'|k].
    2:{ split; [discriminate | intros [dfin [H _]]; discriminate]. }
    assert (Hl : forall dflt, last_dim ((af, ad) :: r) dflt = last_dim r ad) by (intros; apply last_dim_cons).
    destruct f as [x|].
    + destruct (comb x af) as [y|].
      * rewrite IH. split; intros [dfin [H1 [H2 H3]]]; exists dfin; repeat split; auto; rewrite ?Hl in *; auto.
      * split; [discriminate | intros [dfin [_ [H _]]]; discriminate].
    + rewrite IH. split; intros [dfin [H1 [H2 H3]]]; exists dfin; repeat split; auto; rewrite ?Hl in *; auto.
Qed.

Definition compat (d : option dim) (ts : list (val * dim)) : Prop :=
  forall t, In t ts -> nonany t ->
    match d with Some d0 => equivalent_dims d0 (snd t) = true | None => True end.

Lemma pairwise_cons_any af ad r : is_any af = true -> (pairwise_equiv ((af, ad) :: r) <-> pairwise_equiv r).
Proof.
  intros Ha. unfold pairwise_equiv, nonany. split; intros H t1 t2 H1 H2 N1 N2.
  - apply H; auto; right; assumption.
  - destruct H1 as [<-|H1]; [cbn in N1; congruence|]. destruct H2 as [<-|H2]; [cbn in N2; congruence|]. apply H; auto.
Qed.

Lemma pairwise_cons_nonany af ad r : is_any af = false ->
  (pairwise_equiv ((af, ad) :: r) <-> compat (Some ad) r /\ pairwise_equiv r).
Proof.
  intros Ha. unfold pairwise_equiv, compat, nonany. split.
  - intros H. split.
    + intros t Ht Nt. apply (H (af, ad) t); [left; reflexivity | right; assumption | exact Ha | exact Nt].
    + intros t1 t2 H1 H2 N1 N2. apply H; auto; right; assumption.
  - intros [Hc Hp] t1 t2 H1 H2 N1 N2.
    destruct H1 as [<-|H1], H2 as [<-|H2]; cbn [snd].
    + apply equivalent_dims_refl.
    + apply Hc; assumption.
    + rewrite equivalent_dims_sym. apply Hc; assumption.
    + apply Hp; assumption.
Qed.

Lemma compat_cons d af ad r :
  compat d ((af, ad) :: r) <->
  (is_any af = false -> match d with Some d0 => equivalent_dims d0 ad = true | None => True end) /\ compat d r.
Proof.
  unfold compat, nonany. split.
  - intros H. split.
    + intros Ha. apply (H (af, ad)); [left; reflexivity | exact Ha].
    + intros t Ht Nt. apply H; [right; assumption | assumption].
  - intros [H1 H2] t [<-|Ht] Nt; [apply H1; exact Nt | apply H2; assumption].
Qed.

Lemma compat_trans d0 d1 r : equivalent_dims d0 d1 = true -> compat (Some d1) r -> compat (Some d0) r.
Proof.
  intros E H t Ht Nt. specialize (H t Ht Nt). cbn in *. eapply equivalent_dims_trans; eassumption.
Qed.

Lemma sd_dims_spec ts : forall d dfin,
  sd_dims d ts = Some dfin <->
  compat d ts /\ pairwise_equiv ts /\ dfin = match d with Some d0 => Some d0 | None => first_nonany ts end.
Proof.
  induction ts as [|[af ad] r IH]; intros d dfin; cbn [sd_dims first_nonany].
  - split.
    + intros H; inversion H; subst. repeat split.
      * intros t [].
      * intros t1 t2 [].
      * destruct dfin; reflexivity.
    + intros [_ [_ ->]]. destruct d; reflexivity.
  - unfold sd_dim. destruct (is_any af) eqn:Ha.
    + rewrite IH, compat_cons, (pairwise_cons_any af ad r Ha). intuition congruence.
    + destruct d as [d0|].
      * destruct (equivalent_dims d0 ad) eqn:E.
        -- rewrite IH, compat_cons, (pairwise_cons_nonany af ad r Ha). split.
           ++ intros [Hc [Hp ->]]. repeat split; auto.
              apply compat_trans with d0; [rewrite equivalent_dims_sym; exact E | exact Hc].
           ++ intros [[_ Hc] [[_ Hp] ->]]. repeat split; auto.
        -- split; [discriminate|]. rewrite compat_cons. intros [[H _] _]. specialize (H Ha). congruence.
      * rewrite IH, compat_cons, (pairwise_cons_nonany af ad r Ha). split.
        -- intros [Hc [Hp ->]]. repeat split; auto.
        -- intros [_ [[Hc Hp] ->]]. repeat split; auto.
Qed.


(* ---- the order-free characterisation of the fixed _collect_same_dimension ------------------------ *)
Theorem sd_go_ok_iff c comb l ts v d :
  map_res c l = Ok ts ->
  (sd_go c comb None None dzero l = Ok (v, d) <->
   pairwise_equiv ts /\ sd_val comb None ts = Some v /\ d = pick_dim ts).
Proof.
  intros H. rewrite (sd_go_run c comb l ts None None dzero H), sd_run_split. split.
  - intros [dfin [H1 [H2 H3]]]. apply sd_dims_spec in H1 as [_ [Hp ->]].
    repeat split; auto.
  - intros [Hp [Hv ->]]. exists (first_nonany ts). repeat split; auto.
    apply sd_dims_spec. repeat split; auto.
Qed.

Lemma sd_val_none_nonempty comb ts v : sd_val comb None ts = Some v -> ts <> [].
Proof. intros H. destruct ts; [discriminate H | discriminate]. Qed.

Lemma sd_val_add_total ts : forall f, (f <> None \/ ts <> []) -> exists v, sd_val comb_add f ts = Some v.
Proof.
  induction ts as [|[af ad] r IH]; intros f H; cbn [sd_val].
  - destruct f as [x|]; [exists x; reflexivity | destruct H as [H|H]; congruence].
  - destruct f as [x|]; cbn [comb_add]; apply IH; left; discriminate.
Qed.

(* a sum is accepted exactly when its terms that are not of any dimension are pairwise equivalent *)
Theorem add_accepts_iff c l ts :
  map_res c l = Ok ts ->
  ((exists r, sd_go c comb_add None None dzero l = Ok r) <-> pairwise_equiv ts /\ ts <> []).
Proof.
  intros H. split.
  - intros [[v d] Hr]. apply (sd_go_ok_iff c comb_add l ts v d H) in Hr as [Hp [Hv _]].
    split; [exact Hp | eapply sd_val_none_nonempty; exact Hv].
  - intros [Hp Hne]. destruct (sd_val_add_total ts None (or_intror Hne)) as [v Hv].
    exists (v, pick_dim ts). apply (sd_go_ok_iff c comb_add l ts v _ H). auto.
Qed.

Lemma pairwise_perm ts ts' : Permutation ts ts' -> pairwise_equiv ts -> pairwise_equiv ts'.
Proof.
  intros P H t1 t2 H1 H2. apply H; eapply Permutation_in; try eassumption; apply Permutation_sym; assumption.
Qed.

(* acceptance of a sum does not depend on the order in which its terms are written *)
Theorem add_order_irrelevant c l l' ts ts' :
  map_res c l = Ok ts -> map_res c l' = Ok ts' -> Permutation ts ts' ->
  ((exists r, sd_go c comb_add None None dzero l = Ok r) <-> (exists r, sd_go c comb_add None None dzero l' = Ok r)).
Proof.
  intros H H' P. rewrite (add_accepts_iff c l ts H), (add_accepts_iff c l' ts' H'). split; intros [Hp Hne]; split.
  - eapply pairwise_perm; eassumption.
  - intros ->. apply Permutation_sym, Permutation_nil in P. congruence.
  - eapply pairwise_perm; [apply Permutation_sym|]; eassumption.
  - intros ->. apply Permutation_nil in P. congruence.
Qed.

(* the dimension reported for an accepted sum/min/max is equivalent to that of every term not of any dimension *)
Lemma first_nonany_in ts d : first_nonany ts = Some d -> exists v, In (v, d) ts /\ is_any v = false.
Proof.
  induction ts as [|[v0 d0] r IH]; cbn; [discriminate|]. destruct (is_any v0) eqn:E.
  - intros H. destruct (IH H) as [v [Hi Hn]]. exists v. auto.
  - intros H; inversion H; subst. exists v0. auto.
Qed.

Lemma first_nonany_none ts : first_nonany ts = None -> forall t, In t ts -> is_any (fst t) = true.
Proof.
  induction ts as [|[v0 d0] r IH]; cbn; [intros _ t []|]. destruct (is_any v0) eqn:E; [|discriminate].
  intros H t [<-|Ht]; [exact E | apply IH; assumption].
Qed.

Theorem sd_dim_of_nonany_terms c comb l ts v d :
  map_res c l = Ok ts -> sd_go c comb None None dzero l = Ok (v, d) ->
  forall t, In t ts -> is_any (fst t) = false -> equivalent_dims d (snd t) = true.
Proof.
  intros H Hr t Ht Nt. apply (sd_go_ok_iff c comb l ts v d H) in Hr as [Hp [_ ->]].
  unfold pick_dim. destruct (first_nonany ts) as [d0|] eqn:E.
  - destruct (first_nonany_in ts d0 E) as [v0 [Hi Hn]]. apply (Hp (v0, d0) t Hi Ht Hn Nt).
  - pose proof (first_nonany_none ts E t Ht). congruence.
Qed.

Theorem sd_child_refusal c comb l k :
  map_res c l = Err k -> exists k', sd_go c comb None None dzero l = Err k'.
Proof. apply sd_go_child_err. Qed.

(* ---- products ---------------------------------------------------------------------------------- *)
Lemma mul_go_run c l : forall ts p, map_res c l = Ok ts -> mul_go c (Ok p) l = Ok (fold_left mul_step ts p).
Proof.
  induction l as [|a r IH]; intros ts p H; cbn in H.
  - inversion H; subst. reflexivity.
  - cbn [mul_go]. destruct (c a) as [q|k]; [|discriminate]. destruct (map_res c r) as [ts'|k] eqn:Er; [|discriminate].
    inversion H; subst. cbn [fold_left]. apply IH. reflexivity.
Qed.

Lemma mul_go_err c k l : mul_go c (Err k) l = Err k.
Proof. destruct l; reflexivity. Qed.

Lemma mul_go_child_err c l : forall k p, map_res c l = Err k -> exists k', mul_go c (Ok p) l = Err k'.
Proof.
  induction l as [|a r IH]; intros k p H; cbn in H; [discriminate|].
  cbn [mul_go]. destruct (c a) as [q|k1]; [|eexists; reflexivity].
  destruct (map_res c r) as [ts'|k2] eqn:Er; [discriminate|]. eapply IH. reflexivity.
Qed.

Lemma mul_fold_value ts : forall p, fst (fold_left mul_step ts p) = fold_left vmul (map fst ts) (fst p).
Proof.
  induction ts as [|t r IH]; intros p; [reflexivity|]. cbn [fold_left map]. rewrite IH. f_equal.
  unfold mul_step. destruct (is_any (vmul (fst p) (fst t))); reflexivity.
Qed.

Definition finite_val (v : val) : bool := match v with VQ _ | VFloat0 | VOther => true | _ => false end.

Lemma Qred_zero q : qzero (Qred q) = qzero q.
Proof.
  unfold qzero. destruct (Qeq_bool q 0) eqn:E.
  - apply Qeq_bool_iff in E. apply Qeq_bool_iff. rewrite Qred_correct. exact E.
  - destruct (Qeq_bool (Qred q) 0) eqn:F; [|reflexivity]. apply Qeq_bool_iff in F. rewrite Qred_correct in F.
    apply Qeq_bool_iff in F. congruence.
Qed.

Lemma qzero_mul_l x y : qzero x = true -> qzero (x * y) = true.
Proof. unfold qzero. rewrite !Qeq_bool_iff. intros ->. ring. Qed.

Lemma vmul_finite a b : finite_val a = true -> finite_val b = true -> finite_val (vmul a b) = true.
Proof.
  destruct a, b; cbn; intros; try discriminate; try reflexivity.
  all: match goal with |- context [qzero ?x] => destruct (qzero x); reflexivity end.
Qed.

Lemma vmul_any_absorbs a b : finite_val a = true -> finite_val b = true -> is_any a = true -> is_any (vmul a b) = true.
Proof.
  destruct a as [x| | | | | | |], b as [y| | | | | | |]; intros Fa Fb Ha; try discriminate Fa; try discriminate Fb;
    try discriminate Ha; try reflexivity.
  - change (qzero (Qred (x * y)) = true). rewrite Qred_zero. apply qzero_mul_l. exact Ha.
  - change (is_any (if qzero x then VQ 0 else VOther) = true). change (qzero x = true) in Ha. rewrite Ha. reflexivity.
Qed.

(* with finite factor values: either the product is of any dimension (zero), or its dimension is the
   dimensional product of all factors *)
Theorem mul_fold_dim ts : forall p,
  finite_val (fst p) = true -> Forall (fun t => finite_val (fst t) = true) ts ->
  forall d0, (is_any (fst p) = true \/ deq (snd p) d0) ->
  let r := fold_left mul_step ts p in
  is_any (fst r) = true \/ deq (snd r) (fold_left dmul (map snd ts) d0).
Proof.
  induction ts as [|t r IH]; intros p Fp Fts d0 Hp; cbn [fold_left map].
  - exact Hp.
  - inversion Fts as [|? ? Ft Fr]; subst.
    apply IH; [| exact Fr |].
    + unfold mul_step. destruct (is_any (vmul (fst p) (fst t))); cbn [fst]; apply vmul_finite; assumption.
    + unfold mul_step. destruct (is_any (vmul (fst p) (fst t))) eqn:E; cbn [fst snd].
      * left. exact E.
      * right. destruct Hp as [Hp|Hp].
        -- rewrite (vmul_any_absorbs _ _ Fp Ft Hp) in E. discriminate.
        -- apply dmul_deq; [exact Hp | apply deq_refl].
Qed.

(* ---- functions --------------------------------------------------------------------------------- *)
Theorem fun_go_ok_iff c ov l ts :
  map_res c l = Ok ts ->
  (fun_go c ov l = Ok (ov, dzero) <-> Forall (fun t => is_any (fst t) = true \/ dimensionless (snd t) = true) ts) /\
  (forall r, fun_go c ov l = Ok r -> r = (ov, dzero)).
Proof.
  revert ts. induction l as [|a r IH]; intros ts H; cbn in H.
  - inversion H; subst. cbn. split; [split; [constructor | reflexivity] | intros r0 Hr; inversion Hr; reflexivity].
  - destruct (c a) as [[af ad]|k] eqn:Ea; [|discriminate]. destruct (map_res c r) as [ts'|k] eqn:Er; [|discriminate].
    inversion H; subst. cbn [fun_go]. rewrite Ea. destruct (IH ts' eq_refl) as [IH1 IH2].
    destruct (is_any af || dimensionless ad) eqn:E.
    + split; [|exact IH2]. rewrite IH1. split.
      * intros Hf. constructor; [cbn; apply orb_true_iff; exact E | exact Hf].
      * intros Hf. inversion Hf; assumption.
    + split; [|discriminate]. split; [discriminate|]. intros Hf. inversion Hf as [|? ? Hh Ht]; subst.
      cbn [fst snd] in Hh. apply orb_true_iff in Hh. rewrite E in Hh. discriminate Hh.
Qed.

(* ---- collect: node-level facts ----------------------------------------------------------------- *)
Theorem collect_add_accepts_iff l ts :
  map_res collect l = Ok ts ->
  ((exists r, collect (QAdd l) = Ok r) <-> pairwise_equiv ts /\ ts <> []).
Proof. apply add_accepts_iff. Qed.

Theorem collect_add_order_irrelevant l l' ts ts' :
  map_res collect l = Ok ts -> map_res collect l' = Ok ts' -> Permutation ts ts' ->
  ((exists r, collect (QAdd l) = Ok r) <-> (exists r, collect (QAdd l') = Ok r)).
Proof. apply add_order_irrelevant. Qed.

Theorem collect_minmax_accepts l ts v d (ismin : bool) :
  map_res collect l = Ok ts ->
  collect (if ismin then QMin l else QMax l) = Ok (v, d) ->
  pairwise_equiv ts /\ d = pick_dim ts.
Proof.
  intros H Hr. destruct ismin; cbn [collect] in Hr;
    apply (sd_go_ok_iff collect _ l ts v d H) in Hr as [Hp [_ Hd]]; auto.
Qed.

Theorem collect_sum_dim l ts v d :
  map_res collect l = Ok ts -> collect (QAdd l) = Ok (v, d) ->
  d = pick_dim ts /\ forall t, In t ts -> is_any (fst t) = false -> equivalent_dims d (snd t) = true.
Proof.
  intros H Hr. split.
  - apply (sd_go_ok_iff collect comb_add l ts v d H) in Hr as [_ [_ Hd]]. exact Hd.
  - eapply sd_dim_of_nonany_terms; eassumption.
Qed.

Theorem collect_child_error_refuses l k :
  map_res collect l = Err k ->
  (exists k', collect (QAdd l) = Err k') /\ (exists k', collect (QMin l) = Err k') /\
  (exists k', collect (QMax l) = Err k') /\ (exists k', collect (QMul l) = Err k').
Proof.
  intros H. repeat split; try (apply sd_child_refusal with k; exact H).
  cbn [collect]. destruct l as [|x xs]; [eexists; reflexivity|]. cbn in H.
  destruct (collect x) as [p|k1]; [|rewrite mul_go_err; eexists; reflexivity].
  destruct (map_res collect xs) as [ts|k2] eqn:E; [discriminate|]. eapply mul_go_child_err. exact E.
Qed.

(* a product of collectable factors is never refused; its value is the product of the values and, for finite
   values, its dimension is the dimensional product unless the value is zero *)
Theorem collect_mul_spec x xs p ts :
  collect x = Ok p -> map_res collect xs = Ok ts ->
  exists v d, collect (QMul (x :: xs)) = Ok (v, d) /\
    v = fold_left vmul (map fst ts) (fst p) /\
    (finite_val (fst p) = true -> Forall (fun t => finite_val (fst t) = true) ts ->
     is_any v = true \/ deq d (fold_left dmul (map snd ts) (snd p))).
Proof.
  intros Hx Hts. cbn [collect]. rewrite Hx, (mul_go_run collect xs ts p Hts).
  destruct (fold_left mul_step ts p) as [v d] eqn:E. exists v, d. split; [reflexivity|]. split.
  - rewrite <- (mul_fold_value ts p), E. reflexivity.
  - intros Fp Fts. pose proof (mul_fold_dim ts p Fp Fts (snd p) (or_intror (deq_refl _))) as Hd.
    cbn zeta in Hd. rewrite E in Hd. exact Hd.
Qed.

Theorem collect_pow_spec b ex bf bd ef ed :
  collect b = Ok (bf, bd) -> collect ex = Ok (ef, ed) ->
  (is_any ef = true \/ dimensionless ed = true ->
     forall d, dim_pow_val bd ef = Some d -> collect (QPow b ex) = Ok (vpow bf ef, d)) /\
  (is_any ef = false -> dimensionless ed = false -> collect (QPow b ex) = Err E_VALUE).
Proof.
  intros Hb He. cbn [collect]. rewrite Hb, He. split.
  - intros H d Hd. apply orb_true_iff in H. rewrite H, Hd. reflexivity.
  - intros H1 H2. rewrite H1, H2. reflexivity.
Qed.

Theorem collect_fun_accepts_iff ov l ts :
  map_res collect l = Ok ts ->
  ((exists r, collect (QFun ov l) = Ok r) <-> Forall (fun t => is_any (fst t) = true \/ dimensionless (snd t) = true) ts).
Proof.
  intros H. cbn [collect]. destruct (fun_go_ok_iff collect ov l ts H) as [H1 H2]. rewrite <- H1. split.
  - intros [r Hr]. rewrite (H2 r Hr) in Hr. exact Hr.
  - intros Hr. eexists; exact Hr.
Qed.

Theorem collect_leaf_refusals : collect QDeriv = Err E_VALUE /\ collect (QNum VSym) = Err E_VALUE.
Proof. split; reflexivity. Qed.

(* ---- the value theorem ------------------------------------------------------------------------- *)
Fixpoint value (e : qexpr) : val :=
  match e with
  | QNum v | QQty v _ | QPrefix v => v
  | QMul l => match l with [] => VSym | x :: xs => fold_left vmul (map value xs) (value x) end
  | QPow b x => vpow (value b) (value x)
  | QAdd l => match l with [] => VSym | x :: xs => fold_left vadd (map value xs) (value x) end
  | QAbs a => vabs (value a)
  | QMin l => match l with [] => VSym | x :: xs => fold_left vmin (map value xs) (value x) end
  | QMax l => match l with [] => VSym | x :: xs => fold_left vmax (map value xs) (value x) end
  | QFun ov _ => ov
  | QDeriv => VSym
  end.

Lemma map_res_values l : Forall (fun e => forall v d, collect e = Ok (v, d) -> v = value e) l ->
  forall ts, map_res collect l = Ok ts -> map fst ts = map value l.
Proof.
  induction 1 as [|a r Ha Hr IH]; intros ts H; cbn in H.
  - inversion H; reflexivity.
  - destruct (collect a) as [[af ad]|k] eqn:Ea; [|discriminate].
    destruct (map_res collect r) as [ts'|k]; [|discriminate]. inversion H; subst. cbn. f_equal; [apply (Ha af ad); reflexivity | apply IH; reflexivity].
Qed.

Lemma map_res_total_or_err c l : (exists ts, map_res c l = Ok ts) \/ (exists k, map_res c l = Err k).
Proof. destruct (map_res c l); eauto. Qed.

Lemma sd_val_fold comb g ts : (forall a b y, comb a b = Some y -> y = g a b) ->
  forall x v, sd_val comb (Some x) ts = Some v -> v = fold_left g (map fst ts) x.
Proof.
  intros Hg. induction ts as [|[af ad] r IH]; intros x v H; cbn in H.
  - inversion H; reflexivity.
  - destruct (comb x af) as [y|] eqn:E; [|discriminate]. cbn. rewrite <- (Hg _ _ _ E). apply IH. exact H.
Qed.

Lemma sd_value comb g l ts v d : (forall a b y, comb a b = Some y -> y = g a b) ->
  map_res collect l = Ok ts -> sd_go collect comb None None dzero l = Ok (v, d) ->
  match ts with [] => False | t :: r => v = fold_left g (map fst r) (fst t) end.
Proof.
  intros Hg H Hr. apply (sd_go_ok_iff collect comb l ts v d H) in Hr as [_ [Hv _]].
  destruct ts as [|[af ad] r]; [discriminate|]. cbn in Hv. apply (sd_val_fold comb g r Hg). exact Hv.
Qed.

Theorem collect_value : forall e v d, collect e = Ok (v, d) -> v = value e.
Proof.
  induction e as [v0|v0 d0|v0|l IH|b x IHb IHx|l IH|a IHa|l IH|l IH|ov l IH|] using qexpr_ind2; intros v d H; cbn [collect] in H.
  - destruct (is_number v0); inversion H; reflexivity.
  - inversion H; reflexivity.
  - inversion H; reflexivity.
  - destruct l as [|x xs]; [discriminate|]. inversion IH as [|? ? Hx Hxs]; subst.
    destruct (collect x) as [p|k] eqn:Ex; [|rewrite mul_go_err in H; discriminate H].
    destruct (map_res_total_or_err collect xs) as [[ts Hts]|[k Hk]].
    + rewrite (mul_go_run collect xs ts p Hts) in H. inversion H as [Hv]. cbn [value].
      pose proof (mul_fold_value ts p) as Hf. rewrite Hv in Hf. cbn in Hf. rewrite Hf.
      rewrite (map_res_values xs Hxs ts Hts). destruct p as [pv pd]. rewrite (Hx pv pd eq_refl). reflexivity.
    + destruct (mul_go_child_err collect xs k p Hk) as [k' Hk']. congruence.
  - destruct (collect b) as [[bf bd]|k] eqn:Eb; [|discriminate]. destruct (collect x) as [[ef ed]|k] eqn:Ee; [|discriminate].
    destruct (is_any ef || dimensionless ed); [|discriminate]. destruct (dim_pow_val bd ef); [|discriminate].
    inversion H; subst. cbn. rewrite (IHb bf bd eq_refl), (IHx ef ed eq_refl). reflexivity.
  - destruct (map_res_total_or_err collect l) as [[ts Hts]|[k Hk]].
    + pose proof (sd_value comb_add vadd l ts v d (fun a b y E => eq_sym (f_equal (fun o => match o with Some z => z | None => y end) E)) Hts H) as Hv.
      pose proof (map_res_values l IH ts Hts) as Hm.
      destruct ts as [|t r]; [contradiction|]. destruct l as [|x xs]; [discriminate|]. cbn in Hm. inversion Hm as [[H1 H2]].
      cbn [value]. rewrite <- H1, <- H2. exact Hv.
    + destruct (sd_go_child_err collect comb_add l k None None dzero Hk) as [k' Hk']. congruence.
  - destruct (collect a) as [[f0 d1]|k] eqn:Ea; [|discriminate]. inversion H; subst. cbn. rewrite (IHa f0 d eq_refl). reflexivity.
  - destruct (map_res_total_or_err collect l) as [[ts Hts]|[k Hk]].
    + assert (Hg : forall a b y, comb_min a b = Some y -> y = vmin a b).
      { intros a b y E. unfold comb_min in E. destruct (comparable a && comparable b); inversion E; reflexivity. }
      pose proof (sd_value comb_min vmin l ts v d Hg Hts H) as Hv.
      pose proof (map_res_values l IH ts Hts) as Hm.
      destruct ts as [|t r]; [contradiction|]. destruct l as [|x xs]; [discriminate|]. cbn in Hm. inversion Hm as [[H1 H2]].
      cbn [value]. rewrite <- H1, <- H2. exact Hv.
    + destruct (sd_go_child_err collect comb_min l k None None dzero Hk) as [k' Hk']. congruence.
  - destruct (map_res_total_or_err collect l) as [[ts Hts]|[k Hk]].
    + assert (Hg : forall a b y, comb_max a b = Some y -> y = vmax a b).
      { intros a b y E. unfold comb_max in E. destruct (comparable a && comparable b); inversion E; reflexivity. }
      pose proof (sd_value comb_max vmax l ts v d Hg Hts H) as Hv.
      pose proof (map_res_values l IH ts Hts) as Hm.
      destruct ts as [|t r]; [contradiction|]. destruct l as [|x xs]; [discriminate|]. cbn in Hm. inversion Hm as [[H1 H2]].
      cbn [value]. rewrite <- H1, <- H2. exact Hv.
    + destruct (sd_go_child_err collect comb_max l k None None dzero Hk) as [k' Hk']. congruence.
  - destruct (map_res_total_or_err collect l) as [[ts Hts]|[k Hk]].
    + destruct (fun_go_ok_iff collect ov l ts Hts) as [_ H2]. apply H2 in H. inversion H; reflexivity.
    + exfalso. clear IH. revert k Hk H. induction l as [|a r IHr]; intros k Hk H; cbn in Hk; [discriminate|].
      cbn [fun_go] in H. destruct (collect a) as [[af ad]|k1]; [|discriminate].
      destruct (map_res collect r) as [ts'|k2] eqn:Er; [discriminate|].
      destruct (is_any af || dimensionless ad); [|discriminate]. eapply IHr; [reflexivity | exact H].
  - discriminate.
Qed.

(* ---- the constructor --------------------------------------------------------------------------- *)
Theorem quantity_ctor_spec e o :
  (forall v d, collect e = Ok (v, d) -> complex_ok v = true ->
     quantity_ctor e o = Ok (v, match o with Some x => x | None => d end)) /\
  (forall k, collect e = Err k -> quantity_ctor e o = Err k) /\
  (forall v d, collect e = Ok (v, d) -> complex_ok v = false -> quantity_ctor e o = Err E_VALUE).
Proof.
  unfold quantity_ctor. repeat split.
  - intros v d -> ->. reflexivity.
  - intros k ->. reflexivity.
  - intros v d -> ->. reflexivity.
Qed.

(* ---- the historical witness (a cancelling prefix followed by another dimension) ------------------ *)
Definition d_length : dim := base 0.
Definition d_time : dim := base 2.
Definition w_cancel : qexpr := QAdd [QQty (VQ 1) d_length; QQty (VQ (-1)) d_length; QQty (VQ 1) d_time].
Definition w_cancel' : qexpr := QAdd [QQty (VQ 1) d_time; QQty (VQ 1) d_length; QQty (VQ (-1)) d_length].

Example collect_cancelling_prefix_refused :
  collect w_cancel = Err E_VALUE /\ collect w_cancel' = Err E_VALUE.
Proof. split; vm_compute; reflexivity. Qed.

(* non-vacuity: a mixed tree that is accepted, with a zero term of another dimension *)
Example collect_accepts_somewhere :
  collect (QAdd [QMul [QNum (VQ 2); QQty (VQ 3) d_length]; QQty (VQ 0) d_time; QQty (VQ 5) d_length])
  = Ok (VQ 11, d_length).
Proof. vm_compute. reflexivity. Qed.
