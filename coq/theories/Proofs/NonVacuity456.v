(* Non-vacuity of the C04 / C06 theorems that are implications: concrete, non-trivial inputs meet their premises
   (decided by vm_compute).  Premises no reachable input satisfies would make the theorems say nothing. *)
From Coq Require Import List QArith ZArith NArith Bool Permutation.
From VP Require Import Base.Util Base.Dim Base.Val Model.CollectQ Model.Gate Model.QVec Model.CollectE
  Proofs.GateProofs Proofs.CollectEProofs.
Import ListNotations.
Local Open Scope Q_scope.

Definition nv_len : dim := base 0.
Definition nv_tim : dim := base 2.
Definition nv_mass : dim := base 1.
Definition nv_vel : dim := [1; 0; -1; 0; 0; 0; 0; 0; 0].

(* C04_runs_only_if_all_pass / C04_output_gate: a two-parameter guarded function with a declared result *)
Definition nv_params := [1%N; 2%N].
Definition nv_guards := [(1%N, SOne (GDim nv_len)); (2%N, SOne (GDim nv_tim))].
Definition nv_out := Some (SOne (GDim nv_vel)).
Definition nv_d := GOne (GExpr (QQty (VQ 3) nv_len)).
Definition nv_t := GOne (GExpr (QQty (VQ 2) nv_tim)).
Definition nv_ret := GOne (GExpr (QQty (VQ (3 # 2)) nv_vel)).

Example nv_guarded_call :
  guarded_call nv_params nv_guards nv_out [nv_d; nv_t] [] nv_ret = None /\
  guarded_call nv_params nv_guards nv_out [nv_d] [(2%N, nv_t)] nv_ret = None /\
  guarded_call nv_params nv_guards nv_out [] [(2%N, nv_t); (1%N, nv_d)] nv_ret = None /\
  (* swapped arguments: refused with a units error; a bare number: type error; a wrong result: refused *)
  guarded_call nv_params nv_guards nv_out [nv_t; nv_d] [] nv_ret = Some E_UNITS /\
  guarded_call nv_params nv_guards nv_out [GOne (GExpr (QNum (VQ 100))); nv_t] [] nv_ret = Some E_TYPE /\
  guarded_call nv_params nv_guards nv_out [nv_d; nv_t] [] nv_d = Some E_UNITS /\
  gate nv_d (SOne (GDim nv_vel)) = Some E_UNITS.
Proof. vm_compute. repeat split; reflexivity. Qed.

(* C04_bind_any_style / C04_call_style_irrelevant: the premises (NoDup, lengths, Permutation of the keyword part) hold for
   the three call styles above *)
Example nv_call_styles :
  NoDup nv_params /\ length [nv_d; nv_t] = length nv_params /\
  Permutation [(2%N, nv_t)] (combine (skipn 1 nv_params) (skipn 1 [nv_d; nv_t])) /\
  Permutation [(2%N, nv_t); (1%N, nv_d)] (combine (skipn 0 nv_params) (skipn 0 [nv_d; nv_t])).
Proof.
  repeat split.
  - repeat constructor; cbn; intuition discriminate.
  - cbn. apply Permutation_refl.
  - cbn. apply perm_swap.
Qed.

(* C04_seq_pass_iff / C04_seq_first_failure: a sequence whose third element is of another dimension *)
Example nv_sequences :
  gate (GSeq [GExpr (QQty (VQ 1) nv_len); GExpr (QQty (VQ 0) nv_tim); GExpr (QQty (VQ 5) nv_len)]) (SOne (GDim nv_len)) = None /\
  gate (GSeq [GExpr (QQty (VQ 1) nv_len); GExpr (QQty (VQ 2) nv_len); GExpr (QQty (VQ 5) nv_tim)]) (SOne (GDim nv_len)) = Some E_UNITS.
Proof. vm_compute. split; reflexivity. Qed.

(* C04_qvec_*: a cylindrical vector (system 1: slot 1 is an angle) accepted, and one refused on its angle slot *)
Example nv_qvec :
  (exists d, qvec_ctor 1 [CQ (VQ 2) nv_len; CQ (VQ 1) (base ANGLE); CQ (VQ 3) nv_len] None = Ok d) /\
  (exists k, qvec_ctor 1 [CQ (VQ 2) nv_len; CQ (VQ 1) nv_len; CQ (VQ 3) nv_len] None = Err k) /\
  (exists d, qvec_ctor 0 [CQ (VQ 0) nv_tim; CQ (VQ 1) nv_len; CQ (VQ 3) nv_len] None = Ok d).
Proof. vm_compute. repeat split; eexists; reflexivity. Qed.

(* C06_pow_quantity / C06_pow_rational / C06_pow_refuses_iff: x**Quantity(2), x**2 and x**(2 s) for a length x *)
Example nv_pow :
  (exists v, infer_e (SPow (SDimSym nv_len) (SQty (VQ 2) dzero)) = Ok (v, [2; 0; 0; 0; 0; 0; 0; 0; 0])) /\
  (exists v, infer_e (SPow (SDimSym nv_len) (SNum (VQ 2))) = Ok (v, [2; 0; 0; 0; 0; 0; 0; 0; 0])) /\
  infer_e (SPow (SDimSym nv_len) (SQty (VQ 2) nv_tim)) = Err E_VALUE /\
  dimensionless dzero = true /\ infer_e (SNum (VQ 2)) = Ok (VQ 2, dzero).
Proof. vm_compute. repeat split; try eexists; reflexivity. Qed.

(* C06 sums / min / max and derivatives: accepted with a zero-valued term of another dimension, refused otherwise *)
Example nv_infer :
  (exists v, infer_e (SAdd [SQty (VQ 0) nv_tim; SDimSym nv_len; SQty (VQ 3) nv_len]) = Ok (v, nv_len)) /\
  (exists k, infer_e (SAdd [SQty (VQ 1) nv_tim; SDimSym nv_len]) = Err k) /\
  (exists v, infer_e (SMax [SDimSym nv_len; SQty (VQ 3) nv_len]) = Ok (v, nv_len)) /\
  (exists v, infer_e (SDeriv nv_len false [(SDimSym nv_tim, 1)]) = Ok (v, nv_vel)).
Proof. vm_compute. repeat split; eexists; reflexivity. Qed.
