(* C02: tactic portfolio for the generated obligations  `let y := F args in law_lhs = law_rhs`.
   Extends Base/RTac.v.  Every search step is under an Ltac `timeout`. *)
From Coq Require Import Reals Lra Lia Psatz Field Nsatz.
From VP Require Import Base.RTac.
Local Open Scope R_scope.

(* ---------- positivity / non-nullity of sub-terms from the hypotheses -------------------------------- *)
Ltac c02_pos :=
  lazymatch goal with
  | |- 0 < _ =>
      first
      [ assumption
      | apply exp_pos
      | apply PI_RGT_0
      | solve [ unfold Rpower; apply exp_pos ]
      | solve [ timeout 5 lra ]
      | solve [ apply Rmult_lt_0_compat; c02_pos ]
      | solve [ apply Rinv_0_lt_compat; c02_pos ]
      | solve [ apply Rdiv_lt_0_compat; c02_pos ]
      | solve [ apply sqrt_lt_R0; c02_pos ]
      | solve [ apply pow_lt; c02_pos ]
      | solve [ apply Rplus_lt_0_compat; c02_pos ]
      | solve [ timeout 10 nra ] ]
  | |- 0 <= _ =>
      first
      [ assumption
      | apply sqrt_pos
      | apply Rabs_pos
      | solve [ apply Rlt_le; c02_pos ]
      | solve [ apply pow2_ge_0 ]
      | solve [ timeout 5 lra ]
      | solve [ apply Rmult_le_pos; c02_pos ]
      | solve [ apply pow_le; c02_pos ]
      | solve [ apply Rplus_le_le_0_compat; c02_pos ]
      | solve [ timeout 10 nra ] ]
  end.

Ltac c02_nz1 :=
  first
  [ vp_nz1
  | solve [ apply vp_neq_of_pos; c02_pos ]
  | solve [ apply Rgt_not_eq; c02_pos ] ].

Ltac c02_side := repeat split; c02_nz1.

Ltac c02_eq_args :=
  first [ reflexivity | solve [ timeout 10 ring ] | solve [ timeout 10 (field; c02_side) ] ].

(* ---------- make the arguments of equal function symbols syntactically equal -------------------------- *)
(* SymPy orders the arguments of a product by symbol name, so `exp (a*b)` of the law and `exp (b*a)` of the function
   body differ only by commutativity; ring/field treat both as distinct atoms.  *)
Ltac c02_unify_step :=
  match goal with
  | |- context [?f ?a] =>
      let T := type of f in
      lazymatch T with (R -> R) => idtac end;
      lazymatch f with
      | Rinv => fail | Ropp => fail | Rmult _ => fail | Rplus _ => fail | Rminus _ => fail | Rdiv _ => fail
      | _ => idtac end;
      match goal with
      | |- context [f ?b] =>
          tryif constr_eq a b then fail else
          (let H := fresh "Hu" in
           assert (H : b = a) by c02_eq_args;
           rewrite H; clear H)
      end
  | |- context [Rpower ?a ?e] =>
      match goal with
      | |- context [Rpower ?b ?e'] =>
          tryif constr_eq a b then fail else
          (let H := fresh "Hu" in
           assert (H : b = a) by c02_eq_args;
           rewrite H; clear H)
      end
  end.

Ltac c02_unify := repeat (progress c02_unify_step).

(* ---------- Rabs / sqrt of squares ------------------------------------------------------------------- *)
Ltac c02_abs :=
  repeat match goal with
  | |- context [Rabs ?t] =>
      first [ rewrite (Rabs_pos_eq t) by c02_pos
            | rewrite (Rabs_left t) by (timeout 10 first [lra | nra])
            | rewrite (Rabs_left1 t) by (timeout 10 first [lra | nra]) ]
  end.

(* ---------- small lemma base --------------------------------------------------------------------------- *)
Lemma c02_sqrt_pow2_abs (x : R) : sqrt (x ^ 2) = Rabs x.
Proof. replace (x ^ 2) with (Rsqr x) by (unfold Rsqr; ring). apply sqrt_Rsqr_abs. Qed.

Lemma c02_sqrt_link (a b k : R) : 0 <= k -> 0 <= b -> a = (k * k) * b -> sqrt a = k * sqrt b.
Proof.
  intros Hk Hb ->. rewrite sqrt_mult; [ | nra | assumption ]. now rewrite sqrt_square.
Qed.

Lemma c02_Rpower_inv (x e : R) : 0 < x -> Rpower (/ x) e = Rpower x (- e).
Proof. intros Hx. unfold Rpower. rewrite ln_Rinv by assumption. f_equal. ring. Qed.

Lemma c02_Rpower_mult (x y e : R) : 0 < x -> 0 < y -> Rpower (x * y) e = Rpower x e * Rpower y e.
Proof. intros. symmetry. now apply Rpower_mult_distr. Qed.

Lemma c02_Rpower_pow (x e : R) (n : nat) : 0 < x -> Rpower (x ^ n) e = Rpower x (INR n * e).
Proof. intros Hx. unfold Rpower. rewrite ln_pow by assumption. f_equal. ring. Qed.

Lemma c02_Rpower_sqrt (x e : R) : 0 < x -> Rpower (sqrt x) e = Rpower x (e / 2).
Proof.
  intros Hx. unfold Rpower. f_equal.
  assert (H : ln (sqrt x) = ln x / 2).
  { rewrite <- (sqrt_sqrt x) at 2 by lra. rewrite ln_mult by (apply sqrt_lt_R0; assumption). lra. }
  rewrite H. field.
Qed.

Lemma c02_sqrt_Rpower (x : R) : 0 < x -> sqrt x = Rpower x (1 / 2).
Proof. intros. replace (1 / 2) with (/ 2) by field. symmetry. now apply Rpower_sqrt. Qed.

Lemma c02_ln_sqrt (x : R) : 0 < x -> ln (sqrt x) = ln x / 2.
Proof.
  intros Hx. rewrite <- (sqrt_sqrt x) at 2 by lra. rewrite ln_mult by (apply sqrt_lt_R0; assumption). lra.
Qed.

Lemma c02_ln_4 : ln 4 = 2 * ln 2.
Proof. replace 4 with (2 * 2) by ring. rewrite ln_mult by lra. ring. Qed.
Lemma c02_ln_8 : ln 8 = 3 * ln 2.
Proof. replace 8 with (2 * (2 * 2)) by ring. rewrite !ln_mult by lra. ring. Qed.
Lemma c02_ln_16 : ln 16 = 4 * ln 2.
Proof. replace 16 with (2 * (2 * (2 * 2))) by ring. rewrite !ln_mult by lra. ring. Qed.
Lemma c02_ln_100 : ln 100 = 2 * ln 10.
Proof. replace 100 with (10 * 10) by ring. rewrite ln_mult by lra. ring. Qed.
Lemma c02_ln_1000 : ln 1000 = 3 * ln 10.
Proof. replace 1000 with (10 * (10 * 10)) by ring. rewrite !ln_mult by lra. ring. Qed.

Lemma c02_Rabs_sym (a b : R) : a = - b -> Rabs a = Rabs b.
Proof. intros ->. apply Rabs_Ropp. Qed.

Ltac c02_range := first [ assumption | split; first [ assumption | timeout 10 lra | timeout 10 nra ] ].

(* ---------- inverse pairs: sin (asin u), sin (PI - asin u), cos (acos u), tan (atan u), exp (ln u), ln (exp u) -- *)
Ltac c02_inv_trig :=
  repeat first
  [ rewrite exp_ln by c02_pos
  | rewrite ln_exp
  | match goal with
    | |- context [sin ?t] =>
        match t with
        | context [asin ?u] =>
            first [ replace t with (asin u) by (timeout 10 ring); rewrite (sin_asin u) by c02_range
                  | replace t with (PI - asin u) by (timeout 10 ring); rewrite (sin_PI_x (asin u)), (sin_asin u) by c02_range ]
        end
    | |- context [cos ?t] =>
        match t with
        | context [acos ?u] => replace t with (acos u) by (timeout 10 ring); rewrite (cos_acos u) by c02_range
        end
    | |- context [tan ?t] =>
        match t with
        | context [atan ?u] => replace t with (atan u) by (timeout 10 ring); rewrite (tan_atan u)
        end
    end ].

(* ---------- logarithms and real powers to a normal form ------------------------------------------------ *)
Ltac c02_ln_expand :=
  repeat first
  [ rewrite ln_exp
  | rewrite c02_ln_4 | rewrite c02_ln_8 | rewrite c02_ln_16 | rewrite c02_ln_100 | rewrite c02_ln_1000
  | rewrite ln_Rpower
  | match goal with
    | |- context [ln (?a * ?b)] => rewrite (ln_mult a b) by c02_pos
    | |- context [ln (/ ?a)] => rewrite (ln_Rinv a) by c02_pos
    | |- context [ln (?a ^ ?n)] => rewrite (ln_pow a) by c02_pos
    | |- context [ln (sqrt ?a)] => rewrite (c02_ln_sqrt a) by c02_pos
    end ].

Ltac c02_Rpower_norm :=
  repeat match goal with
  | |- context [Rpower (?a * ?b) ?e] => rewrite (c02_Rpower_mult a b e) by c02_pos
  | |- context [Rpower (/ ?a) ?e] => rewrite (c02_Rpower_inv a e) by c02_pos
  | |- context [Rpower (?a ^ ?n) ?e] => rewrite (c02_Rpower_pow a e n) by c02_pos
  | |- context [Rpower (sqrt ?a) ?e] => rewrite (c02_Rpower_sqrt a e) by c02_pos
  end; simpl INR.

(* products of powers of one base are merged by hand: both sides are brought to  exp (linear form in ln atoms) *)
Ltac c02_pow_to_exp :=
  unfold Rpower;
  repeat match goal with
  | |- context [sqrt ?a] => rewrite (c02_sqrt_Rpower a) by c02_pos; unfold Rpower
  end.

Ltac c02_log_both_sides :=
  match goal with
  | |- ?l = ?r =>
      apply ln_inv; [ c02_pos | c02_pos | ];
      c02_ln_expand
  end.

(* ---------- Rabs: squares and sign symmetry ------------------------------------------------------------ *)
Ltac c02_abs_sq :=
  repeat first
  [ rewrite c02_sqrt_pow2_abs
  | rewrite pow2_abs
  | match goal with
    | |- context [Rabs ?a] =>
        match goal with
        | |- context [Rabs ?b] =>
            tryif constr_eq a b then fail else
            (let H := fresh "Ha" in
             assert (H : Rabs b = Rabs a) by (apply c02_Rabs_sym; timeout 10 ring);
             rewrite H; clear H)
        end
    end ].

(* hint supplied by the generator: sqrt a = k * sqrt b  (k is a square root of a/b found by SymPy; checked here) *)
Ltac c02_sqrt_hint a b k :=
  let H := fresh "Hl" in
  assert (H : sqrt a = k * sqrt b) by
    (apply c02_sqrt_link; [ c02_pos | c02_pos | timeout 20 (field; c02_side) ]);
  rewrite H; clear H.

Ltac c02_core :=
  first
  [ vp_req_core
  | solve [ timeout 30 (field; c02_side) ]
  | solve [ timeout 30 (field_simplify_eq; [ ring | c02_side ]) ] ].

Ltac c02_sqrt_alg :=
  vp_abs_sqrt; first [ vp_req_core | timeout 30 nsatz | timeout 30 (field_simplify_eq; [ nsatz | c02_side ]) ].

Ltac c02_finish :=
  first
  [ vp_req_core
  | solve [ c02_unify; c02_core ]
  | solve [ c02_abs_sq; c02_abs; c02_unify; c02_core ]
  | solve [ c02_inv_trig; c02_unify; c02_core ]
  | solve [ c02_sqrt_alg ]
  | solve [ c02_unify; c02_sqrt_alg ]
  | solve [ c02_Rpower_norm; c02_unify; c02_core ]
  | solve [ c02_ln_expand; c02_unify; c02_core ]
  | solve [ c02_log_both_sides; c02_unify; c02_core ]
  | solve [ c02_pow_to_exp; c02_log_both_sides; c02_unify; c02_core ] ].

Ltac c02_solve := intros; vp_unlet; c02_finish.
