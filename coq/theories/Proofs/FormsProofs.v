(* Pointwise (integrand) identities behind Stokes', Green's and Gauss' theorems for the integrands of analysis.py
   (Model/Forms.v, tied on every run by the generated corr_integrand_* lemmas).  Derivatives by our own D.
   The step from these identities to equality of the INTEGRALS is not proved here (C13_full_statement). *)
From Coq Require Import ZArith Reals List Lra Lia Field Bool.
From VP Require Import Model.DiffAlg Model.Ops Model.Forms Proofs.OpsProofs.
Import ListNotations.
Local Open Scope R_scope.

Ltac forms_cbn := cbv [line_integrand flux_surface_integrand stokes_surface_integrand flux_curve_integrand
  curl_at div_at jac_det surf_normal curve_normal khat tangent traj Fat Xs Xn dot3 cross3 Forms.c3
  volume_integrand volume_integrand_code gauss_integrand vol_elem
  reparam_integrand original_integrand_at_phi curve_at_phi curve_velocity_at_phi phi Xphi
  Nat.ltb Nat.leb Nat.add Nat.min]; ev_cbn.

(* ---- Stokes ---------------------------------------------------------------------------------------------- *)
(* P = F.S_u and Q = F.S_v are the coefficients of the pulled-back 1-form (the integrands of
   circulation_along_curve along the u- and v-lines of the surface).  dQ/du - dP/dv IS the integrand of
   flux_across_surface (curl F), for every field, every surface, every point. *)
Lemma stokes_pointwise rho m n : (m <= 3)%nat -> (2 <= n <= 3)%nat ->
  ev rho (TSub (Dvia (Xn n) 0 (line_integrand 1 m n)) (Dvia (Xn n) 1 (line_integrand 0 m n)))
  = ev rho (stokes_surface_integrand m n).
Proof.
  intros Hm Hn.
  destruct m as [|[|[|[|m]]]]; try lia; destruct n as [|[|[|[|n]]]]; try lia; forms_cbn; ring.
Qed.

(* ---- Green (flux form) ----------------------------------------------------------------------------------- *)
(* A = F.(S_u x k), B = F.(S_v x k): coefficients of the pulled-back flux form F1 dy - F2 dx.
   dB/du - dA/dv = (div F)(S(u,v)) * det(S_u, S_v). *)
Lemma green_pointwise rho m : (m <= 3)%nat ->
  ev rho (TSub (Dvia (Xn 2) 0 (flux_curve_integrand 1 m 2)) (Dvia (Xn 2) 1 (flux_curve_integrand 0 m 2)))
  = ev rho (div_at (Nat.min m 2) 2) * ev rho jac_det.
Proof.
  intros Hm. destruct m as [|[|[|[|m]]]]; try lia; forms_cbn; ring.
Qed.

(* the code's surface element of a planar surface is |det| : orientation-independent *)
Lemma planar_surface_element rho : norm3 (ev3 rho (surf_normal 2)) = Rabs (ev rho jac_det).
Proof.
  forms_cbn. unfold norm3.
  match goal with |- sqrt ?a = Rabs ?d => replace a with (Rsqr d) by (unfold Rsqr; ring) end.
  apply sqrt_Rsqr_abs.
Qed.

Lemma flux_boundary_planar rho m :
  flux_boundary_integrand rho m 2 = ev rho (div_at m 2) * Rabs (ev rho jac_det).
Proof. unfold flux_boundary_integrand. rewrite planar_surface_element. reflexivity. Qed.

(* A 3-component field on a planar surface (outside the property, which speaks of planar fields): the code takes the
   full 3-D divergence of the field at z = 0, i.e. the planar integrand plus (dF3/dz)(S) |det|.  The flux across the
   boundary curve only involves F1, F2 (green_pointwise, m = 3), so for such a field the two library paths agree
   exactly when dF3/dz vanishes on the plane. *)
Lemma flux_boundary_three_components rho :
  flux_boundary_integrand rho 3 2 =
  flux_boundary_integrand rho 2 2 + vk rho 3 0 0 1 * Rabs (ev rho jac_det).
Proof.
  rewrite !flux_boundary_planar. forms_cbn. ring.
Qed.

(* the normalisation in flux_across_curve cancels: (F . n/|n|) * |T| = F . n  because |T x k| = |T| for planar T *)
Lemma flux_curve_normalisation (f1 f2 tx' ty' : R) : 0 < tx' * tx' + ty' * ty' ->
  (f1 * (ty' / sqrt (ty' * ty' + tx' * tx')) + f2 * (- tx' / sqrt (ty' * ty' + tx' * tx'))) * sqrt (tx' * tx' + ty' * ty')
  = f1 * ty' - f2 * tx'.
Proof.
  intros H. replace (ty' * ty' + tx' * tx') with (tx' * tx' + ty' * ty') by ring.
  assert (Hs : sqrt (tx' * tx' + ty' * ty') <> 0) by (apply Rgt_not_eq, sqrt_lt_R0, H).
  field. exact Hs.
Qed.

(* ---- orientation ------------------------------------------------------------------------------------------ *)
(* exchanging the two surface parameters negates the normal, hence every flux / surface-circulation integrand;
   |normal| (flux_across_surface_boundary) is unchanged *)
Lemma cross3_antisym rho a b : ev3 rho (cross3 a b) = (let '(x, y, z) := ev3 rho (cross3 b a) in (- x, - y, - z)).
Proof.
  destruct a as [[a1 a2] a3], b as [[b1 b2] b3]. cbn. apply triple_eq; ring.
Qed.

(* reversing a planar curve (tangent -> -tangent) negates the T x k normal: the code's "outward" normal is outward
   exactly for counter-clockwise curves *)
Lemma curve_normal_reverses rho (t : tx3) :
  ev3 rho (cross3 (map3 TNeg t) khat) = (let '(x, y, z) := ev3 rho (cross3 t khat) in (- x, - y, - z)).
Proof. destruct t as [[t1 t2] t3]. cbn. apply triple_eq; ring. Qed.

(* n = T x k is the tangent rotated clockwise by a right angle: (T1, T2) -> (T2, -T1) *)
Lemma curve_normal_is_T_cross_k rho i n :
  ev3 rho (curve_normal i n) =
  (let '(t1, t2, t3) := ev3 rho (tangent i n) in (t2, - t1, 0)).
Proof.
  unfold curve_normal, khat. destruct (tangent i n) as [[t1 t2] t3]. cbn. apply triple_eq; ring.
Qed.

(* ---- reparametrisation ------------------------------------------------------------------------------------ *)
(* under t = phi(s) the line integrand picks up exactly the factor phi'(s) *)
Lemma reparam_pointwise rho m n : (m <= 3)%nat -> (n <= 3)%nat ->
  ev rho (reparam_integrand m n) = ev rho (original_integrand_at_phi m n) * ev rho (D 0 phi).
Proof.
  intros Hm Hn.
  destruct m as [|[|[|[|m]]]]; try lia; destruct n as [|[|[|[|n]]]]; try lia; forms_cbn; ring.
Qed.

(* orientation reversal phi(s) = -s (phi' = -1) negates the integrand *)
Lemma orientation_sign rho m n : (m <= 3)%nat -> (n <= 3)%nat -> ev rho (D 0 phi) = -1 ->
  ev rho (reparam_integrand m n) = - ev rho (original_integrand_at_phi m n).
Proof. intros Hm Hn H. rewrite reparam_pointwise by assumption. rewrite H. ring. Qed.

(* ---- Gauss ------------------------------------------------------------------------------------------------ *)
(* div F * volume element = d_1(h2 h3 F1) + d_2(h1 h3 F2) + d_3(h1 h2 F3): integrating the right-hand side over a
   coordinate box gives, by the fundamental theorem of calculus in each variable, the flux through its six faces *)
Lemma gauss_pointwise_cart rho : ev rho (volume_integrand Cart) = ev rho (gauss_integrand Cart).
Proof. forms_cbn. ring. Qed.

Lemma gauss_pointwise_cyl rho : vq rho 0%nat <> 0 ->
  ev rho (volume_integrand Cyl) = ev rho (gauss_integrand Cyl).
Proof. intros Hr. forms_cbn. field. auto. Qed.

Lemma gauss_pointwise_sph rho : vq rho 0%nat <> 0 -> sin (vq rho 2%nat) <> 0 ->
  ev rho (volume_integrand Sph) = ev rho (gauss_integrand Sph).
Proof. intros Hr Hs. forms_cbn. field. auto. Qed.

Lemma volume_integrand_code_eq rho :
  vq rho 0%nat <> 0 -> sin (vq rho 2%nat) <> 0 -> cos (vq rho 2%nat) <> 0 ->
  ev rho volume_integrand_code = ev rho (volume_integrand Sph).
Proof.
  intros Hr Hs Hc. unfold volume_integrand_code, volume_integrand. cbn [ev div].
  rewrite div_sph_code_eq by assumption. reflexivity.
Qed.

(* ---- the claim ------------------------------------------------------------------------------------------- *)
Definition C13_pointwise : Prop :=
  (forall rho m n, (m <= 3)%nat -> (2 <= n <= 3)%nat ->
     ev rho (TSub (Dvia (Xn n) 0 (line_integrand 1 m n)) (Dvia (Xn n) 1 (line_integrand 0 m n)))
     = ev rho (stokes_surface_integrand m n)) /\
  (forall rho m, (m <= 3)%nat ->
     ev rho (TSub (Dvia (Xn 2) 0 (flux_curve_integrand 1 m 2)) (Dvia (Xn 2) 1 (flux_curve_integrand 0 m 2)))
     = ev rho (div_at (Nat.min m 2) 2) * ev rho jac_det) /\
  (forall rho, norm3 (ev3 rho (surf_normal 2)) = Rabs (ev rho jac_det)) /\
  (forall rho, ev rho (volume_integrand Cart) = ev rho (gauss_integrand Cart)) /\
  (forall rho, vq rho 0%nat <> 0 -> ev rho (volume_integrand Cyl) = ev rho (gauss_integrand Cyl)) /\
  (forall rho, vq rho 0%nat <> 0 -> sin (vq rho 2%nat) <> 0 ->
     ev rho (volume_integrand Sph) = ev rho (gauss_integrand Sph)) /\
  (forall rho m n, (m <= 3)%nat -> (n <= 3)%nat ->
     ev rho (reparam_integrand m n) = ev rho (original_integrand_at_phi m n) * ev rho (D 0 phi)).

Lemma C13_partial : C13_pointwise.
Proof.
  repeat split.
  - intros; apply stokes_pointwise; lia.
  - apply green_pointwise.
  - apply planar_surface_element.
  - apply gauss_pointwise_cart.
  - apply gauss_pointwise_cyl.
  - apply gauss_pointwise_sph.
  - apply reparam_pointwise.
Qed.

From Coquelicot Require Import Coquelicot.

(* What is NOT proved: the analytic steps from the pointwise identities to the equality of the two NUMBERS the
   library computes, and the correctness of sympy.integrate.  Stated with Coquelicot's RInt / Derive so that the
   gap is a visible, precise Definition. *)
Definition C1_rect (f : R -> R -> R) : Prop :=
  forall u v, ex_derive (fun x => f x v) u /\ ex_derive (fun y => f u y) v /\
    continuity_2d_pt (fun x y => Derive (fun x' => f x' y) x) u v /\
    continuity_2d_pt (fun x y => Derive (fun y' => f x y') y) u v.

(* Green's theorem on a parameter rectangle [a,b] x [c,d] for a C^1 1-form P du + Q dv *)
Definition green_on_rectangle : Prop :=
  forall (P Q : R -> R -> R) (a b c d : R), C1_rect P -> C1_rect Q ->
    RInt (fun u => P u c) a b + RInt (fun v => Q b v) c d - RInt (fun u => P u d) a b - RInt (fun v => Q a v) c d
    = RInt (fun v => RInt (fun u => Derive (fun x => Q x v) u - Derive (fun y => P u y) v) a b) c d.

(* fundamental theorem of calculus + Fubini on a coordinate box for the three terms of gauss_integrand *)
Definition C1_box (f : R -> R -> R -> R) : Prop :=
  forall x y z, ex_derive (fun t => f t y z) x /\ ex_derive (fun t => f x t z) y /\ ex_derive (fun t => f x y t) z /\
    continuous (fun t => Derive (fun s => f s y z) t) x /\ continuous (fun t => Derive (fun s => f x s z) t) y /\
    continuous (fun t => Derive (fun s => f x y s) t) z.

Definition gauss_on_box : Prop :=
  forall (G1 G2 G3 : R -> R -> R -> R) (a1 b1 a2 b2 a3 b3 : R), C1_box G1 -> C1_box G2 -> C1_box G3 ->
    RInt (fun x => RInt (fun y => RInt (fun z =>
        Derive (fun t => G1 t y z) x + Derive (fun t => G2 x t z) y + Derive (fun t => G3 x y t) z) a3 b3) a2 b2) a1 b1
    = RInt (fun y => RInt (fun z => G1 b1 y z - G1 a1 y z) a3 b3) a2 b2
    + RInt (fun x => RInt (fun z => G2 x b2 z - G2 x a2 z) a3 b3) a1 b1
    + RInt (fun x => RInt (fun y => G3 x y b3 - G3 x y a3) a2 b2) a1 b1.

Definition C13_full_statement : Prop :=
  C13_pointwise /\ green_on_rectangle /\ gauss_on_box.

(* the one analytic step that IS available: integration by substitution, i.e. a parametrisation-speed change does
   not change the line integral once the integrand has the factor phi' (reparam_pointwise) *)
Lemma reparam_integral (g phi' phi0 : R -> R) (a b : R) :
  (forall s, Rmin a b <= s <= Rmax a b -> continuous g (phi0 s)) ->
  (forall s, Rmin a b <= s <= Rmax a b -> is_derive phi0 s (phi' s) /\ continuous phi' s) ->
  RInt (fun s => phi' s * g (phi0 s)) a b = RInt g (phi0 a) (phi0 b).
Proof.
  intros Hg Hphi.
  apply (RInt_comp g phi0 phi' a b); assumption.
Qed.

(* ---- non-vacuity ------------------------------------------------------------------------------------------ *)
(* the surface integrand is not identically zero in the model *)
Example stokes_integrand_not_trivial : exists rho, ev rho (stokes_surface_integrand 3 3) <> 0.
Proof.
  exists (mkval (fun _ => 0)
    (fun f a b c => match f, a, b, c with 11%nat, 1%nat, 0%nat, 0%nat => 1 | 12%nat, 0%nat, 1%nat, 0%nat => 1 | _, _, _, _ => 0 end)
    (fun f a b c => match f, a, b, c with 2%nat, 1%nat, 0%nat, 0%nat => 1 | _, _, _, _ => 0 end)).
  forms_cbn. cbn. lra.
Qed.
