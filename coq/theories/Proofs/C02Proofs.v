(* C02 -- static facts used once by the per-function obligations (which are generated, see harness/props/c02.py).

   A quantity written as  n * unit  carries the SI value  n * scale(unit)  (Quantity.__init__ multiplies the collected
   factors, property C05/C07); a calculation function is, after extraction, a real function F of the SI values of its
   arguments.  Hence two argument tuples that denote the same SI values give the same result, whatever units they are
   written in (`calc_unit_independent`); this is the only place where units enter C02, the generated lemmas
   `calc_*` speak about SI values.

   The two documented exceptions of the property are "magnitude of the solution" and "rounded-up integer of the
   solution": `ceil` is defined from the standard library's `up` and characterised here. *)
From Coq Require Import Reals Lra Lia List ZArith.
From VP Require Import Base.RTac Proofs.C02Tac.
Import ListNotations.
Local Open Scope R_scope.

(* value written as (number, SI scale of the unit it is written in) *)
Definition si_value (q : R * R) : R := fst q * snd q.

Lemma si_value_rescale (n s k : R) : k <> 0 -> si_value (n / k, s * k) = si_value (n, s).
Proof. intros Hk. unfold si_value; cbn. field. exact Hk. Qed.

Lemma calc_unit_independent (F : list R -> R) (qs1 qs2 : list (R * R)) :
  map si_value qs1 = map si_value qs2 -> F (map si_value qs1) = F (map si_value qs2).
Proof. intros ->. reflexivity. Qed.

(* rounded-up integer *)
Definition ceil (x : R) : Z := (- (up (- x)) + 1)%Z.

Lemma ceil_bounds (x : R) : x <= IZR (ceil x) < x + 1.
Proof.
  unfold ceil. destruct (archimed (- x)) as [H1 H2].
  rewrite plus_IZR, opp_IZR. cbn [IZR IPR]. split; lra.
Qed.

Lemma ceil_unique (x : R) (z : Z) : x <= IZR z < x + 1 -> z = ceil x.
Proof.
  intros [H1 H2]. destruct (ceil_bounds x) as [H3 H4].
  assert (Ha : (z < ceil x + 1)%Z) by (apply lt_IZR; rewrite plus_IZR; cbn [IZR IPR]; lra).
  assert (Hb : (ceil x < z + 1)%Z) by (apply lt_IZR; rewrite plus_IZR; cbn [IZR IPR]; lra).
  lia.
Qed.

Lemma ceil_of_integer (z : Z) : ceil (IZR z) = z.
Proof. symmetry. apply ceil_unique. split; lra. Qed.

(* magnitude: a function documented to return |s| for a solution s returns a solution whenever s >= 0, and the
   negated value is a solution otherwise *)
Lemma magnitude_exception (P : R -> Prop) (s : R) : P s -> P (Rabs s) \/ P (- Rabs s).
Proof.
  intros H. destruct (Rcase_abs s) as [Hn | Hp].
  - right. rewrite (Rabs_left s Hn). now rewrite Ropp_involutive.
  - left. now rewrite (Rabs_right s Hp).
Qed.

(* vector laws offered for different unknowns: the two forms  F = m a  and  a = F / m  are mutual inverses componentwise *)
Lemma scale_forms_inverse (m a : R) : m <> 0 -> (m * a) / m = a /\ m * (a / m) = a.
Proof. intros Hm. split; field; exact Hm. Qed.

Example ceil_example : ceil (5 / 2) = 3%Z.
Proof. symmetry. apply ceil_unique. cbn [IZR IPR IPR_2]. lra. Qed.

Example unit_example : si_value (2500, 1) = si_value (5 / 2, 1000).
Proof. unfold si_value; cbn. lra. Qed.
