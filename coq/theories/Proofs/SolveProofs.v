(* The rearrangement performed by solve_for_vector is equivalence preserving. *)
From Coq Require Import List NArith Reals Bool Lra Arith.
From VP Require Import Base.Util Model.Vec3 Model.Solve Proofs.Vec3Proofs.
Import ListNotations.
Local Open Scope R_scope.

Lemma eval_comb_nil rho : eval_comb rho [] = vzero. Proof. reflexivity. Qed.
Lemma eval_comb_cons rho v s c : eval_comb rho ((v, s) :: c) = vadd (vscale s (rho v)) (eval_comb rho c).
Proof. reflexivity. Qed.

Lemma find_term_spec atomic c i : find_term atomic c = Some i ->
  (i < length c)%nat /\ fst (nth i c (O, 0)) = atomic /\
  forall j, (j < i)%nat -> fst (nth j c (O, 0)) <> atomic.
Proof.
  revert i. induction c as [|[v s] r IH]; intros i; cbn [find_term]; [discriminate|].
  destruct (Nat.eqb_spec v atomic) as [E|N].
  - intros [= <-]. cbn. split; [apply Nat.lt_0_succ|]. split; [assumption|]. intros j Hj. inversion Hj.
  - destruct (find_term atomic r) as [i'|] eqn:F; [|discriminate]. intros [= <-].
    destruct (IH i' eq_refl) as (H1 & H2 & H3). cbn [length nth]. split; [apply -> Nat.succ_lt_mono; exact H1|].
    split; [exact H2|]. intros [|j] Hj; cbn [nth fst]; [exact N|]. apply H3. apply Nat.succ_lt_mono. exact Hj.
Qed.

Lemma find_term_none atomic c : find_term atomic c = None <-> ~ In atomic (map fst c).
Proof.
  induction c as [|[v s] r IH]; cbn [find_term map fst In]; [tauto|].
  destruct (Nat.eqb_spec v atomic) as [E|N].
  - split; [discriminate|]. intros H. exfalso. apply H. left. exact E.
  - destruct (find_term atomic r) as [n|].
    + split; [discriminate|]. intros H. exfalso.
      assert (G : ~ In atomic (map fst r)) by tauto. apply (proj2 IH) in G. discriminate.
    + split; [|reflexivity]. intros _ [H|H]; [contradiction|]. apply (proj1 IH); [reflexivity|exact H].
Qed.

(* the expression is the selected term plus the rest *)
Lemma eval_split rho c i : (i < length c)%nat ->
  eval_comb rho c = vadd (vscale (scale_of i c) (rho (fst (nth i c (O, 0))))) (eval_comb rho (drop_nth i c)).
Proof.
  revert i. induction c as [|[v s] r IH]; intros i Hi; [inversion Hi|].
  destruct i as [|i]; cbn [drop_nth]; unfold scale_of; cbn [nth fst snd].
  - reflexivity.
  - rewrite !eval_comb_cons. rewrite (IH i) by (apply Nat.succ_lt_mono; exact Hi). unfold scale_of.
    v3_ring.
Qed.

Lemma eval_map_scale rho k c :
  eval_comb rho (map (fun vs => (fst vs, -1 * snd vs / k)) c) = vscale (-1 / k) (eval_comb rho c).
Proof.
  induction c as [|[v s] r IH]; cbn [map fst snd].
  - rewrite eval_comb_nil, vscale_vzero. reflexivity.
  - rewrite !eval_comb_cons, IH, vscale_vadd, vscale_vscale. f_equal. f_equal. unfold Rdiv. ring.
Qed.

Section Solve.
Context (rho : vid -> V3).

(* reduce_factor = True:  lhs - rhs = (1 / k_i) * expr,  k_i the (non-zero) coefficient of the chosen term *)
Theorem solve_reduce c atomic lhs rhs : solve_for_vector (Some c) atomic true = Solved lhs rhs ->
  exists i, find_term atomic c = Some i /\
    (scale_of i c <> 0 ->
     vsub (eval_comb rho lhs) (eval_comb rho rhs) = vscale (1 / scale_of i c) (eval_comb rho c)).
Proof.
  unfold solve_for_vector. destruct (find_term atomic c) as [i|] eqn:F; [|discriminate].
  intros [= <- <-]. exists i. split; [reflexivity|]. intros Hk.
  destruct (find_term_spec _ _ _ F) as (Hi & Hv & _).
  rewrite (eval_split rho c i Hi), Hv, eval_map_scale, eval_comb_cons, eval_comb_nil.
  set (k := scale_of i c) in *. set (rest := eval_comb rho (drop_nth i c)). set (a := rho atomic).
  destruct a as [ax ay az], rest as [rx ry rz].
  apply v3_eq; unfold vsub, vneg, vadd, vscale, vzero; cbn [vx vy vz]; field; exact Hk.
Qed.

(* reduce_factor = False:  rhs - lhs = expr *)
Theorem solve_noreduce c atomic lhs rhs : solve_for_vector (Some c) atomic false = Solved lhs rhs ->
  vsub (eval_comb rho rhs) (eval_comb rho lhs) = eval_comb rho c.
Proof.
  unfold solve_for_vector. destruct (find_term atomic c) as [i|] eqn:F; [|discriminate].
  intros [= <- <-].
  destruct (find_term_spec _ _ _ F) as (Hi & Hv & _).
  rewrite (eval_split rho c i Hi), Hv, eval_comb_cons, eval_comb_nil.
  v3_ring.
Qed.

(* when the coefficient is non-zero, the returned equation holds exactly when the original expression vanishes;
   so if the vector occurs in no other term (and in no coefficient) the right-hand side is its solution *)
Theorem solve_is_solution c atomic lhs rhs : solve_for_vector (Some c) atomic true = Solved lhs rhs ->
  exists i, find_term atomic c = Some i /\
    (scale_of i c <> 0 -> (eval_comb rho c = vzero <-> rho atomic = eval_comb rho rhs)).
Proof.
  intros Hs. destruct (solve_reduce c atomic lhs rhs Hs) as (i & F & E). exists i. split; [exact F|].
  intros Hk. specialize (E Hk).
  assert (Hl : eval_comb rho lhs = rho atomic).
  { unfold solve_for_vector in Hs. rewrite F in Hs. injection Hs as <- _.
    rewrite eval_comb_cons, eval_comb_nil. v3_ring. }
  rewrite Hl in E. split; intros H.
  - rewrite H, vscale_vzero in E.
    destruct (rho atomic) as [ax ay az], (eval_comb rho rhs) as [rx ry rz].
    unfold vsub, vneg, vadd, vscale, vzero in E. cbn [vx vy vz] in E. injection E as E1 E2 E3.
    apply v3_eq; cbn [vx vy vz]; lra.
  - rewrite H, vsub_self in E.
    assert (G : eval_comb rho c = vscale (scale_of i c) (vscale (1 / scale_of i c) (eval_comb rho c))).
    { rewrite vscale_vscale. replace (scale_of i c * (1 / scale_of i c)) with 1 by (field; exact Hk).
      rewrite vscale_one. reflexivity. }
    rewrite G, <- E, vscale_vzero. reflexivity.
Qed.

(* refusals, exactly *)
Theorem refuses_non_vector atomic b : solve_for_vector None atomic b = Refused E_TYPE.
Proof. reflexivity. Qed.

Theorem refuses_absent_vector c atomic b :
  ~ In atomic (map fst c) <-> solve_for_vector (Some c) atomic b = Refused E_VALUE.
Proof.
  unfold solve_for_vector. rewrite <- find_term_none.
  destruct (find_term atomic c); split; try discriminate; try reflexivity.
  destruct b; discriminate.
Qed.

Theorem solves_present_vector c atomic b :
  In atomic (map fst c) <-> exists lhs rhs, solve_for_vector (Some c) atomic b = Solved lhs rhs.
Proof.
  split.
  - intros Hin. destruct (solve_for_vector (Some c) atomic b) as [l r|e] eqn:E; [eauto|].
    exfalso. unfold solve_for_vector in E. destruct (find_term atomic c) eqn:F.
    + destruct b; discriminate.
    + apply find_term_none in F. contradiction.
  - intros (l & r & E). destruct (in_dec Nat.eq_dec atomic (map fst c)) as [H|H]; [exact H|].
    apply (refuses_absent_vector c atomic b) in H. congruence.
Qed.

End Solve.

(* apply: the function reaches both sides; an equation that holds still holds *)
Theorem apply_both_sides {T U} (zero : T) (f : T -> U) (l r e : T) :
  apply_eq zero f (AnEq l r) = (f l, f r) /\ apply_eq zero f (AnExpr e) = (f e, f zero) /\
  (l = r -> fst (apply_eq zero f (AnEq l r)) = snd (apply_eq zero f (AnEq l r))) /\
  (e = zero -> fst (apply_eq zero f (AnExpr e)) = snd (apply_eq zero f (AnExpr e))).
Proof. cbn. repeat split; intros; subst; reflexivity. Qed.

(* non-vacuity: 2 a - b + c solved for b, and for a without reducing the factor *)
Example solve_ex1 (rho : vid -> V3) :
  solve_for_vector (Some [(0%nat, 2); (1%nat, -1); (2%nat, 1)]) 1%nat true =
  Solved [(1%nat, 1)] [(0%nat, -1 * 2 / -1); (2%nat, -1 * 1 / -1)].
Proof. reflexivity. Qed.
Example solve_ex2 :
  solve_for_vector (Some [(0%nat, 2); (1%nat, -1); (2%nat, 1)]) 0%nat false =
  Solved [(0%nat, -1 * 2)] [(1%nat, -1); (2%nat, 1)].
Proof. reflexivity. Qed.
Example solve_ex3 : solve_for_vector (Some [(0%nat, 1); (2%nat, 1)]) 1%nat true = Refused E_VALUE.
Proof. reflexivity. Qed.
