(* C11 -- lemmas about Model/Coords.v, and the tactic used by the generated correspondence lemmas. *)
From Coq Require Import Reals Lra Psatz Field List Bool Nsatz.
From VP Require Import Base.Atan2 Model.Coords.
Import ListNotations.
Local Open Scope R_scope.

(* ================================================================================================== *)
(* Tactic for generated `implementation output = model formula` goals: both sides are built from the   *)
(* same function symbols, but SymPy orders sums/products its own way and writes x^2 for x*x.           *)
(* ================================================================================================== *)

Ltac vp_alg := first [ reflexivity | ring | (unfold Rdiv; ring) | (field; repeat split; assumption) ].

(* make the arguments of the occurrences of a unary / binary / ternary function syntactically equal whenever they
   are provably (ring) equal.  The distinct arguments are collected first, so the number of ring calls is quadratic
   in the number of DISTINCT arguments only. *)
Inductive vp_nil : Prop := vp_nil_intro.

Ltac vp_collect1 f acc :=
  match goal with
  | |- context [f ?a] =>
      lazymatch acc with
      | context [a] => fail
      | _ => vp_collect1 f (a, acc)
      end
  | _ => acc
  end.

Ltac vp_try_merge1 f a rest :=
  lazymatch rest with
  | (?b, ?rest') =>
      try (replace (f a) with (f b) by (apply f_equal; vp_alg));
      vp_try_merge1 f a rest'
  | _ => idtac
  end.

Ltac vp_merge_all1 f l :=
  lazymatch l with
  | (?a, ?rest) => vp_try_merge1 f a rest; vp_merge_all1 f rest
  | _ => idtac
  end.

Ltac vp_unify1 f := let l := vp_collect1 f vp_nil_intro in vp_merge_all1 f l.

Ltac vp_unify2 f :=
  repeat match goal with
  | |- context [f ?a1 ?a2] =>
      match goal with
      | |- context [f ?b1 ?b2] =>
          tryif (constr_eq a1 b1; constr_eq a2 b2) then fail
          else (replace (f a1 a2) with (f b1 b2) by (apply f_equal2; vp_alg))
      end
  end.

Ltac vp_unify3 f :=
  repeat match goal with
  | |- context [f ?a1 ?a2 ?a3] =>
      match goal with
      | |- context [f ?b1 ?b2 ?b3] =>
          tryif (constr_eq a1 b1; constr_eq a2 b2; constr_eq a3 b3) then fail
          else (replace (f a1 a2 a3) with (f b1 b2 b3) by (apply f_equal3; vp_alg))
      end
  end.

(* literal zeros produced by padding short vectors *)
Ltac vp_zero :=
  repeat match goal with
  | |- context [?a - ?a] => replace (a - a) with 0 by ring
  | |- context [0 / ?d] => replace (0 / d) with 0 by (unfold Rdiv; ring)
  | |- context [sin 0] => rewrite sin_0
  | |- context [cos 0] => rewrite cos_0
  | |- context [acos 0] => rewrite acos_0
  end.

Ltac vp_trig_args :=
  vp_unify1 sqrt; vp_unify2 atan2; vp_unify1 acos; vp_unify1 cos; vp_unify1 sin;
  vp_unify1 sqrt; vp_unify1 acos.

Ltac vp_corr1 :=
  first
  [ reflexivity
  | ring
  | solve [ vp_trig_args; vp_alg ]
  | solve [ vp_zero; vp_trig_args; vp_zero; vp_alg ]
  | solve [ ring_simplify; vp_zero; vp_trig_args; vp_zero; vp_alg ] ].

Ltac vp_split3 :=
  repeat match goal with
  | |- (_, _) = (_, _) => apply f_equal2
  | |- Some _ = Some _ => apply f_equal
  end.

Ltac vp_corr :=
  intros;
  cbv beta iota delta [cart_to_cyl cart_to_sph cyl_to_cart sph_to_cart transformation rebase pad List.nth to_cart
                       dot magnitude scale smul apply_field field_rebase to_parent from_parent curv_rotated_to_parent];
  vp_split3; vp_corr1.

Lemma vp_some_inj {A : Type} (a b : A) : Some a = Some b -> a = b.
Proof. intros E. inversion E. reflexivity. Qed.

(* ================================================================================================== *)
(* square roots                                                                                         *)
(* ================================================================================================== *)

Lemma sq_sum3_pos (x y z : R) : (x, y) <> (0, 0) -> 0 < x * x + y * y + z * z.
Proof. intros H. apply pair_neq_00 in H. nra. Qed.

Lemma polar_ratio_bounds (x y z : R) :
  (x, y) <> (0, 0) -> -1 <= z / sqrt (x * x + y * y + z * z) <= 1.
Proof.
  intros H. pose proof (sq_sum3_pos x y z H) as Hp.
  assert (Hs : 0 < sqrt (x * x + y * y + z * z)) by (apply sqrt_lt_R0; exact Hp).
  assert (Hq : sqrt (x * x + y * y + z * z) * sqrt (x * x + y * y + z * z) = x * x + y * y + z * z)
    by (apply sqrt_sqrt; lra).
  set (s := sqrt (x * x + y * y + z * z)) in *.
  assert (Hz : - s <= z <= s) by (split; nra).
  split.
  - apply Rmult_le_reg_r with s; [exact Hs|]. unfold Rdiv. rewrite Rmult_assoc, Rinv_l by lra. lra.
  - apply Rmult_le_reg_r with s; [exact Hs|]. unfold Rdiv. rewrite Rmult_assoc, Rinv_l by lra. lra.
Qed.

Lemma sin_polar (x y z : R) :
  (x, y) <> (0, 0) ->
  sin (acos (z / sqrt (x * x + y * y + z * z))) = sqrt (x * x + y * y) / sqrt (x * x + y * y + z * z).
Proof.
  intros H. pose proof (sq_sum3_pos x y z H) as Hp. pose proof (hyp_pos x y H) as Hh.
  assert (Hs : 0 < sqrt (x * x + y * y + z * z)) by (apply sqrt_lt_R0; exact Hp).
  rewrite sin_acos by (apply polar_ratio_bounds; exact H).
  assert (Hq : sqrt (x * x + y * y + z * z) * sqrt (x * x + y * y + z * z) = x * x + y * y + z * z)
    by (apply sqrt_sqrt; lra).
  assert (Hq2 : sqrt (x * x + y * y) * sqrt (x * x + y * y) = x * x + y * y)
    by (apply sqrt_sqrt; apply pair_neq_00 in H; lra).
  replace (1 - (z / sqrt (x * x + y * y + z * z))²)
    with ((sqrt (x * x + y * y) / sqrt (x * x + y * y + z * z))²).
  - apply sqrt_Rsqr. apply Rlt_le. apply Rdiv_lt_0_compat; assumption.
  - unfold Rsqr. set (s := sqrt (x * x + y * y + z * z)) in *. set (h := sqrt (x * x + y * y)) in *.
    apply Rmult_eq_reg_r with (s * s); [| nra]. field_simplify; [| lra | lra]. nra.
Qed.

(* ================================================================================================== *)
(* round trips                                                                                          *)
(* ================================================================================================== *)

Lemma cart_cyl_cart (x y z : R) :
  (x, y) <> (0, 0) -> cyl_to_cart (cart_to_cyl (x, y, z)) = (x, y, z).
Proof.
  intros H. pose proof (hyp_pos x y H) as Hh. cbv [cyl_to_cart cart_to_cyl].
  rewrite atan2_cos, atan2_sin by exact H.
  vp_split3; try reflexivity; field; lra.
Qed.

Lemma cart_sph_cart (x y z : R) :
  (x, y) <> (0, 0) -> sph_to_cart (cart_to_sph (x, y, z)) = (x, y, z).
Proof.
  intros H. pose proof (hyp_pos x y H) as Hh. pose proof (sq_sum3_pos x y z H) as Hp.
  assert (Hs : 0 < sqrt (x * x + y * y + z * z)) by (apply sqrt_lt_R0; exact Hp).
  cbv [sph_to_cart cart_to_sph].
  rewrite atan2_cos, atan2_sin by exact H.
  rewrite sin_polar by exact H.
  rewrite cos_acos by (apply polar_ratio_bounds; exact H).
  vp_split3; field; lra.
Qed.

Lemma cyl_cart_cyl (r t z : R) :
  0 < r -> - PI < t <= PI -> cart_to_cyl (cyl_to_cart (r, t, z)) = (r, t, z).
Proof.
  intros Hr Ht. cbv [cyl_to_cart cart_to_cyl].
  rewrite polar_hyp by lra. rewrite atan2_polar by assumption. reflexivity.
Qed.

Lemma sph_radius (r t f : R) :
  0 <= r ->
  sqrt (r * cos t * sin f * (r * cos t * sin f) + r * sin t * sin f * (r * sin t * sin f)
        + r * cos f * (r * cos f)) = r.
Proof.
  intros Hr.
  replace (r * cos t * sin f * (r * cos t * sin f) + r * sin t * sin f * (r * sin t * sin f)
           + r * cos f * (r * cos f)) with (r * r).
  - apply sqrt_square. exact Hr.
  - pose proof (sin2_cos2 t) as E1. pose proof (sin2_cos2 f) as E2. unfold Rsqr in *.
    replace (r * cos t * sin f * (r * cos t * sin f) + r * sin t * sin f * (r * sin t * sin f)
             + r * cos f * (r * cos f))
      with (r * r * (sin f * sin f * (sin t * sin t + cos t * cos t) + cos f * cos f)) by ring.
    rewrite E1. replace (sin f * sin f * 1 + cos f * cos f) with 1 by lra. ring.
Qed.

Lemma sph_cart_sph (r t f : R) :
  0 < r -> - PI < t <= PI -> 0 < f < PI -> cart_to_sph (sph_to_cart (r, t, f)) = (r, t, f).
Proof.
  intros Hr Ht Hf. cbv [sph_to_cart cart_to_sph].
  rewrite sph_radius by lra.
  assert (Hsf : 0 < sin f) by (apply sin_gt_0; lra).
  replace (r * sin t * sin f) with ((r * sin f) * sin t) by ring.
  replace (r * cos t * sin f) with ((r * sin f) * cos t) by ring.
  rewrite atan2_polar by (try assumption; nra).
  replace (r * cos f / r) with (cos f) by (field; lra).
  rewrite acos_cos by lra. reflexivity.
Qed.

(* weaker forms that hold for every angle: the Cartesian point and cos/sin of the azimuth are preserved *)
Lemma cyl_cart_cyl_trig (r t z : R) :
  0 < r ->
  let '(r', t', z') := cart_to_cyl (cyl_to_cart (r, t, z)) in
  r' = r /\ cos t' = cos t /\ sin t' = sin t /\ z' = z /\ - PI < t' <= PI.
Proof.
  intros Hr. cbv [cyl_to_cart cart_to_cyl].
  rewrite polar_hyp by lra.
  repeat split; try apply atan2_range.
  - apply atan2_polar_cos. exact Hr.
  - apply atan2_polar_sin. exact Hr.
Qed.

(* ================================================================================================== *)
(* dot product, magnitude, scaling                                                                      *)
(* ================================================================================================== *)

Lemma dot_cyl_is_cart_dot (u v : V3) : dot Cyl u v = dot Cart (cyl_to_cart u) (cyl_to_cart v).
Proof.
  destruct u as [[r1 t1] z1], v as [[r2 t2] z2]. cbv [dot cyl_to_cart].
  rewrite cos_minus. ring.
Qed.

Lemma dot_sph_is_cart_dot (u v : V3) : dot Sph u v = dot Cart (sph_to_cart u) (sph_to_cart v).
Proof.
  destruct u as [[r1 t1] f1], v as [[r2 t2] f2]. cbv [dot sph_to_cart].
  rewrite cos_minus. ring.
Qed.

Lemma dot_is_cart_dot (s : sys) (u v : V3) : dot s u v = dot Cart (to_cart s u) (to_cart s v).
Proof.
  destruct s; cbn [to_cart]; [reflexivity | apply dot_cyl_is_cart_dot | apply dot_sph_is_cart_dot].
Qed.

Lemma magnitude_is_cart_magnitude (s : sys) (u : V3) : magnitude s u = magnitude Cart (to_cart s u).
Proof. unfold magnitude. rewrite (dot_is_cart_dot s). reflexivity. Qed.

(* dot products of Cartesian vectors may be computed after re-expression in the curvilinear system *)
Lemma dot_cart_via_cyl (u v : V3) :
  off_axis u -> off_axis v -> dot Cyl (cart_to_cyl u) (cart_to_cyl v) = dot Cart u v.
Proof.
  destruct u as [[x1 y1] z1], v as [[x2 y2] z2]. cbn [off_axis]. intros Hu Hv.
  rewrite dot_cyl_is_cart_dot, !cart_cyl_cart by assumption. reflexivity.
Qed.

Lemma dot_cart_via_sph (u v : V3) :
  off_axis u -> off_axis v -> dot Sph (cart_to_sph u) (cart_to_sph v) = dot Cart u v.
Proof.
  destruct u as [[x1 y1] z1], v as [[x2 y2] z2]. cbn [off_axis]. intros Hu Hv.
  rewrite dot_sph_is_cart_dot, !cart_sph_cart by assumption. reflexivity.
Qed.

Lemma scale_cyl_commutes (k : R) (u : V3) : cyl_to_cart (scale Cyl k u) = smul k (cyl_to_cart u).
Proof. destruct u as [[r t] z]. cbv [scale cyl_to_cart smul]. vp_split3; ring. Qed.

Lemma scale_sph_commutes (k : R) (u : V3) : sph_to_cart (scale Sph k u) = smul k (sph_to_cart u).
Proof. destruct u as [[r t] f]. cbv [scale sph_to_cart smul]. vp_split3; ring. Qed.

Lemma scale_commutes (s : sys) (k : R) (u : V3) : to_cart s (scale s k u) = smul k (to_cart s u).
Proof.
  destruct s; cbn [to_cart].
  - destruct u as [[x y] z]. reflexivity.
  - apply scale_cyl_commutes.
  - apply scale_sph_commutes.
Qed.

(* the magnitude is the absolute value of the radial component *)
Lemma magnitude_cyl_value (r t z : R) : magnitude Cyl (r, t, z) = sqrt (r * r + z * z).
Proof.
  unfold magnitude. cbv [dot]. replace (t - t) with 0 by ring. rewrite cos_0. f_equal. ring.
Qed.

Lemma magnitude_sph_value (r t f : R) : magnitude Sph (r, t, f) = Rabs r.
Proof.
  unfold magnitude. cbv [dot]. replace (t - t) with 0 by ring. rewrite cos_0.
  pose proof (sin2_cos2 f) as E. unfold Rsqr in E.
  replace (r * r * (sin f * sin f * 1 + cos f * cos f)) with (r * r) by (rewrite Rmult_1_r, E; ring).
  replace (r * r) with (r²) by reflexivity. apply sqrt_Rsqr_abs.
Qed.

(* ================================================================================================== *)
(* a rebased vector denotes the same point                                                              *)
(* ================================================================================================== *)

Lemma rebase_same_point (a b : sys) (T : V3 -> V3) (p : V3) :
  transformation a b = Some T -> (a = Cart -> b <> Cart -> off_axis p) -> to_cart b (T p) = to_cart a p.
Proof.
  destruct p as [[p1 p2] p3].
  destruct a, b; cbn [transformation]; intros E H; inversion E; subst T; cbn [to_cart]; try reflexivity.
  - apply cart_cyl_cart. apply H; [reflexivity | discriminate].
  - apply cart_sph_cart. apply H; [reflexivity | discriminate].
Qed.

Lemma to_cart_injective (s : sys) (p q : V3) :
  in_domain s p -> in_domain s q -> to_cart s p = to_cart s q -> p = q.
Proof.
  destruct p as [[p1 p2] p3], q as [[q1 q2] q3].
  destruct s; cbn [in_domain to_cart]; intros Hp Hq E.
  - exact E.
  - destruct Hp as [? ?], Hq as [? ?].
    rewrite <- (cyl_cart_cyl p1 p2 p3), <- (cyl_cart_cyl q1 q2 q3) by assumption. rewrite E. reflexivity.
  - destruct Hp as [? [? ?]], Hq as [? [? ?]].
    rewrite <- (sph_cart_sph p1 p2 p3), <- (sph_cart_sph q1 q2 q3) by assumption. rewrite E. reflexivity.
Qed.

(* ================================================================================================== *)
(* scalar fields                                                                                        *)
(* ================================================================================================== *)

(* a Cartesian field re-expressed in a curvilinear system: same value at every coordinate triple *)
Lemma field_cart_to_curv (b : sys) (f g : field) (q : V3) :
  field_rebase Cart b f = Some g -> apply_field g q = apply_field f (to_cart b q).
Proof.
  destruct q as [[q1 q2] q3].
  destruct b; cbn [field_rebase transformation]; intros E; inversion E; subst g; reflexivity.
Qed.

(* a curvilinear field re-expressed in Cartesian coordinates: same value at the point with coordinates p *)
Lemma field_curv_to_cart (a : sys) (f g : field) (p : V3) :
  field_rebase a Cart f = Some g -> in_domain a p -> apply_field g (to_cart a p) = apply_field f p.
Proof.
  destruct p as [[p1 p2] p3].
  destruct a; cbn [field_rebase transformation in_domain to_cart]; intros E D; inversion E; subst g.
  - reflexivity.
  - destruct D as [? ?].
    change (apply_field f (cart_to_cyl (cyl_to_cart (p1, p2, p3))) = apply_field f (p1, p2, p3)).
    rewrite cyl_cart_cyl by assumption. reflexivity.
  - destruct D as [? [? ?]].
    change (apply_field f (cart_to_sph (sph_to_cart (p1, p2, p3))) = apply_field f (p1, p2, p3)).
    rewrite sph_cart_sph by assumption. reflexivity.
Qed.

(* general form: whenever the rebase is answered, values agree at coordinates of the same physical point *)
Lemma field_invariance (a b : sys) (f g : field) (p q : V3) :
  field_rebase a b f = Some g ->
  in_domain a p -> in_domain b q -> to_cart a p = to_cart b q ->
  apply_field g q = apply_field f p.
Proof.
  intros E Dp Dq Epq.
  destruct a, b; try discriminate E.
  - (* Cart Cart *) cbn [to_cart] in Epq. subst q. destruct p as [[p1 p2] p3].
    cbn in E. inversion E. reflexivity.
  - rewrite (field_cart_to_curv Cyl f g q E). rewrite <- Epq. reflexivity.
  - rewrite (field_cart_to_curv Sph f g q E). rewrite <- Epq. reflexivity.
  - change (to_cart Cart q) with q in Epq. subst q. apply (field_curv_to_cart Cyl); assumption.
  - assert (p = q) by (apply (to_cart_injective Cyl); assumption). subst q.
    destruct p as [[p1 p2] p3]. cbn in E. inversion E. reflexivity.
  - change (to_cart Cart q) with q in Epq. subst q. apply (field_curv_to_cart Sph); assumption.
  - assert (p = q) by (apply (to_cart_injective Sph); assumption). subst q.
    destruct p as [[p1 p2] p3]. cbn in E. inversion E. reflexivity.
Qed.

(* ================================================================================================== *)
(* refusals (finite tables)                                                                             *)
(* ================================================================================================== *)

Lemma transformation_refused_iff (a b : sys) :
  transformation_supported a b = false <-> (a = Cyl /\ b = Sph) \/ (a = Sph /\ b = Cyl).
Proof.
  destruct a, b; cbv [transformation_supported transformation]; split; intros H;
    try discriminate; try reflexivity; try (left; split; reflexivity); try (right; split; reflexivity);
    destruct H as [[? ?] | [? ?]]; discriminate.
Qed.

Lemma rebase_refused_iff (a b : sys) (l : list R) :
  rebase a b l = None <-> (a = Cyl /\ b = Sph) \/ (a = Sph /\ b = Cyl).
Proof.
  rewrite <- transformation_refused_iff. unfold rebase, transformation_supported.
  destruct (transformation a b); split; intros H; try discriminate; reflexivity.
Qed.

Lemma field_rebase_refused_iff (a b : sys) (f : field) :
  field_rebase a b f = None <-> (a = Cyl /\ b = Sph) \/ (a = Sph /\ b = Cyl).
Proof.
  destruct a, b; cbv [field_rebase transformation]; split; intros H;
    try discriminate; try reflexivity; try (left; split; reflexivity); try (right; split; reflexivity);
    destruct H as [[? ?] | [? ?]]; discriminate.
Qed.

Lemma typed_point_refused_iff (s fs : sys) :
  field_call true (PTyped s) fs = Refused <-> s <> fs.
Proof.
  destruct s, fs; cbv [field_call negb sys_eqb]; split; intros H;
    try discriminate; try reflexivity; try (exfalso; apply H; reflexivity); intro; discriminate.
Qed.

Lemma typed_point_applied_iff (s fs : sys) :
  field_call true (PTyped s) fs = Applied <-> s = fs.
Proof.
  destruct s, fs; cbv [field_call negb sys_eqb]; split; intros H; try discriminate; reflexivity.
Qed.

(* ================================================================================================== *)
(* non-vacuity                                                                                          *)
(* ================================================================================================== *)

Example domain_cyl_inhabited : in_domain Cyl (1, 0, 0).
Proof. cbn. pose proof PI_RGT_0. lra. Qed.

Example domain_sph_inhabited : in_domain Sph (1, 0, PI / 2).
Proof. cbn. pose proof PI_RGT_0. lra. Qed.

Example off_axis_inhabited : off_axis (1, 0, 0).
Proof. cbn. intros E. inversion E. lra. Qed.

Example cyl_example : cyl_to_cart (2, PI / 2, 3) = (2 * 0, 2 * 1, 3).
Proof. cbv [cyl_to_cart]. rewrite cos_PI2, sin_PI2. reflexivity. Qed.

Example sph_example_polar_axis : sph_to_cart (2, 0, 0) = (2 * 1 * 0, 2 * 0 * 0, 2 * 1).
Proof. cbv [sph_to_cart]. rewrite cos_0, sin_0. reflexivity. Qed.

(* the scalar-field statement is not vacuous: a non-constant field and a point where both sides are defined *)
Example field_example :
  exists g, field_rebase Cart Cyl (fun x y z => x + z) = Some g /\ g 2 0 5 = 2 * 1 + 5.
Proof. eexists. split; [reflexivity|]. cbv [apply_field cyl_to_cart]. rewrite cos_0. reflexivity. Qed.

(* ================================================================================================== *)
(* rotated frames                                                                                       *)
(* ================================================================================================== *)

Lemma sq_trig' (t : R) : sin t * sin t + cos t * cos t = 1.
Proof. pose proof (sin2_cos2 t) as E. unfold Rsqr in E. exact E. Qed.

Lemma from_to_parent (ax : axis) (al : R) (p : V3) : from_parent ax al (to_parent ax al p) = p.
Proof.
  destruct p as [[x y] z]. pose proof (sq_trig' al) as E.
  destruct ax; cbv [from_parent to_parent]; rewrite cos_neg, sin_neg;
    set (c := cos al) in *; set (sn := sin al) in *; clearbody c sn; vp_split3; try reflexivity; solve [nsatz].
Qed.

Lemma to_from_parent (ax : axis) (al : R) (p : V3) : to_parent ax al (from_parent ax al p) = p.
Proof.
  destruct p as [[x y] z]. pose proof (sq_trig' al) as E.
  destruct ax; cbv [from_parent to_parent]; rewrite cos_neg, sin_neg;
    set (c := cos al) in *; set (sn := sin al) in *; clearbody c sn; vp_split3; try reflexivity; solve [nsatz].
Qed.

Lemma to_parent_dot (ax : axis) (al : R) (u v : V3) :
  dot Cart (to_parent ax al u) (to_parent ax al v) = dot Cart u v.
Proof.
  destruct u as [[x1 y1] z1], v as [[x2 y2] z2]. pose proof (sq_trig' al) as E.
  destruct ax; cbv [dot to_parent]; set (c := cos al) in *; set (sn := sin al) in *; clearbody c sn; solve [nsatz].
Qed.

(* dot products / magnitudes computed in a curvilinear child of a rotated frame equal those of the vectors
   re-expressed in the parent Cartesian frame *)
Lemma dot_curv_rotated (s : sys) (ax : axis) (al : R) (u v : V3) :
  dot s u v = dot Cart (curv_rotated_to_parent s ax al u) (curv_rotated_to_parent s ax al v).
Proof. unfold curv_rotated_to_parent. rewrite to_parent_dot. apply dot_is_cart_dot. Qed.

(* there and back across type change and rotation *)
Lemma curv_rotated_roundtrip (s : sys) (ax : axis) (al : R) (p q : V3) :
  in_domain s p -> in_domain s q ->
  from_parent ax al (curv_rotated_to_parent s ax al p) = to_cart s q -> p = q.
Proof.
  intros Hp Hq E. unfold curv_rotated_to_parent in E. rewrite from_to_parent in E.
  apply (to_cart_injective s); assumption.
Qed.

(* ================================================================================================== *)
(* points                                                                                               *)
(* ================================================================================================== *)

Lemma pget_nil {A : Type} (zero : A) (i : nat) : pget zero [] i = zero.
Proof. unfold pget. destruct i; reflexivity. Qed.

Lemma pget_pset_same {A : Type} (zero : A) (l : list A) (i : nat) (v : A) : pget zero (pset zero l i v) i = v.
Proof.
  revert l. induction i as [| i IH]; intros l; destruct l as [| h t]; cbn; try reflexivity; apply IH.
Qed.

Lemma pget_pset_other {A : Type} (zero : A) (l : list A) (i j : nat) (v : A) :
  i <> j -> pget zero (pset zero l i v) j = pget zero l j.
Proof.
  revert l j. induction i as [| i IH]; intros l j H; destruct l as [| h t]; destruct j as [| j]; cbn;
    try reflexivity; try (exfalso; apply H; reflexivity).
  - destruct j; reflexivity.
  - unfold pget in IH. rewrite (IH [] j) by (intro; apply H; f_equal; assumption). destruct j; reflexivity.
  - apply (IH t j). intro; apply H; f_equal; assumption.
Qed.

Lemma pset_length {A : Type} (zero : A) (l : list A) (i : nat) (v : A) :
  length (pset zero l i v) = Nat.max (length l) (S i).
Proof.
  revert l. induction i as [| i IH]; intros l; destruct l as [| h t]; cbn [pset length]; try reflexivity.
  - destruct (length t); reflexivity.
  - rewrite (IH []). cbn [length]. reflexivity.
  - rewrite (IH t). reflexivity.
Qed.
