(* C05, whole-tree characterisation of Model/CollectQ.v.

   Part A.  A declarative well-formedness judgment WF written from the property text (no evaluation order,
            no accumulators, no error codes), and
              collect_accepts_iff_WF      : (exists r, collect e = Ok r)  <-> WF e        for EVERY tree e
              collect_refuses_iff_not_WF  : (exists k, collect e = Err k) <-> ~ WF e
              collect_order_irrelevant    : acceptance of Add/Min/Max/Mul is invariant under Permutation.
   Part B.  A declarative "dimensional product of the parts" nominal_dim, and
              collect_dim_is_product      : on trees all of whose sub-values are finite, the collected
                                            dimension is deq to nominal_dim unless the value is of any dimension.

   Where WF speaks of "the dimension of a term" it means the dimension of the quantity built from that term,
   i.e. `collect` of the CHILD (which WF forces to be accepted).  An order-free *function* for that dimension
   does not exist on all trees: with infinite factors the model's dimension depends on the order of the factors
   (see collected_dim_order_dependent below), so the node conditions are stated on the children's collected
   (value, dimension) pairs through order-free predicates (pairwise_equiv, Forall), and Part B ties those pairs
   to the purely declarative nominal_dim on the finite fragment. *)
From Coq Require Import List QArith ZArith Bool NArith Lia Permutation Qround Qpower Qabs.
From VP Require Import Base.Util Base.Dim Base.Val Model.CollectQ Proofs.DimProofs Proofs.CollectQProofs.
Import ListNotations.

(* ================================================================================================ *)
(* Part A : well-formedness                                                                          *)
(* ================================================================================================ *)

(* "of any dimension or dimensionless" *)
Definition any_or_dimensionless (t : val * dim) : Prop :=
  is_any (fst t) = true \/ dimensionless (snd t) = true.

(* no NaN / zoo among the values (sympy: "The argument is not comparable") *)
Definition all_comparable (ts : list (val * dim)) : Prop :=
  Forall (fun t => comparable (fst t) = true) ts.

Inductive WF : qexpr -> Prop :=
| WF_num v : is_number v = true -> WF (QNum v)
| WF_qty v d : WF (QQty v d)
| WF_prefix v : WF (QPrefix v)
| WF_mul l : l <> [] -> Forall WF l -> WF (QMul l)
| WF_pow b x bf bd ef ed :
    WF b -> WF x ->
    collect b = Ok (bf, bd) -> collect x = Ok (ef, ed) ->
    any_or_dimensionless (ef, ed) ->            (* the exponent is of any dimension or dimensionless *)
    dim_pow_val bd ef <> None ->                (* dimension ** exponent is defined (E_UNSUPPORTED corner) *)
    WF (QPow b x)
| WF_add l ts :
    l <> [] -> Forall WF l ->
    map_res collect l = Ok ts -> pairwise_equiv ts ->
    WF (QAdd l)
| WF_abs a : WF a -> WF (QAbs a)
| WF_min l ts :
    l <> [] -> Forall WF l ->
    map_res collect l = Ok ts -> pairwise_equiv ts ->
    ((2 <= length l)%nat -> all_comparable ts) ->     (* a unary Min is the identity: nothing is compared *)
    WF (QMin l)
| WF_max l ts :
    l <> [] -> Forall WF l ->
    map_res collect l = Ok ts -> pairwise_equiv ts ->
    ((2 <= length l)%nat -> all_comparable ts) ->
    WF (QMax l)
| WF_fun ov l ts :
    Forall WF l ->
    map_res collect l = Ok ts -> Forall any_or_dimensionless ts ->
    WF (QFun ov l).
(* no constructor for QNum VSym (is_number VSym = false) nor for QDeriv *)

(* ---- children ------------------------------------------------------------------------------------ *)
Lemma map_res_Forall2 c l : forall ts, map_res c l = Ok ts <-> Forall2 (fun e t => c e = Ok t) l ts.
Proof.
  induction l as [|a r IH]; intros ts; cbn [map_res].
  - split; intros H; [inversion H; constructor | inversion H; reflexivity].
  - split; intros H.
    + destruct (c a) as [t|k] eqn:Ea; [|discriminate].
      destruct (map_res c r) as [ts'|k] eqn:Er; [|discriminate].
      inversion H; subst. constructor; [exact Ea | apply IH; reflexivity].
    + inversion H as [|? t ? ts' Ht Hr]; subst. rewrite Ht. apply IH in Hr. rewrite Hr. reflexivity.
Qed.

Lemma map_res_length c l ts : map_res c l = Ok ts -> length ts = length l.
Proof.
  intros H. apply map_res_Forall2 in H. induction H as [|e t l ts _ _ IH]; cbn; [reflexivity | f_equal; exact IH].
Qed.

Lemma map_res_ok_iff c l : (exists ts, map_res c l = Ok ts) <-> Forall (fun e => exists r, c e = Ok r) l.
Proof.
  induction l as [|a r IH]; cbn [map_res].
  - split; [constructor | eexists; reflexivity].
  - split.
    + intros [ts H]. destruct (c a) as [t|k] eqn:Ea; [|discriminate].
      destruct (map_res c r) as [ts'|k] eqn:Er; [|discriminate].
      constructor; [eexists; exact Ea | apply IH; eexists; reflexivity].
    + intros H. inversion H as [|? ? [t Ht] Hr]; subst. apply IH in Hr as [ts' Hts]. rewrite Ht, Hts.
      eexists; reflexivity.
Qed.

Lemma Forall_iff_transfer {A} (P Q : A -> Prop) l :
  Forall (fun x => P x <-> Q x) l -> (Forall P l <-> Forall Q l).
Proof.
  induction 1 as [|x l Hx Hl IH]; [split; constructor|].
  split; intros H; inversion H; subst; constructor; try (apply Hx; assumption); apply IH; assumption.
Qed.

Lemma map_res_perm c l l' : Permutation l l' ->
  forall ts, map_res c l = Ok ts -> exists ts', map_res c l' = Ok ts' /\ Permutation ts ts'.
Proof.
  induction 1 as [|x l l' Hp IH|x y l|l l' l'' H1 IH1 H2 IH2]; intros ts H.
  - exists ts. split; [exact H | apply Permutation_refl].
  - cbn [map_res] in *. destruct (c x) as [t|k]; [|discriminate].
    destruct (map_res c l) as [ts0|k] eqn:E; [|discriminate]. inversion H; subst.
    destruct (IH ts0 eq_refl) as [ts0' [H0 P0]]. rewrite H0. exists (t :: ts0'). split; [reflexivity|].
    apply perm_skip. exact P0.
  - cbn [map_res] in *. destruct (c y) as [ty|k]; [|discriminate]. destruct (c x) as [tx|k]; [|discriminate].
    destruct (map_res c l) as [ts0|k]; [|discriminate]. inversion H; subst.
    exists (tx :: ty :: ts0). split; [reflexivity | apply perm_swap].
  - destruct (IH1 ts H) as [ts1 [Ha Pa]]. destruct (IH2 ts1 Ha) as [ts2 [Hb Pb]].
    exists ts2. split; [exact Hb | eapply Permutation_trans; eassumption].
Qed.

Lemma fun_go_child_err c ov l : forall k, map_res c l = Err k -> exists k', fun_go c ov l = Err k'.
Proof.
  induction l as [|a r IH]; intros k H; cbn [map_res] in H; [discriminate|].
  cbn [fun_go]. destruct (c a) as [[af ad]|k1]; [|eexists; reflexivity].
  destruct (map_res c r) as [ts'|k2] eqn:Er; [discriminate|].
  destruct (is_any af || dimensionless ad); [eapply IH; reflexivity | eexists; reflexivity].
Qed.

(* ---- Min / Max: comparability, order-free ---------------------------------------------------------- *)
Definition cmp_comb (g : val -> val -> val) (a b : val) : option val :=
  if comparable a && comparable b then Some (g a b) else None.

Lemma comb_min_cmp : comb_min = cmp_comb vmin.
Proof. reflexivity. Qed.
Lemma comb_max_cmp : comb_max = cmp_comb vmax.
Proof. reflexivity. Qed.

Lemma vmin_comparable a b : comparable a = true -> comparable b = true -> comparable (vmin a b) = true.
Proof.
  destruct a, b; cbn [vmin comparable]; intros Ha Hb; try discriminate; try reflexivity.
  destruct (Qle_bool _ _); reflexivity.
Qed.

Lemma vmax_comparable a b : comparable a = true -> comparable b = true -> comparable (vmax a b) = true.
Proof.
  destruct a, b; cbn [vmax comparable]; intros Ha Hb; try discriminate; try reflexivity.
  destruct (Qle_bool _ _); reflexivity.
Qed.

Section Cmp.
  Variable g : val -> val -> val.
  Hypothesis Hg : forall a b, comparable a = true -> comparable b = true -> comparable (g a b) = true.

  Lemma sd_val_cmp_some ts : forall x, comparable x = true ->
    ((exists v, sd_val (cmp_comb g) (Some x) ts = Some v) <-> all_comparable ts).
  Proof.
    induction ts as [|[af ad] r IH]; intros x Hx; cbn [sd_val].
    - split; [constructor | eexists; reflexivity].
    - destruct (cmp_comb g x af) as [y|] eqn:E; unfold cmp_comb in E; rewrite Hx in E; cbn [andb] in E;
        destruct (comparable af) eqn:Ea; try discriminate.
      + inversion E; subst y. rewrite (IH (g x af) (Hg _ _ Hx Ea)). split; intros H.
        * constructor; [exact Ea | exact H].
        * inversion H; assumption.
      + split; [intros [v H]; discriminate|]. intros H. inversion H as [|? ? Hc _]; subst.
        cbn [fst] in Hc. congruence.
  Qed.

  Lemma sd_val_cmp_none ts :
    (exists v, sd_val (cmp_comb g) None ts = Some v) <-> ts <> [] /\ ((2 <= length ts)%nat -> all_comparable ts).
  Proof.
    destruct ts as [|[af ad] r]; cbn [sd_val].
    - split; [intros [v H]; discriminate | intros [H _]; congruence].
    - destruct r as [|[bf bd] r'].
      + cbn. split; [intros _; split; [discriminate | lia] | eexists; reflexivity].
      + destruct (comparable af) eqn:Ea.
        * rewrite (sd_val_cmp_some _ af Ea). split.
          -- intros H. split; [discriminate|]. intros _. constructor; [exact Ea | exact H].
          -- intros [_ H]. assert (Hl : (2 <= length ((af, ad) :: (bf, bd) :: r'))%nat) by (cbn; lia).
             specialize (H Hl). inversion H; assumption.
        * cbn [sd_val]. unfold cmp_comb at 1. rewrite Ea. cbn [andb]. split; [intros [v H]; discriminate|].
          intros [_ H]. assert (Hl : (2 <= length ((af, ad) :: (bf, bd) :: r'))%nat) by (cbn; lia).
          specialize (H Hl). inversion H as [|? ? Hc _]; subst. cbn [fst] in Hc. congruence.
  Qed.

  Lemma minmax_accepts_iff c l ts :
    map_res c l = Ok ts ->
    ((exists r, sd_go c (cmp_comb g) None None dzero l = Ok r) <->
     pairwise_equiv ts /\ ts <> [] /\ ((2 <= length ts)%nat -> all_comparable ts)).
  Proof.
    intros H. split.
    - intros [[v d] Hr]. apply (sd_go_ok_iff c _ l ts v d H) in Hr as [Hp [Hv _]].
      split; [exact Hp|]. apply sd_val_cmp_none. eexists; exact Hv.
    - intros [Hp Hc]. apply sd_val_cmp_none in Hc as [v Hv]. exists (v, pick_dim ts).
      apply (sd_go_ok_iff c _ l ts v _ H). auto.
  Qed.
End Cmp.

(* ---- the global theorem ----------------------------------------------------------------------------- *)
Lemma collect_total e : (exists r, collect e = Ok r) \/ (exists k, collect e = Err k).
Proof. destruct (collect e); eauto. Qed.

Lemma children_iff l :
  Forall (fun e => (exists r, collect e = Ok r) <-> WF e) l ->
  ((exists ts, map_res collect l = Ok ts) <-> Forall WF l).
Proof. intros IH. rewrite map_res_ok_iff. apply Forall_iff_transfer. exact IH. Qed.

Lemma map_res_nil_iff c l ts : map_res c l = Ok ts -> (ts = [] <-> l = []).
Proof.
  intros H. apply map_res_length in H. destruct ts, l; cbn in H; try discriminate; split; intros; congruence.
Qed.

Theorem collect_accepts_iff_WF : forall e, (exists r, collect e = Ok r) <-> WF e.
Proof.
  induction e as [v|v d|v|l IH|b x IHb IHx|l IH|a IHa|l IH|l IH|ov l IH|] using qexpr_ind2.
  - (* QNum *) cbn [collect]. split.
    + intros [r H]. destruct (is_number v) eqn:E; [constructor; exact E | discriminate].
    + intros H. inversion H as [? Hn| | | | | | | | |]; subst. rewrite Hn. eexists; reflexivity.
  - (* QQty *) split; [constructor | eexists; reflexivity].
  - (* QPrefix *) split; [constructor | eexists; reflexivity].
  - (* QMul *) split.
    + intros [r H]. destruct (map_res_total_or_err collect l) as [[ts Hts]|[k Hk]].
      * constructor.
        -- intros ->. cbn in H. discriminate.
        -- apply (children_iff l IH). eexists; exact Hts.
      * destruct (collect_child_error_refuses l k Hk) as [_ [_ [_ [k' Hk']]]]. congruence.
    + intros H. inversion H as [| | |? Hne Hall| | | | | |]; subst.
      apply (children_iff l IH) in Hall as [ts Hts].
      destruct l as [|x xs]; [congruence|]. cbn [map_res] in Hts.
      destruct (collect x) as [p|k] eqn:Ex; [|discriminate].
      destruct (map_res collect xs) as [ts'|k] eqn:Exs; [|discriminate].
      destruct (collect_mul_spec x xs p ts' Ex Exs) as [v [d [Hc _]]]. eexists; exact Hc.
  - (* QPow *) split.
    + intros [r H]. cbn [collect] in H.
      destruct (collect b) as [[bf bd]|k] eqn:Eb; [|discriminate].
      destruct (collect x) as [[ef ed]|k] eqn:Ex; [|discriminate].
      destruct (is_any ef || dimensionless ed) eqn:E1; [|discriminate].
      destruct (dim_pow_val bd ef) as [d|] eqn:E2; [|discriminate].
      apply (WF_pow b x bf bd ef ed).
      * apply IHb. eexists; reflexivity.
      * apply IHx. eexists; reflexivity.
      * exact Eb.
      * exact Ex.
      * unfold any_or_dimensionless. cbn [fst snd]. apply orb_true_iff. exact E1.
      * congruence.
    + intros H. inversion H as [| | | |? ? bf bd ef ed _ _ Hb Hx Hex Hd| | | | |]; subst.
      destruct (dim_pow_val bd ef) as [d|] eqn:E2; [|congruence].
      destruct (collect_pow_spec b x bf bd ef ed Hb Hx) as [Hok _].
      eexists. apply Hok; [exact Hex | exact E2].
  - (* QAdd *) split.
    + intros [r H]. destruct (map_res_total_or_err collect l) as [[ts Hts]|[k Hk]].
      * assert (Ha : exists r, collect (QAdd l) = Ok r) by (eexists; exact H).
        apply (collect_add_accepts_iff l ts Hts) in Ha as [Hp Hne].
        apply (WF_add l ts); [| | exact Hts | exact Hp].
        -- intros El. apply Hne. apply (map_res_nil_iff collect l ts Hts). exact El.
        -- apply (children_iff l IH). eexists; exact Hts.
      * destruct (collect_child_error_refuses l k Hk) as [[k' Hk'] _]. congruence.
    + intros H. inversion H as [| | | | |? ts Hne _ Hts Hp| | | |]; subst.
      apply (collect_add_accepts_iff l ts Hts). split; [exact Hp|].
      intros Et. apply Hne. apply (map_res_nil_iff collect l ts Hts). exact Et.
  - (* QAbs *) split.
    + intros [r H]. cbn [collect] in H. destruct (collect a) as [[f d]|k] eqn:Ea; [|discriminate].
      constructor. apply IHa. eexists; reflexivity.
    + intros H. inversion H as [| | | | | |? Ha| | |]; subst. apply IHa in Ha as [[f d] Ha].
      cbn [collect]. rewrite Ha. eexists; reflexivity.
  - (* QMin *) split.
    + intros [r H]. destruct (map_res_total_or_err collect l) as [[ts Hts]|[k Hk]].
      * assert (Ha : exists r, sd_go collect (cmp_comb vmin) None None dzero l = Ok r) by (eexists; exact H).
        apply (minmax_accepts_iff vmin vmin_comparable collect l ts Hts) in Ha as [Hp [Hne Hc]].
        apply (WF_min l ts); [| | exact Hts | exact Hp |].
        -- intros El. apply Hne. apply (map_res_nil_iff collect l ts Hts). exact El.
        -- apply (children_iff l IH). eexists; exact Hts.
        -- rewrite <- (map_res_length collect l ts Hts). exact Hc.
      * destruct (collect_child_error_refuses l k Hk) as [_ [[k' Hk'] _]]. congruence.
    + intros H. inversion H as [| | | | | | |? ts Hne _ Hts Hp Hc| |]; subst.
      change (exists r, sd_go collect (cmp_comb vmin) None None dzero l = Ok r).
      apply (minmax_accepts_iff vmin vmin_comparable collect l ts Hts). split; [exact Hp|]. split.
      * intros Et. apply Hne. apply (map_res_nil_iff collect l ts Hts). exact Et.
      * rewrite (map_res_length collect l ts Hts). exact Hc.
  - (* QMax *) split.
    + intros [r H]. destruct (map_res_total_or_err collect l) as [[ts Hts]|[k Hk]].
      * assert (Ha : exists r, sd_go collect (cmp_comb vmax) None None dzero l = Ok r) by (eexists; exact H).
        apply (minmax_accepts_iff vmax vmax_comparable collect l ts Hts) in Ha as [Hp [Hne Hc]].
        apply (WF_max l ts); [| | exact Hts | exact Hp |].
        -- intros El. apply Hne. apply (map_res_nil_iff collect l ts Hts). exact El.
        -- apply (children_iff l IH). eexists; exact Hts.
        -- rewrite <- (map_res_length collect l ts Hts). exact Hc.
      * destruct (collect_child_error_refuses l k Hk) as [_ [_ [[k' Hk'] _]]]. congruence.
    + intros H. inversion H as [| | | | | | | |? ts Hne _ Hts Hp Hc|]; subst.
      change (exists r, sd_go collect (cmp_comb vmax) None None dzero l = Ok r).
      apply (minmax_accepts_iff vmax vmax_comparable collect l ts Hts). split; [exact Hp|]. split.
      * intros Et. apply Hne. apply (map_res_nil_iff collect l ts Hts). exact Et.
      * rewrite (map_res_length collect l ts Hts). exact Hc.
  - (* QFun *) split.
    + intros [r H]. destruct (map_res_total_or_err collect l) as [[ts Hts]|[k Hk]].
      * assert (Ha : exists r, collect (QFun ov l) = Ok r) by (eexists; exact H).
        apply (collect_fun_accepts_iff ov l ts Hts) in Ha.
        apply (WF_fun ov l ts); [| exact Hts | exact Ha].
        apply (children_iff l IH). eexists; exact Hts.
      * destruct (fun_go_child_err collect ov l k Hk) as [k' Hk']. cbn [collect] in H. congruence.
    + intros H. inversion H as [| | | | | | | | |? ? ts _ Hts Hf]; subst.
      apply (collect_fun_accepts_iff ov l ts Hts). exact Hf.
  - (* QDeriv *) split; [intros [r H]; discriminate | intros H; inversion H].
Qed.

Theorem collect_refuses_iff_not_WF : forall e, (exists k, collect e = Err k) <-> ~ WF e.
Proof.
  intros e. split.
  - intros [k Hk] Hw. apply collect_accepts_iff_WF in Hw as [r Hr]. congruence.
  - intros Hn. destruct (collect_total e) as [Ha|Hr]; [|exact Hr].
    exfalso. apply Hn, collect_accepts_iff_WF, Ha.
Qed.

(* ---- order of the terms / factors is irrelevant for acceptance ------------------------------------- *)
Lemma all_comparable_perm ts ts' : Permutation ts ts' -> all_comparable ts -> all_comparable ts'.
Proof.
  intros P H. apply Forall_forall. intros t Ht. unfold all_comparable in H. rewrite Forall_forall in H.
  apply H. eapply Permutation_in; [apply Permutation_sym; exact P | exact Ht].
Qed.

Lemma Forall_perm {A} (P : A -> Prop) l l' : Permutation l l' -> Forall P l -> Forall P l'.
Proof.
  intros Hp H. apply Forall_forall. intros t Ht. rewrite Forall_forall in H.
  apply H. eapply Permutation_in; [apply Permutation_sym; exact Hp | exact Ht].
Qed.

Lemma perm_nonnil {A} (l l' : list A) : Permutation l l' -> l <> [] -> l' <> [].
Proof. intros P H ->. apply H. apply Permutation_nil. apply Permutation_sym. exact P. Qed.

Lemma WF_perm l l' : Permutation l l' ->
  (WF (QAdd l) -> WF (QAdd l')) /\ (WF (QMin l) -> WF (QMin l')) /\
  (WF (QMax l) -> WF (QMax l')) /\ (WF (QMul l) -> WF (QMul l')).
Proof.
  intros P. repeat split; intros H.
  - inversion H as [| | | | |? ts Hne Hall Hts Hp| | | |]; subst.
    destruct (map_res_perm collect l l' P ts Hts) as [ts' [Hts' Pt]].
    apply (WF_add l' ts'); [eapply perm_nonnil; eassumption | eapply Forall_perm; eassumption | exact Hts' |].
    eapply pairwise_perm; eassumption.
  - inversion H as [| | | | | | |? ts Hne Hall Hts Hp Hc| |]; subst.
    destruct (map_res_perm collect l l' P ts Hts) as [ts' [Hts' Pt]].
    apply (WF_min l' ts'); [eapply perm_nonnil; eassumption | eapply Forall_perm; eassumption | exact Hts' | |].
    + eapply pairwise_perm; eassumption.
    + intros Hl. rewrite <- (Permutation_length P) in Hl. eapply all_comparable_perm; [exact Pt | apply Hc, Hl].
  - inversion H as [| | | | | | | |? ts Hne Hall Hts Hp Hc|]; subst.
    destruct (map_res_perm collect l l' P ts Hts) as [ts' [Hts' Pt]].
    apply (WF_max l' ts'); [eapply perm_nonnil; eassumption | eapply Forall_perm; eassumption | exact Hts' | |].
    + eapply pairwise_perm; eassumption.
    + intros Hl. rewrite <- (Permutation_length P) in Hl. eapply all_comparable_perm; [exact Pt | apply Hc, Hl].
  - inversion H as [| | |? Hne Hall| | | | | |]; subst.
    constructor; [eapply perm_nonnil; eassumption | eapply Forall_perm; eassumption].
Qed.

Theorem collect_order_irrelevant : forall l l', Permutation l l' ->
  ((exists r, collect (QAdd l) = Ok r) <-> (exists r, collect (QAdd l') = Ok r)) /\
  ((exists r, collect (QMin l) = Ok r) <-> (exists r, collect (QMin l') = Ok r)) /\
  ((exists r, collect (QMax l) = Ok r) <-> (exists r, collect (QMax l') = Ok r)) /\
  ((exists r, collect (QMul l) = Ok r) <-> (exists r, collect (QMul l') = Ok r)).
Proof.
  intros l l' P. rewrite !collect_accepts_iff_WF.
  destruct (WF_perm l l' P) as [A1 [A2 [A3 A4]]].
  destruct (WF_perm l' l (Permutation_sym P)) as [B1 [B2 [B3 B4]]].
  repeat split; assumption.
Qed.

(* ================================================================================================ *)
(* Part B : the dimension is the dimensional product of the parts                                    *)
(* ================================================================================================ *)

(* the declarative "dimensional product of the parts": no accumulator, no any-dimension shortcut *)
Fixpoint nominal_dim (e : qexpr) : dim :=
  match e with
  | QNum _ | QPrefix _ => dzero
  | QQty _ d => d
  | QMul l => match l with [] => dzero | x :: xs => fold_left dmul (map nominal_dim xs) (nominal_dim x) end
  | QPow b x => match value x with
                | VQ q => dpow (nominal_dim b) q       (* powers scale by the exponent's value *)
                | VFloat0 => dpow (nominal_dim b) 0
                | _ => dzero                           (* irrational exponent: only on a dimensionless base *)
                end
  | QAdd l | QMin l | QMax l =>                        (* the dimension of a term not of any dimension *)
      pick_dim (map (fun t => (value t, nominal_dim t)) l)
  | QAbs a => nominal_dim a
  | QFun _ _ => dzero
  | QDeriv => dzero
  end.

Definition vn (e : qexpr) : val * dim := (value e, nominal_dim e).

(* every sub-expression has a finite value (no +-oo, NaN, zoo, symbol); leaf dimensions are 9-vectors;
   Min/Max have no literal Float(0.0) term (the model's vmin/vmax is coarse there: VOther) *)
Inductive Fin : qexpr -> Prop :=
| Fin_num v : finite_val v = true -> Fin (QNum v)
| Fin_qty v d : finite_val v = true -> wf_dim d -> Fin (QQty v d)
| Fin_prefix v : finite_val v = true -> Fin (QPrefix v)
| Fin_mul l : Forall Fin l -> finite_val (value (QMul l)) = true -> Fin (QMul l)
| Fin_pow b x : Fin b -> Fin x -> finite_val (value (QPow b x)) = true -> Fin (QPow b x)
| Fin_add l : Forall Fin l -> finite_val (value (QAdd l)) = true -> Fin (QAdd l)
| Fin_abs a : Fin a -> finite_val (value (QAbs a)) = true -> Fin (QAbs a)
| Fin_min l : Forall Fin l -> Forall (fun t => value t <> VFloat0) l ->
              finite_val (value (QMin l)) = true -> Fin (QMin l)
| Fin_max l : Forall Fin l -> Forall (fun t => value t <> VFloat0) l ->
              finite_val (value (QMax l)) = true -> Fin (QMax l)
| Fin_fun ov l : Forall Fin l -> finite_val ov = true -> Fin (QFun ov l).

Lemma Fin_finite e : Fin e -> finite_val (value e) = true.
Proof. intros H. destruct H; try assumption. Qed.

(* ---- dimension algebra ------------------------------------------------------------------------------ *)
Lemma dzero_wf : wf_dim dzero.
Proof. reflexivity. Qed.

Lemma deq_zeros_dpow_r a : deq (dpow a 0) (repeat 0%Q (length a)).
Proof.
  induction a as [|x a IH]; cbn [dpow map length repeat]; constructor; [ring | exact IH].
Qed.

Lemma deq_zeros_dpow_l n q : deq (dpow (repeat 0%Q n) q) (repeat 0%Q n).
Proof.
  induction n as [|n IH]; cbn [dpow map repeat]; constructor; [ring | exact IH].
Qed.

Lemma dimensionless_wf_dzero d : wf_dim d -> dimensionless d = true -> deq d dzero.
Proof. intros Hw Hd. apply dimensionless_iff in Hd. rewrite Hw in Hd. exact Hd. Qed.

(* on 9-vectors, anything to the power zero is the zero vector *)
Lemma dpow0_wf a q : wf_dim a -> q == 0 -> deq (dpow a q) dzero.
Proof.
  intros Hw Hq. apply deq_trans with (dpow a 0).
  - apply dpow_deq; [apply deq_refl | exact Hq].
  - pose proof (deq_zeros_dpow_r a) as H. rewrite Hw in H. exact H.
Qed.

Lemma dim_pow_val_spec bd ef d :
  wf_dim bd -> dim_pow_val bd ef = Some d ->
  wf_dim d /\
  match ef with
  | VQ q => deq d (dpow bd q)
  | VFloat0 => deq d (dpow bd 0)
  | _ => deq d dzero
  end.
Proof.
  intros Hw H. unfold dim_pow_val in H. destruct (dimensionless bd) eqn:E.
  - inversion H; subst d. split; [exact Hw|].
    pose proof (dimensionless_wf_dzero bd Hw E) as Hz.
    assert (Hp : forall q, deq bd (dpow bd q)).
    { intros q. apply deq_trans with dzero; [exact Hz|]. apply deq_sym.
      apply deq_trans with (dpow dzero q); [apply dpow_deq; [exact Hz | reflexivity] | apply deq_zeros_dpow_l]. }
    destruct ef; try exact Hz; apply Hp.
  - destruct ef; try discriminate; inversion H; subst d; (split; [apply dpow_wf; exact Hw | apply deq_refl]).
Qed.

Lemma fold_dmul_wf ns : forall n0, Forall wf_dim ns -> wf_dim n0 -> wf_dim (fold_left dmul ns n0).
Proof.
  induction ns as [|n r IH]; intros n0 Hf H0; cbn [fold_left]; [exact H0|].
  inversion Hf; subst. apply IH; [assumption | apply dmul_wf; assumption].
Qed.

Lemma last_Forall {A} (P : A -> Prop) l d : Forall P l -> P d -> P (last l d).
Proof.
  induction 1 as [|x l Hx Hl IH]; intros Hd; [exact Hd|].
  destruct l as [|y l']; [exact Hx|]. change (P (last (y :: l') d)). apply IH. exact Hd.
Qed.

Lemma pick_dim_wf ts : Forall (fun t => wf_dim (snd t)) ts -> wf_dim (pick_dim ts).
Proof.
  intros H. unfold pick_dim. destruct (first_nonany ts) as [d|] eqn:E.
  - destruct (first_nonany_in ts d E) as [v [Hi _]]. rewrite Forall_forall in H. apply (H (v, d) Hi).
  - apply (last_Forall (fun t => wf_dim (snd t))); [exact H | exact dzero_wf].
Qed.

(* ---- values: zero is absorbing / preserved in the finite fragment ------------------------------------- *)
Lemma vmul_any_absorbs_r a b : finite_val a = true -> finite_val b = true -> is_any b = true -> is_any (vmul a b) = true.
Proof.
  destruct a as [x| | | | | | |], b as [y| | | | | | |]; intros Fa Fb Hb; try discriminate Fa; try discriminate Fb;
    try discriminate Hb; try reflexivity.
  - change (qzero (Qred (x * y)) = true). rewrite Qred_zero. change (qzero y = true) in Hb.
    unfold qzero in *. rewrite Qeq_bool_iff in *. rewrite Hb. ring.
  - change (is_any (if qzero y then VQ 0 else VOther) = true). change (qzero y = true) in Hb. rewrite Hb. reflexivity.
Qed.

Definition fin_any (v : val) : Prop := finite_val v = true /\ is_any v = true.

Lemma vadd_fin_any a b : fin_any a -> fin_any b -> fin_any (vadd a b).
Proof.
  unfold fin_any.
  destruct a as [x| | | | | | |], b as [y| | | | | | |]; intros [Fa Ha] [Fb Hb]; try discriminate Fa; try discriminate Fb;
    try discriminate Ha; try discriminate Hb; try (split; [reflexivity | assumption]); try (split; reflexivity).
  split; [reflexivity|]. change (qzero (Qred (x + y)) = true). rewrite Qred_zero.
  change (qzero x = true) in Ha. change (qzero y = true) in Hb. unfold qzero in *. rewrite Qeq_bool_iff in *.
  rewrite Ha, Hb. ring.
Qed.

Definition zero_q (v : val) : Prop := exists q, v = VQ q /\ qzero q = true.

Lemma vmin_zero_q a b : zero_q a -> zero_q b -> zero_q (vmin a b).
Proof.
  intros [x [-> Hx]] [y [-> Hy]]. cbn [vmin]. destruct (Qle_bool x y); [exists x | exists y]; auto.
Qed.

Lemma vmax_zero_q a b : zero_q a -> zero_q b -> zero_q (vmax a b).
Proof.
  intros [x [-> Hx]] [y [-> Hy]]. cbn [vmax]. destruct (Qle_bool x y); [exists y | exists x]; auto.
Qed.

Lemma zero_q_any v : zero_q v -> is_any v = true.
Proof. intros [q [-> Hq]]. exact Hq. Qed.

Lemma sd_val_closed comb (P : val -> Prop) :
  (forall a b y, P a -> P b -> comb a b = Some y -> P y) ->
  forall ts f v, match f with Some x => P x | None => True end ->
    Forall (fun t => P (fst t)) ts -> sd_val comb f ts = Some v -> P v.
Proof.
  intros Hc. induction ts as [|[af ad] r IH]; intros f v Hf Hts H; cbn [sd_val] in H.
  - destruct f as [x|]; [inversion H; subst; exact Hf | discriminate].
  - inversion Hts as [|? ? Ha Hr]; subst. cbn [fst] in Ha. destruct f as [x|].
    + destruct (comb x af) as [y|] eqn:E; [|discriminate]. apply (IH (Some y) v); [exact (Hc x af y Hf Ha E) | exact Hr | exact H].
    + apply (IH (Some af) v); [exact Ha | exact Hr | exact H].
Qed.

Lemma vabs_any f : is_any f = true -> is_any (vabs f) = true.
Proof.
  destruct f as [q| | | | | | |]; cbn [vabs is_any]; intros H; try discriminate; try reflexivity.
  rewrite Qred_zero. unfold qzero in *. rewrite Qeq_bool_iff in *. rewrite H. reflexivity.
Qed.

(* 0 ** (non-zero rational) is 0 (of any dimension) or complex infinity (not finite) *)
Lemma Qpower_zero_pos x n : x == 0 -> (0 < n)%Z -> Qpower x n == 0.
Proof.
  intros Hx Hn. rewrite Hx. destruct n as [|p|p]; try lia. cbn [Qpower]. apply Qpower_positive_0.
Qed.

Lemma Qfloor_pos_of_int y : (0 <= Qnum y)%Z -> ~ y == 0 -> y == inject_Z (Qfloor y) -> (0 < Qfloor y)%Z.
Proof.
  intros Hn Hz Hi. assert (H0 : (0 <= Qfloor y)%Z).
  { destruct y as [n d]. cbn [Qfloor Qnum] in *. apply Z.div_pos; lia. }
  destruct (Z.eq_dec (Qfloor y) 0) as [E|E]; [|lia].
  exfalso. apply Hz. rewrite Hi, E. reflexivity.
Qed.

Lemma Qnum_mul2 y : (Qnum y <? 0)%Z = false -> (0 <= Qnum (y * 2))%Z.
Proof. intros H. apply Z.ltb_ge in H. destruct y as [n d]. cbn [Qmult Qnum] in *. lia. Qed.

Lemma qsqrt_exact_zero x : x == 0 -> qsqrt_exact x = Some 0.
Proof.
  intros H. unfold qsqrt_exact. rewrite (Qred_complete x 0 H). reflexivity.
Qed.

Lemma vpow_zero_base bf y :
  finite_val bf = true -> is_any bf = true -> qzero y = false ->
  finite_val (vpow bf (VQ y)) = true -> is_any (vpow bf (VQ y)) = true.
Proof.
  intros Fb Hb Hy Ff.
  assert (Hy0 : ~ y == 0) by (intros E; apply Qeq_bool_iff in E; unfold qzero in Hy; congruence).
  destruct bf as [x| | | | | | |]; try discriminate Fb; try discriminate Hb.
  - change (qzero x = true) in Hb.
    assert (Hx0 : x == 0) by (apply Qeq_bool_iff; exact Hb).
    cbn [vpow] in *. rewrite Hy in *.
    destruct (Qeq_bool x 1) eqn:E1.
    { apply Qeq_bool_iff in E1. rewrite Hx0 in E1. discriminate E1. }
    rewrite Hb in *. cbn [andb] in *.
    destruct (is_int y) eqn:Ei.
    + destruct (Qnum y <? 0)%Z eqn:En; [discriminate Ff|].
      cbn [is_any]. rewrite Qred_zero. apply Qeq_bool_iff. apply Qpower_zero_pos; [exact Hx0|].
      apply Qfloor_pos_of_int; [apply Z.ltb_ge; exact En | exact Hy0 | apply Qeq_bool_iff; exact Ei].
    + destruct (Qeq_bool (y * 2) (inject_Z (Qfloor (y * 2)))) eqn:Eh.
      * rewrite (qsqrt_exact_zero x Hx0) in *. change (qzero 0) with true in *. cbn [andb] in *.
        destruct (Qnum y <? 0)%Z eqn:En; [discriminate Ff|].
        cbn [is_any]. rewrite Qred_zero. apply Qeq_bool_iff. apply Qpower_zero_pos; [reflexivity|].
        apply Qfloor_pos_of_int; [apply Qnum_mul2; exact En | | apply Qeq_bool_iff; exact Eh].
        intros E. apply Hy0. setoid_replace y with ((y * 2) * (1 # 2)) by ring. rewrite E. ring.
      * destruct (Qnum y <? 0)%Z; [discriminate Ff | reflexivity].
  - cbn [vpow] in *. rewrite Hy in *. destruct (Qnum y <? 0)%Z; [discriminate Ff | reflexivity].
Qed.

(* ---- the relation between a child and its collected pair --------------------------------------------- *)
Definition good (e : qexpr) (t : val * dim) : Prop :=
  fst t = value e /\ finite_val (fst t) = true /\ wf_dim (snd t) /\ wf_dim (nominal_dim e) /\
  (is_any (fst t) = true \/ deq (snd t) (nominal_dim e)).

Lemma mul_fold_nominal es ts : Forall2 good es ts ->
  forall p n0, finite_val (fst p) = true -> wf_dim (snd p) ->
    (is_any (fst p) = true \/ deq (snd p) n0) ->
    let r := fold_left mul_step ts p in
    wf_dim (snd r) /\ (is_any (fst r) = true \/ deq (snd r) (fold_left dmul (map nominal_dim es) n0)).
Proof.
  induction 1 as [|e t es ts Hg Hr IH]; intros p n0 Fp Wp Hp; cbn [fold_left map].
  - split; assumption.
  - destruct Hg as [_ [Ft [Wt [_ Ht]]]].
    apply IH.
    + unfold mul_step. destruct (is_any (vmul (fst p) (fst t))); cbn [fst]; apply vmul_finite; assumption.
    + unfold mul_step. destruct (is_any (vmul (fst p) (fst t))); cbn [snd]; [exact dzero_wf | apply dmul_wf; assumption].
    + unfold mul_step. destruct (is_any (vmul (fst p) (fst t))) eqn:E; cbn [fst snd].
      * left. exact E.
      * right. destruct Hp as [Hp|Hp]; [rewrite (vmul_any_absorbs _ _ Fp Ft Hp) in E; discriminate|].
        destruct Ht as [Ht|Ht]; [rewrite (vmul_any_absorbs_r _ _ Fp Ft Ht) in E; discriminate|].
        apply dmul_deq; assumption.
Qed.

Lemma first_nonany_nominal es ts : Forall2 good es ts ->
  match first_nonany ts with
  | Some d => exists n, first_nonany (map vn es) = Some n /\ deq d n
  | None => Forall (fun t => is_any (fst t) = true) ts
  end.
Proof.
  induction 1 as [|e [v d] es ts Hg Hr IH]; cbn [first_nonany map vn]; [constructor|].
  destruct Hg as [Hv [_ [_ [_ Hd]]]]. cbn [fst snd] in *. subst v.
  destruct (is_any (value e)) eqn:E.
  - destruct (first_nonany ts) as [d0|]; [exact IH | constructor; [exact E | exact IH]].
  - exists (nominal_dim e). split; [reflexivity|]. destruct Hd as [Hd|Hd]; [discriminate | exact Hd].
Qed.

Lemma good_wf es ts : Forall2 good es ts -> Forall (fun t => wf_dim (snd t)) ts.
Proof. induction 1 as [|e t es ts Hg _ IH]; constructor; [apply Hg | exact IH]. Qed.

Lemma good_nominal_wf es ts : Forall2 good es ts -> Forall (fun t => wf_dim (snd t)) (map vn es).
Proof. induction 1 as [|e t es ts Hg _ IH]; cbn [map]; constructor; [apply Hg | exact IH]. Qed.

(* _collect_same_dimension on good children: the picked dimension is the nominal one unless every term is
   of any dimension *)
Lemma sd_nominal es ts : Forall2 good es ts ->
  wf_dim (pick_dim ts) /\
  (Forall (fun t => is_any (fst t) = true) ts \/ deq (pick_dim ts) (pick_dim (map vn es))).
Proof.
  intros Hg. split; [apply pick_dim_wf; eapply good_wf; exact Hg|].
  pose proof (first_nonany_nominal es ts Hg) as H. unfold pick_dim.
  destruct (first_nonany ts) as [d|]; [|left; exact H].
  destruct H as [n [Hn Hd]]. rewrite Hn. right. exact Hd.
Qed.

Lemma good_values es ts (P : val -> Prop) : Forall2 good es ts ->
  Forall (fun e => P (value e)) es -> Forall (fun t => P (fst t)) ts.
Proof.
  induction 1 as [|e t es ts Hg _ IH]; intros H; constructor; inversion H; subst.
  - destruct Hg as [-> _]. assumption.
  - apply IH. assumption.
Qed.

(* ---- the theorem ------------------------------------------------------------------------------------- *)
Definition dim_claim (e : qexpr) : Prop :=
  Fin e -> wf_dim (nominal_dim e) /\
  forall v d, collect e = Ok (v, d) -> wf_dim d /\ (is_any v = true \/ deq d (nominal_dim e)).

Lemma children_good l : Forall dim_claim l -> Forall Fin l ->
  forall ts, map_res collect l = Ok ts -> Forall2 good l ts.
Proof.
  induction 1 as [|a r Ha Hr IH]; intros HF ts H; cbn [map_res] in H.
  - inversion H; constructor.
  - inversion HF as [|? ? Fa Fr]; subst.
    destruct (collect a) as [[af ad]|k] eqn:Ea; [|discriminate].
    destruct (map_res collect r) as [ts'|k] eqn:Er; [|discriminate].
    inversion H; subst. constructor; [|apply IH; [exact Fr | reflexivity]].
    destruct (Ha Fa) as [Wn Hc]. destruct (Hc af ad Ea) as [Wd Hd].
    pose proof (collect_value a af ad Ea) as Hv. unfold good. cbn [fst snd]. repeat split; auto.
    rewrite Hv. apply Fin_finite. exact Fa.
Qed.

Lemma accepted_children_add l r : collect (QAdd l) = Ok r -> exists ts, map_res collect l = Ok ts.
Proof.
  intros H. destruct (map_res_total_or_err collect l) as [Hts|[k Hk]]; [exact Hts|].
  destruct (collect_child_error_refuses l k Hk) as [[k' Hk'] _]. congruence.
Qed.
Lemma accepted_children_min l r : collect (QMin l) = Ok r -> exists ts, map_res collect l = Ok ts.
Proof.
  intros H. destruct (map_res_total_or_err collect l) as [Hts|[k Hk]]; [exact Hts|].
  destruct (collect_child_error_refuses l k Hk) as [_ [[k' Hk'] _]]. congruence.
Qed.
Lemma accepted_children_max l r : collect (QMax l) = Ok r -> exists ts, map_res collect l = Ok ts.
Proof.
  intros H. destruct (map_res_total_or_err collect l) as [Hts|[k Hk]]; [exact Hts|].
  destruct (collect_child_error_refuses l k Hk) as [_ [_ [[k' Hk'] _]]]. congruence.
Qed.
Lemma accepted_children_mul l r : collect (QMul l) = Ok r -> exists ts, map_res collect l = Ok ts.
Proof.
  intros H. destruct (map_res_total_or_err collect l) as [Hts|[k Hk]]; [exact Hts|].
  destruct (collect_child_error_refuses l k Hk) as [_ [_ [_ [k' Hk']]]]. congruence.
Qed.
Lemma accepted_children_fun ov l r : collect (QFun ov l) = Ok r -> exists ts, map_res collect l = Ok ts.
Proof.
  intros H. destruct (map_res_total_or_err collect l) as [Hts|[k Hk]]; [exact Hts|].
  destruct (fun_go_child_err collect ov l k Hk) as [k' Hk']. cbn [collect] in H. congruence.
Qed.

(* the common part of Add / Min / Max *)
Lemma sd_claim comb l ts v d (P : val -> Prop) :
  Forall2 good l ts ->
  map_res collect l = Ok ts -> sd_go collect comb None None dzero l = Ok (v, d) ->
  (forall a b y, P a -> P b -> comb a b = Some y -> P y) ->
  (forall x, P x -> is_any x = true) ->
  (Forall (fun t => is_any (fst t) = true) ts -> Forall (fun t => P (fst t)) ts) ->
  wf_dim d /\ (is_any v = true \/ deq d (pick_dim (map vn l))).
Proof.
  intros Hg Hts H Hc Hany Hall.
  apply (sd_go_ok_iff collect comb l ts v d Hts) in H as [_ [Hv ->]].
  destruct (sd_nominal l ts Hg) as [Hw [Ha|Hd]]; (split; [exact Hw|]); [left | right; exact Hd].
  apply Hany. apply (sd_val_closed comb P Hc ts None v I (Hall Ha) Hv).
Qed.

Lemma nominal_dim_wf_pick l : Forall (fun e => wf_dim (nominal_dim e)) l -> wf_dim (pick_dim (map vn l)).
Proof.
  intros H. apply pick_dim_wf. induction H as [|e r He _ IH]; cbn [map]; constructor; [exact He | exact IH].
Qed.

Lemma claims_nominal_wf l : Forall dim_claim l -> Forall Fin l -> Forall (fun e => wf_dim (nominal_dim e)) l.
Proof.
  induction 1 as [|a r Ha _ IH]; intros HF; [constructor|]. inversion HF; subst.
  constructor; [apply Ha; assumption | apply IH; assumption].
Qed.

Lemma fin_any_terms l ts : Forall2 good l ts ->
  Forall (fun t => is_any (fst t) = true) ts -> Forall (fun t => fin_any (fst t)) ts.
Proof.
  induction 1 as [|e t es ts Hg _ IH]; intros H; [constructor|]. inversion H; subst.
  constructor; [split; [apply Hg | assumption] | apply IH; assumption].
Qed.

Lemma zero_q_terms l ts : Forall2 good l ts -> Forall (fun e => value e <> VFloat0) l ->
  Forall (fun t => is_any (fst t) = true) ts -> Forall (fun t => zero_q (fst t)) ts.
Proof.
  induction 1 as [|e [v d] es ts Hg _ IH]; intros Hn H; [constructor|]. inversion H; subst. inversion Hn; subst.
  constructor; [|apply IH; assumption].
  destruct Hg as [Hv [Hf _]]. cbn [fst] in *. subst v.
  destruct (value e) as [q| | | | | | |]; try discriminate; try congruence. exists q. auto.
Qed.

Theorem collect_dim_claim : forall e, dim_claim e.
Proof.
  induction e as [v0|v0 d0|v0|l IH|b x IHb IHx|l IH|a IHa|l IH|l IH|ov l IH|] using qexpr_ind2;
    intros HF; inversion HF; subst.
  - (* QNum *) split; [exact dzero_wf|]. intros v d H. cbn [collect] in H.
    destruct (is_number v0); inversion H; subst. split; [exact dzero_wf | right; apply deq_refl].
  - (* QQty *) split; [assumption|]. intros v d H. inversion H; subst. split; [assumption | right; apply deq_refl].
  - (* QPrefix *) split; [exact dzero_wf|]. intros v d H. inversion H; subst.
    split; [exact dzero_wf | right; apply deq_refl].
  - (* QMul *) match goal with Hl : Forall Fin l |- _ => rename Hl into HFl end.
    pose proof (claims_nominal_wf l IH HFl) as Wn.
    destruct l as [|x xs]; [split; [exact dzero_wf | intros v d H; discriminate H]|].
    inversion Wn as [|? ? Wx Wxs]; subst.
    assert (Wfold : wf_dim (nominal_dim (QMul (x :: xs)))).
    { cbn [nominal_dim]. apply fold_dmul_wf; [|exact Wx].
      clear -Wxs. induction Wxs; cbn [map]; constructor; assumption. }
    split; [exact Wfold|]. intros v d H.
    destruct (accepted_children_mul _ _ H) as [ts Hts].
    pose proof (children_good _ IH HFl ts Hts) as Hg.
    inversion Hg as [|? p ? ts' Hgx Hgxs]; subst.
    cbn [map_res] in Hts. destruct (collect x) as [p'|k] eqn:Ex; [|discriminate].
    destruct (map_res collect xs) as [ts''|k] eqn:Exs; [|discriminate]. inversion Hts; subst p' ts''.
    cbn [collect] in H. rewrite Ex, (mul_go_run collect xs ts' p Exs) in H.
    destruct Hgx as [_ [Fp [Wp [_ Hp]]]].
    pose proof (mul_fold_nominal xs ts' Hgxs p (nominal_dim x) Fp Wp Hp) as Hr. cbn zeta in Hr.
    inversion H as [Hr']. rewrite Hr' in Hr. cbn [fst snd] in Hr. exact Hr.
  - (* QPow *) match goal with Hb : Fin b, Hx : Fin x |- _ => rename Hb into HFb; rename Hx into HFx end.
    match goal with Hv : finite_val (value (QPow b x)) = true |- _ => rename Hv into Fv end.
    destruct (IHb HFb) as [Wnb Hcb]. destruct (IHx HFx) as [_ Hcx].
    split.
    { cbn [nominal_dim]. destruct (value x); try exact dzero_wf; apply dpow_wf; exact Wnb. }
    intros v d H. cbn [collect] in H.
    destruct (collect b) as [[bf bd]|k] eqn:Eb; [|discriminate].
    destruct (collect x) as [[ef ed]|k] eqn:Ex; [|discriminate].
    destruct (is_any ef || dimensionless ed); [|discriminate].
    destruct (dim_pow_val bd ef) as [d'|] eqn:Ed; [|discriminate]. inversion H; subst v d'.
    destruct (Hcb bf bd eq_refl) as [Wbd Hbd].
    destruct (dim_pow_val_spec bd ef d Wbd Ed) as [Wd Hd]. split; [exact Wd|].
    pose proof (collect_value b bf bd Eb) as Hvb. pose proof (collect_value x ef ed Ex) as Hvx.
    pose proof (Fin_finite b HFb) as Fb. pose proof (Fin_finite x HFx) as Fx.
    cbn [value] in Fv. rewrite <- Hvb, <- Hvx in *. cbn [nominal_dim]. rewrite <- Hvx.
    destruct ef as [q| | | | | | |]; try discriminate Fx.
    + (* rational exponent *)
      destruct Hbd as [Hbd|Hbd].
      * destruct (qzero q) eqn:Eq.
        -- right. assert (Hq : q == 0) by (apply Qeq_bool_iff; exact Eq).
           apply deq_trans with (dpow bd q); [exact Hd|].
           apply deq_trans with dzero; [apply dpow0_wf; assumption | apply deq_sym, dpow0_wf; assumption].
        -- left. apply vpow_zero_base; assumption.
      * right. apply deq_trans with (dpow bd q); [exact Hd | apply dpow_deq; [exact Hbd | reflexivity]].
    + (* Float(0.0) exponent *)
      right. apply deq_trans with (dpow bd 0); [exact Hd|].
      apply deq_trans with dzero; [apply dpow0_wf; [assumption | reflexivity] | apply deq_sym, dpow0_wf; [assumption | reflexivity]].
    + (* irrational exponent: the base is dimensionless *)
      right. exact Hd.
  - (* QAdd *) match goal with Hl : Forall Fin l |- _ => rename Hl into HFl end.
    pose proof (claims_nominal_wf l IH HFl) as Wn.
    split; [exact (nominal_dim_wf_pick l Wn)|]. intros v d H.
    destruct (accepted_children_add _ _ H) as [ts Hts].
    pose proof (children_good _ IH HFl ts Hts) as Hg.
    apply (sd_claim comb_add l ts v d fin_any Hg Hts H).
    + intros a b y Pa Pb E. inversion E; subst. apply vadd_fin_any; assumption.
    + intros x0 [_ Hx]. exact Hx.
    + apply fin_any_terms with l. exact Hg.
  - (* QAbs *) match goal with Ha : Fin a |- _ => rename Ha into HFa end.
    destruct (IHa HFa) as [Wn Hc]. split; [exact Wn|]. intros v d H. cbn [collect] in H.
    destruct (collect a) as [[f d1]|k] eqn:Ea; [|discriminate]. inversion H; subst v d1.
    destruct (Hc f d eq_refl) as [Wd Hd]. split; [exact Wd|].
    destruct Hd as [Hd|Hd]; [left; apply vabs_any; exact Hd | right; exact Hd].
  - (* QMin *) match goal with Hl : Forall Fin l |- _ => rename Hl into HFl end.
    match goal with Hn : Forall (fun t => value t <> VFloat0) l |- _ => rename Hn into Hnf end.
    pose proof (claims_nominal_wf l IH HFl) as Wn.
    split; [exact (nominal_dim_wf_pick l Wn)|]. intros v d H.
    destruct (accepted_children_min _ _ H) as [ts Hts].
    pose proof (children_good _ IH HFl ts Hts) as Hg.
    apply (sd_claim comb_min l ts v d zero_q Hg Hts H).
    + intros a b y Pa Pb E. unfold comb_min in E. destruct (comparable a && comparable b); inversion E; subst.
      apply vmin_zero_q; assumption.
    + exact zero_q_any.
    + apply zero_q_terms with l; assumption.
  - (* QMax *) match goal with Hl : Forall Fin l |- _ => rename Hl into HFl end.
    match goal with Hn : Forall (fun t => value t <> VFloat0) l |- _ => rename Hn into Hnf end.
    pose proof (claims_nominal_wf l IH HFl) as Wn.
    split; [exact (nominal_dim_wf_pick l Wn)|]. intros v d H.
    destruct (accepted_children_max _ _ H) as [ts Hts].
    pose proof (children_good _ IH HFl ts Hts) as Hg.
    apply (sd_claim comb_max l ts v d zero_q Hg Hts H).
    + intros a b y Pa Pb E. unfold comb_max in E. destruct (comparable a && comparable b); inversion E; subst.
      apply vmax_zero_q; assumption.
    + exact zero_q_any.
    + apply zero_q_terms with l; assumption.
  - (* QFun *) split; [exact dzero_wf|]. intros v d H.
    destruct (accepted_children_fun _ _ _ H) as [ts Hts].
    destruct (fun_go_ok_iff collect ov l ts Hts) as [_ Hfo]. cbn [collect] in H. apply Hfo in H.
    inversion H; subst. split; [exact dzero_wf | right; apply deq_refl].
Qed.

(* headline form: for a well-formed tree with finite sub-values the quantity that is built has the value of
   the expression and the dimensional product of its parts (unless the value is zero, i.e. of any dimension) *)
Theorem collect_dim_is_product : forall e, WF e -> Fin e ->
  exists v d, collect e = Ok (v, d) /\ v = value e /\ wf_dim d /\
              (is_any v = true \/ deq d (nominal_dim e)).
Proof.
  intros e Hw HF. apply collect_accepts_iff_WF in Hw as [[v d] H]. exists v, d.
  destruct (collect_dim_claim e HF) as [_ Hc]. destruct (Hc v d H) as [Wd Hd].
  repeat split; [exact H | eapply collect_value; exact H | exact Wd | exact Hd].
Qed.

(* ---- "dimensional product" does not depend on the order of the factors -------------------------------- *)
Lemma dmul_zeros_r a : deq (dmul a (repeat 0%Q (length a))) a.
Proof.
  induction a as [|x a IH]; cbn [dmul map2 length repeat]; constructor; [ring | exact IH].
Qed.

Lemma dmul_dzero_r a : wf_dim a -> deq (dmul a dzero) a.
Proof. intros Hw. pose proof (dmul_zeros_r a) as H. rewrite Hw in H. exact H. Qed.

Definition dprod (ns : list dim) : dim := fold_right dmul dzero ns.

Lemma fold_left_dprod ns : forall n0, wf_dim n0 -> Forall wf_dim ns ->
  deq (fold_left dmul ns n0) (dmul n0 (dprod ns)).
Proof.
  induction ns as [|n r IH]; intros n0 H0 Hf; cbn [fold_left dprod fold_right].
  - apply deq_sym, dmul_dzero_r. exact H0.
  - inversion Hf as [|? ? Hn Hr]; subst.
    apply deq_trans with (dmul (dmul n0 n) (dprod r)); [apply IH; [apply dmul_wf; assumption | exact Hr]|].
    apply dmul_assoc.
Qed.

Lemma dprod_perm ns ns' : Permutation ns ns' -> deq (dprod ns) (dprod ns').
Proof.
  induction 1 as [|x l l' _ IH|x y l|l l' l'' _ IH1 _ IH2]; cbn [dprod fold_right].
  - apply deq_refl.
  - apply dmul_deq; [apply deq_refl | exact IH].
  - fold (dprod l).
    apply deq_trans with (dmul (dmul y x) (dprod l)); [apply deq_sym, dmul_assoc|].
    apply deq_trans with (dmul (dmul x y) (dprod l)); [apply dmul_deq; [apply dmul_comm | apply deq_refl]|].
    apply dmul_assoc.
  - eapply deq_trans; eassumption.
Qed.

Theorem nominal_dim_mul_perm l l' : Permutation l l' -> Forall Fin l ->
  deq (nominal_dim (QMul l)) (nominal_dim (QMul l')).
Proof.
  intros P HF.
  assert (Wl : Forall wf_dim (map nominal_dim l)).
  { clear P. induction HF as [|e r He _ IH]; cbn [map]; constructor; [apply (collect_dim_claim e He) | exact IH]. }
  assert (Wl' : Forall wf_dim (map nominal_dim l')).
  { eapply Forall_perm; [apply Permutation_map; exact P | exact Wl]. }
  assert (Hd : forall k, Forall wf_dim (map nominal_dim k) -> deq (nominal_dim (QMul k)) (dprod (map nominal_dim k))).
  { intros [|x xs] Hk; [apply deq_refl|]. cbn [map] in Hk. inversion Hk; subst.
    cbn [nominal_dim]. apply fold_left_dprod; assumption. }
  apply deq_trans with (dprod (map nominal_dim l)); [apply Hd; exact Wl|].
  apply deq_trans with (dprod (map nominal_dim l')); [apply dprod_perm, Permutation_map; exact P|].
  apply deq_sym, Hd. exact Wl'.
Qed.

(* ================================================================================================ *)
(* Non-vacuity and sharpness                                                                         *)
(* ================================================================================================ *)

(* 2*(3 m)^2*kilo + |(-5) m m| + f(2 s (4 s)^-1) * Max((1 m)^2, 7 m m, 0 s) + 0 s + sqrt((4 m)^4) *)
Definition deep_tree : qexpr :=
  QAdd [ QMul [QNum (VQ 2); QPow (QQty (VQ 3) d_length) (QNum (VQ 2)); QPrefix (VQ 1000)];
         QAbs (QMul [QNum (VQ (-5)); QQty (VQ 1) d_length; QQty (VQ 1) d_length]);
         QMul [QFun (VQ (1#2)) [QMul [QQty (VQ 2) d_time; QPow (QQty (VQ 4) d_time) (QNum (VQ (-1)))]];
               QMax [QPow (QQty (VQ 1) d_length) (QNum (VQ 2));
                     QMul [QQty (VQ 7) d_length; QQty (VQ 1) d_length];
                     QQty (VQ 0) d_time]];
         QQty (VQ 0) d_time;
         QPow (QPow (QQty (VQ 4) d_length) (QNum (VQ 4))) (QNum (VQ (1#2))) ].

Example deep_tree_accepted : collect deep_tree = Ok (VQ (36049 # 2), dpow d_length 2).
Proof. vm_compute. reflexivity. Qed.

Example deep_tree_WF : WF deep_tree.
Proof. apply collect_accepts_iff_WF. eexists. vm_compute. reflexivity. Qed.

Example deep_tree_Fin : Fin deep_tree.
Proof.
  unfold deep_tree.
  repeat (first [ apply Forall_nil | apply Forall_cons | constructor
                | (vm_compute; reflexivity) | discriminate ]).
Qed.

Example deep_tree_nominal : nominal_dim deep_tree = dpow d_length 2 /\ value deep_tree = VQ (36049 # 2).
Proof. split; vm_compute; reflexivity. Qed.

(* 1 m + (-1 m) + 1 s : not well-formed, refused (in either order) *)
Example cancelling_prefix_not_WF : ~ WF w_cancel /\ ~ WF w_cancel'.
Proof. split; apply collect_refuses_iff_not_WF; exists E_VALUE; vm_compute; reflexivity. Qed.

Example refused_leaves_not_WF : ~ WF (QNum VSym) /\ ~ WF QDeriv /\
  ~ WF (QPow (QNum (VQ 2)) (QQty (VQ 1) d_time)) /\ ~ WF (QFun (VQ 1) [QQty (VQ 1) d_length]) /\
  ~ WF (QMul [QNum (VQ 2); QAdd [QQty (VQ 1) d_length; QQty (VQ 1) d_time]]).
Proof. repeat split; apply collect_refuses_iff_not_WF; exists E_VALUE; vm_compute; reflexivity. Qed.

(* a zero / infinite / NaN term is compatible with any dimension *)
Example any_terms_WF :
  WF (QAdd [QQty (VQ 1) d_length; QQty (VQ 0) d_time; QQty VPInf d_time; QQty VNaN d_time; QQty VFloat0 d_time]).
Proof. apply collect_accepts_iff_WF. eexists. vm_compute. reflexivity. Qed.

(* why WF_min / WF_max ask for comparability only from two terms on: the unary node compares nothing *)
Example unary_min_compares_nothing :
  collect (QMin [QNum VNaN]) = Ok (VNaN, dzero) /\ collect (QMin [QNum VNaN; QNum (VQ 1)]) = Err E_VALUE.
Proof. split; vm_compute; reflexivity. Qed.

(* why Part B needs finite sub-values: with an infinite factor the collected dimension of a product depends on
   the order of the factors (the partial product oo*m is "of any dimension" and drops the dimension collected so
   far), so no order-free function gives the collected dimension on all trees *)
Example collected_dim_order_dependent :
  let a := QMul [QQty VPInf d_length; QQty (VQ 1) d_time; QNum VOther] in
  let b := QMul [QNum VOther; QQty VPInf d_length; QQty (VQ 1) d_time] in
  Permutation [QQty VPInf d_length; QQty (VQ 1) d_time; QNum VOther]
              [QNum VOther; QQty VPInf d_length; QQty (VQ 1) d_time] /\
  collect a = Ok (VOther, dzero) /\ collect b = Ok (VOther, dmul d_length d_time) /\
  nominal_dim a = dmul d_length d_time /\ deqb dzero (dmul d_length d_time) = false.
Proof.
  cbv zeta. split.
  - apply Permutation_sym. eapply perm_trans; [apply perm_swap|]. apply perm_skip. apply perm_swap.
  - repeat split; vm_compute; reflexivity.
Qed.

(* ... and why the value of every power must be finite: (0 m)^-1 is zoo with the dimension dropped *)
Example dim_needs_finite_power :
  let z := QPow (QMul [QNum (VQ 0); QQty (VQ 1) d_length]) (QNum (VQ (-1))) in
  collect z = Ok (VZoo, dzero) /\ is_any VZoo = false /\ deqb dzero (nominal_dim z) = false.
Proof. cbv zeta. repeat split; vm_compute; reflexivity. Qed.

(* ... and why Min/Max exclude the literal Float(0.0): the model's Min(0.0, 0) is the coarse VOther *)
Example dim_needs_no_float0_in_min :
  let m := QMin [QNum VFloat0; QMul [QNum (VQ 0); QQty (VQ 1) d_length]] in
  collect m = Ok (VOther, dzero) /\ deqb dzero (nominal_dim m) = false.
Proof. cbv zeta. repeat split; vm_compute; reflexivity. Qed.

Print Assumptions collect_accepts_iff_WF.
Print Assumptions collect_refuses_iff_not_WF.
Print Assumptions collect_order_irrelevant.
Print Assumptions collect_dim_claim.
Print Assumptions collect_dim_is_product.
Print Assumptions nominal_dim_mul_perm.
Print Assumptions deep_tree_WF.
Print Assumptions deep_tree_Fin.
Print Assumptions cancelling_prefix_not_WF.
Print Assumptions collected_dim_order_dependent.
