(* Lemmas about Model/CodeSyntax.v and the tactic used by the generated per-formula obligations of C17/C18. *)
From Coq Require Import String Ascii List ZArith NArith Bool Arith Lia Reals Lra Psatz Field Nsatz.
From VP Require Import Base.RTac Model.CodeSyntax.
Import ListNotations.

(* ================================================================================================ *)
(* Part 1.  Tactic for  `reading of the rendering = reading of the original`  over R                  *)
(* ================================================================================================ *)
Local Open Scope R_scope.

Lemma rd_ln_neq (x : R) : 0 < x -> x <> 1 -> ln x <> 0.
Proof.
  intros Hx H1 H0. apply H1. rewrite <- (exp_ln x Hx). rewrite H0. apply exp_0.
Qed.

Lemma rd_ln_lit_neq (x : R) : 1 < x -> ln x <> 0.
Proof.
  intros H. apply rd_ln_neq; lra.
Qed.

Lemma rd_exp_opp (a b : R) : a = - b -> exp a = / exp b.
Proof. intros ->. apply exp_Ropp. Qed.

Lemma rd_rpower_opp (a b x y : R) : a = b -> x = - y -> Rpower a x = / Rpower b y.
Proof. intros -> ->. apply Rpower_Ropp. Qed.

Lemma rd_phi_cons (x y : R) (l m : list R) : x = y -> l = m -> x :: l = y :: m.
Proof. intros -> ->. reflexivity. Qed.

Lemma rd_rpower_inv (a z : R) : 0 < a -> Rpower (/ a) z = / Rpower a z.
Proof.
  intros Ha. unfold Rpower. rewrite ln_Rinv by assumption.
  replace (z * - ln a) with (- (z * ln a)) by ring. apply exp_Ropp.
Qed.

Lemma rd_rpower_mul (a b z : R) : 0 < a -> 0 < b -> Rpower (a * b) z = Rpower a z * Rpower b z.
Proof. intros. symmetry. apply Rpower_mult_distr; assumption. Qed.

Lemma rd_rpower_pow (a z : R) (n : nat) : 0 < a -> Rpower (a ^ n) z = Rpower a (INR n * z).
Proof.
  intros Ha. rewrite <- (Rpower_pow n a Ha). apply Rpower_mult.
Qed.

Lemma rd_sqrt_mul (a b : R) : 0 <= a -> 0 <= b -> sqrt (a * b) = sqrt a * sqrt b.
Proof. apply sqrt_mult. Qed.

(* positivity from hypotheses *)
Ltac rd_pos := first [ assumption | lra | (apply Rlt_le; assumption) | (apply Rinv_0_lt_compat; assumption)
                     | (apply Rmult_lt_0_compat; rd_pos) | (apply pow_lt; rd_pos) | (apply sqrt_lt_R0; rd_pos)
                     | apply exp_pos | (unfold Rpower; apply exp_pos) | apply PI_RGT_0 | timeout 5 nra ].

(* push inverses inward (all unconditional in Coq 8.16) and split powers/roots of products of positive factors,
   so that both readings reach the same multiplicative normal form *)
Ltac rd_norm :=
  unfold Rdiv;
  repeat first
  [ rewrite Rinv_mult
  | rewrite Rinv_inv
  | rewrite Rinv_opp
  | rewrite <- pow_inv
  | rewrite Rinv_1
  | rewrite sqrt_inv
  | match goal with
    | |- context [Rpower (?a * ?b) ?z] => rewrite (rd_rpower_mul a b z) by rd_pos
    | |- context [Rpower (/ ?a) ?z] => rewrite (rd_rpower_inv a z) by rd_pos
    | |- context [sqrt (?a * ?b)] => rewrite (rd_sqrt_mul a b) by (first [ assumption | lra | (apply Rlt_le; rd_pos) ])
    end ].

(* non-zero side conditions: from a hypothesis about a ring-equal term, else the shared portfolio *)
Ltac rd_nz1 :=
  first
  [ assumption
  | apply Rgt_not_eq; assumption
  | apply Rlt_not_eq; assumption
  | apply rd_ln_lit_neq; lra
  | match goal with
    | H : ?t <> 0 |- ?u <> 0 =>
        let E := fresh "rdE" in intro E; apply H;
        first [ lra | (replace t with u by (timeout 5 ring); exact E) ]
    | H : 0 < ?t |- ?u <> 0 => apply Rgt_not_eq; first [ lra | (replace u with t by (timeout 5 ring); exact H) ]
    end
  | timeout 15 vp_nz1
  | match goal with
    | H : ?t <> 0 |- ?u <> 0 =>
        let E := fresh "rdE" in intro E; apply H;
        timeout 10 (field_simplify_eq; [ first [ lra | nra | (rewrite <- E; ring) | (ring_simplify; ring_simplify in E; exact E) ] | repeat split; vp_nz1 ])
    end ].

Ltac rd_side := repeat split; rd_nz1.

(* equality of two arguments: syntactic, ring, field *)
Ltac rd_arg :=
  first
  [ reflexivity
  | solve [ timeout 30 (unfold Rdiv; ring) ]
  | solve [ timeout 30 (rd_norm; ring) ]
  | solve [ timeout 60 (field; rd_side) ] ].

Ltac rd_replace a b tac :=
  let H := fresh "rdH" in assert (H : a = b) by tac; rewrite H; clear H.

Ltac rd_list :=
  lazymatch goal with
  | |- @nil R = @nil R => reflexivity
  | |- _ :: _ = _ :: _ => apply rd_phi_cons; [ rd_arg_deep | rd_list ]
  end
with rd_arg_deep := first [ rd_arg | (rd_norm; rd_arg) | (rd_norm; rd_cong; rd_arg) ]

(* make equal-valued applications of the same head syntactically equal (congruence modulo ring/field) *)
with rd_cong1 f :=
  repeat match goal with
  | |- context [f ?a] =>
      match goal with
      | |- context [f ?b] =>
          tryif constr_eq a b then fail else
          rd_replace (f a) (f b) ltac:(apply (f_equal f); rd_arg)
      end
  end
with rd_cong_exp :=
  repeat match goal with
  | |- context [exp ?a] =>
      match goal with
      | |- context [exp ?b] =>
          tryif constr_eq a b then fail else
          first [ rd_replace (exp a) (exp b) ltac:(apply (f_equal exp); rd_arg)
                | rd_replace (exp a) (/ exp b) ltac:(apply rd_exp_opp; rd_arg) ]
      end
  end
with rd_cong_rpower :=
  repeat match goal with
  | |- context [Rpower ?a ?x] =>
      match goal with
      | |- context [Rpower ?b ?y] =>
          tryif (constr_eq a b; constr_eq x y) then fail else
          first [ rd_replace (Rpower a x) (Rpower b y) ltac:(apply f_equal2; rd_arg)
                | rd_replace (Rpower a x) (/ Rpower b y) ltac:(apply rd_rpower_opp; rd_arg) ]
      end
  end
with rd_cong_phi :=
  repeat match goal with
  | |- context [?phi ?h ?l] =>
      lazymatch type of phi with string -> list R -> R => idtac end;
      match goal with
      | |- context [phi h ?m] =>
          tryif constr_eq l m then fail else
          rd_replace (phi h l) (phi h m) ltac:(apply (f_equal (phi h)); rd_list)
      end
  end
with rd_cong_round :=
  rd_cong1 Rinv; rd_cong1 sqrt; rd_cong1 ln; rd_cong1 sin; rd_cong1 cos; rd_cong1 tan; rd_cong1 asin; rd_cong1 acos;
  rd_cong1 atan; rd_cong1 sinh; rd_cong1 cosh; rd_cong1 tanh; rd_cong1 Rabs; rd_cong_exp; rd_cong_rpower; rd_cong_phi
with rd_cong := rd_cong_round; rd_cong_round; rd_cong1 Rinv.

(* one scripted step  FROM = TO  (the pairing is proposed by the harness, the equality is proved here) *)
Ltac rd_eq :=
  first
  [ reflexivity
  | (apply rd_exp_opp; rd_arg)
  | (apply rd_rpower_opp; rd_arg)
  | (apply f_equal2; rd_arg)
  | (apply f_equal; first [ rd_arg | rd_list ])
  | rd_arg ].

(* identity between closed rational expressions *)
Ltac rd_closed := first [ reflexivity | solve [ timeout 30 (unfold Rdiv; ring) ] | solve [ timeout 60 field ] | solve [ timeout 30 lra ] ].

Ltac rd_ring_arg := first [ reflexivity | solve [ timeout 30 (unfold Rdiv; ring) ] ].

Ltac rd_cong_inv :=
  repeat match goal with
  | |- context [/ ?a] =>
      match goal with
      | |- context [/ ?b] =>
          tryif constr_eq a b then fail else
          rd_replace (/ a) (/ b) ltac:(apply (f_equal Rinv); rd_ring_arg)
      end
  end.

Ltac rd_final :=
  first
  [ reflexivity
  | solve [ timeout 60 (unfold Rdiv; ring) ]
  | solve [ timeout 90 (field; rd_side) ]
  | solve [ timeout 90 (field_simplify_eq; [ ring | rd_side ]) ] ].

Ltac rd_last :=
  first
  [ solve [ vp_abs_sqrt; first [ timeout 20 ring | timeout 30 (field; rd_side) | timeout 20 nsatz ] ]
  | solve [ timeout 20 nra ] ].

Ltac rd_solve_core :=
  first [ reflexivity
        | solve [ timeout 60 (unfold Rdiv; ring) ]
        | solve [ rd_norm; first [ reflexivity | solve [ timeout 60 ring ] | solve [ rd_cong_inv; timeout 60 ring ] ] ]
        | solve [ timeout 90 (field; rd_side) ]
        | solve [ rd_norm; rd_cong; rd_final ]
        | solve [ rd_cong; rd_final ]
        | rd_last ].

(* the whole portfolio under one budget, so that no generated obligation can stall its shard *)
Ltac rd_solve := timeout 600 rd_solve_core.

(* ================================================================================================ *)
(* Part 2.  The parser: fuel never runs out, more fuel never changes the answer                      *)
(* ================================================================================================ *)
Local Close Scope R_scope.
Local Open Scope nat_scope.

(* ---- monotonicity in the fuel ---- *)

Definition mono_at (n : nat) : Prop :=
  (forall bp ts r, p_expr n bp ts = r -> r <> POof -> forall m, n <= m -> p_expr m bp ts = r) /\
  (forall bp l ts r, p_loop n bp l ts = r -> r <> POof -> forall m, n <= m -> p_loop m bp l ts = r) /\
  (forall ts r, p_prefix n ts = r -> r <> POof -> forall m, n <= m -> p_prefix m ts = r) /\
  (forall a ts r, p_post n a ts = r -> r <> POof -> forall m, n <= m -> p_post m a ts = r) /\
  (forall sq ts r, p_args n sq ts = r -> r <> POof -> forall m, n <= m -> p_args m sq ts = r) /\
  (forall sq ts r, p_items n sq ts = r -> r <> POof -> forall m, n <= m -> p_items m sq ts = r).

Ltac mono_sub IHe IHp IHa IHi m' :=
  repeat match goal with
  | H : context [match p_expr ?n ?bp ?ts with _ => _ end] |- _ =>
      let E := fresh "E" in destruct (p_expr n bp ts) as [[? ?]| |] eqn:E;
      [ rewrite (IHe _ _ _ E ltac:(discriminate) m' ltac:(lia))
      | rewrite (IHe _ _ _ E ltac:(discriminate) m' ltac:(lia))
      | congruence ]
  | H : context [match p_prefix ?n ?ts with _ => _ end] |- _ =>
      let E := fresh "E" in destruct (p_prefix n ts) as [[? ?]| |] eqn:E;
      [ rewrite (IHp _ _ E ltac:(discriminate) m' ltac:(lia))
      | rewrite (IHp _ _ E ltac:(discriminate) m' ltac:(lia))
      | congruence ]
  | H : context [match p_args ?n ?sq ?ts with _ => _ end] |- _ =>
      let E := fresh "E" in destruct (p_args n sq ts) as [[? ?]| |] eqn:E;
      [ rewrite (IHa _ _ _ E ltac:(discriminate) m' ltac:(lia))
      | rewrite (IHa _ _ _ E ltac:(discriminate) m' ltac:(lia))
      | congruence ]
  | H : context [match p_items ?n ?sq ?ts with _ => _ end] |- _ =>
      let E := fresh "E" in destruct (p_items n sq ts) as [[? ?]| |] eqn:E;
      [ rewrite (IHi _ _ _ E ltac:(discriminate) m' ltac:(lia))
      | rewrite (IHi _ _ _ E ltac:(discriminate) m' ltac:(lia))
      | congruence ]
  end.

Lemma mono_all : forall n, mono_at n.
Proof.
  induction n as [|n IH].
  - repeat split; intros; simpl in *; subst; congruence.
  - destruct IH as (IHe & IHl & IHp & IHo & IHa & IHi).
    repeat split.
    + (* p_expr *)
      intros bp ts r H Hr m Hm. destruct m as [|m']; [lia|]. simpl in *.
      mono_sub IHe IHp IHa IHi m'; try congruence.
      apply IHl; [assumption | assumption | lia].
    + (* p_loop *)
      intros bp l ts r H Hr m Hm. destruct m as [|m']; [lia|]. simpl in *.
      destruct ts as [|t ts']; [assumption|].
      destruct (binop_of t) as [[[o lb] rb]|]; [|assumption].
      destruct (bp <=? lb); [|assumption].
      mono_sub IHe IHp IHa IHi m'; try congruence.
      apply IHl; [assumption | assumption | lia].
    + (* p_prefix *)
      intros ts r H Hr m Hm. destruct m as [|m']; [lia|]. simpl in *.
      destruct ts as [|t ts']; [assumption|].
      destruct t; try assumption.
      * apply IHo; [assumption | assumption | lia].
      * destruct ts' as [|t2 ts2]; [apply IHo; [assumption | assumption | lia]|].
        destruct t2; try (apply IHo; [assumption | assumption | lia]).
        mono_sub IHe IHp IHa IHi m'; try congruence.
        apply IHo; [assumption | assumption | lia].
      * mono_sub IHe IHp IHa IHi m'; congruence.
      * mono_sub IHe IHp IHa IHi m'; try congruence.
        destruct l as [|a0 [|a1 l1]]; apply IHo; (assumption || lia).
      * mono_sub IHe IHp IHa IHi m'; try congruence.
        apply IHo; [assumption | assumption | lia].
    + (* p_post *)
      intros a ts r H Hr m Hm. destruct m as [|m']; [lia|]. simpl in *.
      destruct ts as [|t ts']; [assumption|].
      destruct t; try assumption.
      * mono_sub IHe IHp IHa IHi m'; try congruence.
        apply IHo; [assumption | assumption | lia].
      * apply IHo; [assumption | assumption | lia].
    + (* p_args *)
      intros sq ts r H Hr m Hm. destruct m as [|m']; [lia|]. simpl in *.
      destruct ts as [|t ts']; [assumption|].
      destruct (is_close sq t); [assumption|].
      apply IHi; [assumption | assumption | lia].
    + (* p_items *)
      intros sq ts r H Hr m Hm. destruct m as [|m']; [lia|]. simpl in *.
      mono_sub IHe IHp IHa IHi m'; try congruence.
      destruct l as [|t r0]; [assumption|].
      destruct (is_close sq t); [assumption|].
      destruct (is_comma t); [|assumption].
      mono_sub IHe IHp IHa IHi m'; congruence.
Qed.

(* ---- a successful parse consumes tokens ---- *)

Definition cons_at (n : nat) : Prop :=
  (forall bp ts a r, p_expr n bp ts = POk (a, r) -> length r < length ts) /\
  (forall bp l ts a r, p_loop n bp l ts = POk (a, r) -> length r <= length ts) /\
  (forall ts a r, p_prefix n ts = POk (a, r) -> length r < length ts) /\
  (forall a0 ts a r, p_post n a0 ts = POk (a, r) -> length r <= length ts) /\
  (forall sq ts l r, p_args n sq ts = POk (l, r) -> length r < length ts) /\
  (forall sq ts l r, p_items n sq ts = POk (l, r) -> length r < length ts).

Ltac cons_sub IHe IHp IHa IHi :=
  repeat match goal with
  | H : context [match p_expr ?n ?bp ?ts with _ => _ end] |- _ =>
      let E := fresh "E" in destruct (p_expr n bp ts) as [[? ?]| |] eqn:E;
      [ apply IHe in E | discriminate | discriminate ]
  | H : context [match p_prefix ?n ?ts with _ => _ end] |- _ =>
      let E := fresh "E" in destruct (p_prefix n ts) as [[? ?]| |] eqn:E;
      [ apply IHp in E | discriminate | discriminate ]
  | H : context [match p_args ?n ?sq ?ts with _ => _ end] |- _ =>
      let E := fresh "E" in destruct (p_args n sq ts) as [[? ?]| |] eqn:E;
      [ apply IHa in E | discriminate | discriminate ]
  | H : context [match p_items ?n ?sq ?ts with _ => _ end] |- _ =>
      let E := fresh "E" in destruct (p_items n sq ts) as [[? ?]| |] eqn:E;
      [ apply IHi in E | discriminate | discriminate ]
  end.

Lemma cons_all : forall n, cons_at n.
Proof.
  induction n as [|n IH].
  - repeat split; intros; simpl in *; discriminate.
  - destruct IH as (IHe & IHl & IHp & IHo & IHa & IHi).
    repeat split.
    + intros bp ts a r H. simpl in H. cons_sub IHe IHp IHa IHi.
      apply IHl in H. lia.
    + intros bp l ts a r H. simpl in H.
      destruct ts as [|t ts']; [inversion H; subst; simpl; lia|].
      destruct (binop_of t) as [[[o lb] rb]|]; [|inversion H; subst; simpl; lia].
      destruct (bp <=? lb); [|inversion H; subst; simpl; lia].
      cons_sub IHe IHp IHa IHi. apply IHl in H. simpl. lia.
    + intros ts a r H. simpl in H.
      destruct ts as [|t ts']; [discriminate|].
      destruct t; try discriminate.
      * apply IHo in H. simpl. lia.
      * destruct ts' as [|t2 ts2]; [apply IHo in H; simpl in *; lia|].
        destruct t2; try (apply IHo in H; simpl in *; lia).
        cons_sub IHe IHp IHa IHi. apply IHo in H. simpl in *. lia.
      * cons_sub IHe IHp IHa IHi. inversion H; subst. simpl. lia.
      * cons_sub IHe IHp IHa IHi.
        destruct l as [|a0 [|a1 l1]]; apply IHo in H; simpl in *; lia.
      * cons_sub IHe IHp IHa IHi. apply IHo in H. simpl in *. lia.
    + intros a0 ts a r H. simpl in H.
      destruct ts as [|t ts']; [inversion H; subst; simpl; lia|].
      destruct t; try (inversion H; subst; simpl; lia).
      * cons_sub IHe IHp IHa IHi. apply IHo in H. simpl in *. lia.
      * apply IHo in H. simpl in *. lia.
    + intros sq ts l r H. simpl in H.
      destruct ts as [|t ts']; [discriminate|].
      destruct (is_close sq t); [inversion H; subst; simpl; lia|].
      apply IHi in H. assumption.
    + intros sq ts l r H. simpl in H.
      cons_sub IHe IHp IHa IHi.
      destruct l0 as [|t r0]; [discriminate|].
      destruct (is_close sq t); [inversion H; subst; simpl in *; lia|].
      destruct (is_comma t); [|discriminate].
      cons_sub IHe IHp IHa IHi. inversion H; subst. simpl in *. lia.
Qed.

(* ---- the fuel of parse_toks is enough: the parser never answers "out of fuel" ---- *)

Definition enough_at (n : nat) : Prop :=
  (forall bp ts, 4 * length ts + 4 <= n -> p_expr n bp ts <> POof) /\
  (forall bp l ts, 4 * length ts + 1 <= n -> p_loop n bp l ts <> POof) /\
  (forall ts, 4 * length ts + 3 <= n -> p_prefix n ts <> POof) /\
  (forall a ts, 4 * length ts + 3 <= n -> p_post n a ts <> POof) /\
  (forall sq ts, 4 * length ts + 6 <= n -> p_args n sq ts <> POof) /\
  (forall sq ts, 4 * length ts + 5 <= n -> p_items n sq ts <> POof).

Lemma enough_all : forall n, enough_at n.
Proof.
  induction n as [|n IH].
  - repeat split; intros; lia.
  - destruct IH as (IHe & IHl & IHp & IHo & IHa & IHi).
    destruct (cons_all n) as (Ce & Cl & Cp & Co & Ca & Ci).
    repeat split.
    + intros bp ts Hn. simpl.
      destruct (p_prefix n ts) as [[lhs r]| |] eqn:E.
      * apply Cp in E. apply IHl. lia.
      * discriminate.
      * exfalso. revert E. apply IHp. lia.
    + intros bp l ts Hn. simpl.
      destruct ts as [|t ts']; [discriminate|].
      destruct (binop_of t) as [[[o lb] rb]|]; [|discriminate].
      destruct (bp <=? lb); [|discriminate].
      simpl in Hn.
      destruct (p_expr n rb ts') as [[rhs r']| |] eqn:E.
      * apply Ce in E. apply IHl. lia.
      * discriminate.
      * exfalso. revert E. apply IHe. lia.
    + intros ts Hn. simpl.
      destruct ts as [|t ts']; [discriminate|]. simpl in Hn.
      destruct t; try discriminate.
      * apply IHo. lia.
      * destruct ts' as [|t2 ts2]; [apply IHo; simpl; lia|].
        destruct t2; try (apply IHo; simpl in *; lia).
        simpl in Hn.
        destruct (p_args n false ts2) as [[args r']| |] eqn:E.
        -- apply Ca in E. apply IHo. lia.
        -- discriminate.
        -- exfalso. revert E. apply IHa. lia.
      * destruct (p_expr n neg_bp ts') as [[a r']| |] eqn:E; try discriminate.
        exfalso. revert E. apply IHe. lia.
      * destruct (p_args n false ts') as [[args r']| |] eqn:E.
        -- apply Ca in E. destruct args as [|a0 [|a1 l1]]; apply IHo; lia.
        -- discriminate.
        -- exfalso. revert E. apply IHa. lia.
      * destruct (p_args n true ts') as [[args r']| |] eqn:E.
        -- apply Ca in E. apply IHo. lia.
        -- discriminate.
        -- exfalso. revert E. apply IHa. lia.
    + intros a ts Hn. simpl.
      destruct ts as [|t ts']; [discriminate|]. simpl in Hn.
      destruct t; try discriminate.
      * destruct (p_args n true ts') as [[args r']| |] eqn:E.
        -- apply Ca in E. apply IHo. lia.
        -- discriminate.
        -- exfalso. revert E. apply IHa. lia.
      * apply IHo. lia.
    + intros sq ts Hn. simpl.
      destruct ts as [|t ts']; [discriminate|].
      destruct (is_close sq t); [discriminate|].
      apply IHi. lia.
    + intros sq ts Hn. simpl.
      destruct (p_expr n 0 ts) as [[a r]| |] eqn:E.
      * apply Ce in E. destruct r as [|t r0]; [discriminate|].
        destruct (is_close sq t); [discriminate|].
        destruct (is_comma t); [|discriminate].
        simpl in E.
        destruct (p_items n sq r0) as [[l r']| |] eqn:E2; try discriminate.
        exfalso. revert E2. apply IHi. lia.
      * discriminate.
      * exfalso. revert E. apply IHe. lia.
Qed.

Lemma parse_total_lemma : forall ts, p_expr (fuel_of ts) 0 ts <> POof.
Proof.
  intros ts. apply (enough_all (fuel_of ts)). unfold fuel_of. lia.
Qed.

Lemma parse_fuel_monotone_lemma :
  forall n m bp ts r, p_expr n bp ts = r -> r <> POof -> n <= m -> p_expr m bp ts = r.
Proof.
  intros n m bp ts r H Hr Hm. exact (proj1 (mono_all n) bp ts r H Hr m Hm).
Qed.

(* the answer of parse_toks is the answer for every larger amount of fuel: fuel is not an observable *)
Lemma parse_toks_fuel_irrelevant :
  forall ts n, fuel_of ts <= n ->
    parse_toks ts = match p_expr n 0 ts with POk (a, []) => Some a | _ => None end.
Proof.
  intros ts n Hn. unfold parse_toks.
  rewrite (parse_fuel_monotone_lemma (fuel_of ts) n 0 ts _ eq_refl (parse_total_lemma ts) Hn).
  reflexivity.
Qed.

(* ================================================================================================ *)
(* Part 3.  parse_toks is a left inverse of the reference printer                                    *)
(* ================================================================================================ *)

(* "with enough fuel the answer is ..." *)
Definition Pexpr bp ts res := exists n, p_expr n bp ts = POk res.
Definition Ploop bp l ts res := exists n, p_loop n bp l ts = POk res.
Definition Pprefix ts res := exists n, p_prefix n ts = POk res.
Definition Ppost a ts res := exists n, p_post n a ts = POk res.
Definition Pargs sq ts res := exists n, p_args n sq ts = POk res.
Definition Pitems sq ts res := exists n, p_items n sq ts = POk res.

Lemma ok_not_oof {A} (x : A) : POk x <> POof.
Proof. discriminate. Qed.

Ltac lift_e H m := apply (proj1 (mono_all _) _ _ _ H (ok_not_oof _) m); lia.
Ltac lift_l H m := apply (proj1 (proj2 (mono_all _)) _ _ _ _ H (ok_not_oof _) m); lia.
Ltac lift_p H m := apply (proj1 (proj2 (proj2 (mono_all _))) _ _ H (ok_not_oof _) m); lia.
Ltac lift_o H m := apply (proj1 (proj2 (proj2 (proj2 (mono_all _)))) _ _ _ H (ok_not_oof _) m); lia.
Ltac lift_a H m := apply (proj1 (proj2 (proj2 (proj2 (proj2 (mono_all _))))) _ _ _ H (ok_not_oof _) m); lia.
Ltac lift_i H m := apply (proj2 (proj2 (proj2 (proj2 (proj2 (mono_all _))))) _ _ _ H (ok_not_oof _) m); lia.

Lemma R_expr bp ts l r0 res : Pprefix ts (l, r0) -> Ploop bp l r0 res -> Pexpr bp ts res.
Proof.
  intros [n1 H1] [n2 H2]. exists (S (n1 + n2)). simpl.
  assert (E1 : p_prefix (n1 + n2) ts = POk (l, r0)) by lift_p H1 (n1 + n2).
  rewrite E1. lift_l H2 (n1 + n2).
Qed.

Definition nopost (t : token) : bool :=
  match t with TLB | TDotT | TLP => false | _ => true end.

(* the loop at binding power c stops in front of `rest` *)
Definition stops (c : nat) (rest : list token) : Prop :=
  match rest with
  | [] => True
  | t :: _ => nopost t = true /\ match binop_of t with Some (_, lb, _) => lb < c | None => True end
  end.

Lemma stops_mono c c' rest : stops c rest -> c <= c' -> stops c' rest.
Proof.
  destruct rest as [|t r]; simpl; [trivial|].
  intros [H1 H2] Hc. split; [assumption|].
  destruct (binop_of t) as [[[o lb] rb]|]; [lia|trivial].
Qed.

Lemma R_loop_stop bp l rest : stops bp rest -> Ploop bp l rest (l, rest).
Proof.
  intros H. exists 1. simpl. destruct rest as [|t r]; [reflexivity|].
  simpl in H. destruct H as [_ H]. revert H. destruct (binop_of t) as [[[o lb] rb]|]; [|reflexivity].
  intros H. destruct (bp <=? lb) eqn:E; [apply Nat.leb_le in E; lia|reflexivity].
Qed.

Definition lbp_of (o : binop) : nat :=
  match o with OEq => 1 | OAdd | OSub => 3 | OMul | ODiv => 5 | OPow => 9 end.

Lemma R_loop_step bp l o y r r' res :
  bp <= lbp_of o ->
  Pexpr (right_ctx o) r (y, r') -> Ploop bp (ABin o l y) r' res -> Ploop bp l (tok_of o :: r) res.
Proof.
  intros Hbp [n1 H1] [n2 H2]. exists (S (n1 + n2)). simpl.
  assert (B : binop_of (tok_of o) = Some (o, lbp_of o, right_ctx o)) by (destruct o; reflexivity).
  rewrite B.
  assert (L : (bp <=? lbp_of o) = true) by (apply Nat.leb_le; assumption).
  rewrite L.
  assert (E1 : p_expr (n1 + n2) (right_ctx o) r = POk (y, r')) by lift_e H1 (n1 + n2).
  rewrite E1. lift_l H2 (n1 + n2).
Qed.

Lemma R_neg r a r' : Pexpr 7 r (a, r') -> Pprefix (TMinus :: r) (ANeg a, r').
Proof.
  intros [n H]. exists (S n). simpl. unfold neg_bp. rewrite H. reflexivity.
Qed.

Lemma R_num m e r res : Ppost (ANum m e) r res -> Pprefix (TNum m e :: r) res.
Proof. intros [n H]. exists (S n). simpl. assumption. Qed.

Definition nolp (rest : list token) : Prop := match rest with TLP :: _ => False | _ => True end.

Lemma R_var s r res : nolp r -> Ppost (AVar s) r res -> Pprefix (TId s :: r) res.
Proof.
  intros Hr [n H]. exists (S n). simpl.
  destruct r as [|t r']; [assumption|]. destruct t; try assumption. contradiction.
Qed.

Lemma R_call s r args r' res :
  Pargs false r (args, r') -> Ppost (ACall s args) r' res -> Pprefix (TId s :: TLP :: r) res.
Proof.
  intros [n1 H1] [n2 H2]. exists (S (n1 + n2)). simpl.
  assert (E1 : p_args (n1 + n2) false r = POk (args, r')) by lift_a H1 (n1 + n2).
  rewrite E1. lift_o H2 (n1 + n2).
Qed.

Lemma R_paren r a r' res :
  Pargs false r ([a]%list, r') -> Ppost a r' res -> Pprefix (TLP :: r) res.
Proof.
  intros [n1 H1] [n2 H2]. exists (S (n1 + n2)). simpl.
  assert (E1 : p_args (n1 + n2) false r = POk ([a]%list, r')) by lift_a H1 (n1 + n2).
  rewrite E1. lift_o H2 (n1 + n2).
Qed.

Lemma R_tuple r args r' res :
  Pargs false r (args, r') -> length args <> 1 -> Ppost (ACall "tuple" args) r' res -> Pprefix (TLP :: r) res.
Proof.
  intros [n1 H1] Hl [n2 H2]. exists (S (n1 + n2)). simpl.
  assert (E1 : p_args (n1 + n2) false r = POk (args, r')) by lift_a H1 (n1 + n2).
  rewrite E1.
  destruct args as [|a0 [|a1 l1]]; [| simpl in Hl; lia |]; lift_o H2 (n1 + n2).
Qed.

Lemma R_list r args r' res :
  Pargs true r (args, r') -> Ppost (ACall "list" args) r' res -> Pprefix (TLB :: r) res.
Proof.
  intros [n1 H1] [n2 H2]. exists (S (n1 + n2)). simpl.
  assert (E1 : p_args (n1 + n2) true r = POk (args, r')) by lift_a H1 (n1 + n2).
  rewrite E1. lift_o H2 (n1 + n2).
Qed.

Definition nopostfix (rest : list token) : Prop :=
  match rest with TLB :: _ | TDotT :: _ => False | _ => True end.

Lemma R_post_stop a rest : nopostfix rest -> Ppost a rest (a, rest).
Proof.
  intros H. exists 1. simpl. destruct rest as [|t r]; [reflexivity|].
  destruct t; try reflexivity; contradiction.
Qed.

Lemma R_post_index a r args r' res :
  Pargs true r (args, r') -> Ppost (ACall "index" (a :: args)) r' res -> Ppost a (TLB :: r) res.
Proof.
  intros [n1 H1] [n2 H2]. exists (S (n1 + n2)). simpl.
  assert (E1 : p_args (n1 + n2) true r = POk (args, r')) by lift_a H1 (n1 + n2).
  rewrite E1. lift_o H2 (n1 + n2).
Qed.

Lemma R_post_T a r res : Ppost (ACall "T" [a]%list) r res -> Ppost a (TDotT :: r) res.
Proof. intros [n H]. exists (S n). simpl. assumption. Qed.

Definition close_tok (sq : bool) : token := if sq then TRB else TRP.

Lemma R_args_empty sq r : Pargs sq (close_tok sq :: r) ([], r).
Proof. exists 1. destruct sq; reflexivity. Qed.

Lemma R_args_items sq t r res : is_close sq t = false -> Pitems sq (t :: r) res -> Pargs sq (t :: r) res.
Proof. intros Hc [n H]. exists (S n). simpl. rewrite Hc. assumption. Qed.

Lemma R_args_items2 sq ts t q res :
  ts = t :: q -> is_close sq t = false -> Pitems sq ts res -> Pargs sq ts res.
Proof. intros ->. apply R_args_items. Qed.

Lemma R_items_last sq ts a r : Pexpr 0 ts (a, close_tok sq :: r) -> Pitems sq ts ([a]%list, r).
Proof.
  intros [n H]. exists (S n). simpl. rewrite H. destruct sq; reflexivity.
Qed.

Lemma R_items_more sq ts a r l r' :
  Pexpr 0 ts (a, TComma :: r) -> Pitems sq r (l, r') -> Pitems sq ts (a :: l, r').
Proof.
  intros [n1 H1] [n2 H2]. exists (S (n1 + n2)). simpl.
  assert (E1 : p_expr (n1 + n2) 0 ts = POk (a, TComma :: r)) by lift_e H1 (n1 + n2).
  rewrite E1.
  assert (E2 : p_items (n1 + n2) sq r = POk (l, r')) by lift_i H2 (n1 + n2).
  destruct sq; simpl; rewrite E2; reflexivity.
Qed.

(* ---- induction principle for the nested type ---- *)

Lemma aexpr_ind2 (P : aexpr -> Prop)
  (Hn : forall m e, P (ANum m e)) (Hv : forall s, P (AVar s)) (Hg : forall a, P a -> P (ANeg a))
  (Hb : forall o a b, P a -> P b -> P (ABin o a b))
  (Hc : forall f args, Forall P args -> P (ACall f args)) : forall a, P a.
Proof.
  fix IH 1. intros [m e|s|a|o a b|f args].
  - apply Hn.
  - apply Hv.
  - apply Hg, IH.
  - apply Hb; apply IH.
  - apply Hc. revert args. fix IHl 1. intros [|x r]; constructor; [apply IH | apply IHl].
Qed.

Fixpoint sep_toks (l : list aexpr) : list token :=
  match l with
  | [] => []
  | x :: r => match r with [] => raw x | _ :: _ => raw x ++ TComma :: sep_toks r end
  end.

Lemma raw_call f args :
  raw (ACall f args) =
  if (f =? "list")%string then TLB :: sep_toks args ++ [TRB]%list
  else if ((f =? "tuple")%string && negb (length args =? 1))%bool then TLP :: sep_toks args ++ [TRP]%list
  else match args with
       | a0 :: more =>
           if (f =? "index")%string then show 10 a0 ++ TLB :: sep_toks more ++ [TRB]%list
           else if ((f =? "T")%string && (length more =? 0))%bool then show 10 a0 ++ [TDotT]%list
           else TId f :: TLP :: sep_toks args ++ [TRP]%list
       | [] => TId f :: TLP :: sep_toks args ++ [TRP]%list
       end.
Proof. reflexivity. Qed.

Definition good_head (t : token) : Prop := is_close true t = false /\ is_close false t = false.

Lemma show_head_of_raw c a :
  (exists t r, raw a = t :: r /\ good_head t) -> exists t r, show c a = t :: r /\ good_head t.
Proof.
  intros (t & r & E & G). unfold show, wrap. destruct (level a <? c).
  - exists TLP, (raw a ++ [TRP]%list). split; [reflexivity | split; reflexivity].
  - exists t, r. split; assumption.
Qed.

Lemma raw_head : forall a, exists t r, raw a = t :: r /\ good_head t.
Proof.
  induction a as [m e|s|a IHa|o a b IHa IHb|f args IHargs] using aexpr_ind2.
  - eexists _, _. split; [reflexivity | split; reflexivity].
  - eexists _, _. split; [reflexivity | split; reflexivity].
  - eexists _, _. split; [reflexivity | split; reflexivity].
  - destruct (show_head_of_raw (left_ctx o) a IHa) as (t & r & E & G).
    exists t, (r ++ tok_of o :: show (right_ctx o) b). split; [|assumption].
    change (raw (ABin o a b)) with (show (left_ctx o) a ++ tok_of o :: show (right_ctx o) b).
    rewrite E. reflexivity.
  - rewrite raw_call.
    destruct (f =? "list")%string; [eexists _, _; split; [reflexivity | split; reflexivity]|].
    destruct ((f =? "tuple")%string && negb (length args =? 1))%bool;
      [eexists _, _; split; [reflexivity | split; reflexivity]|].
    destruct args as [|a0 more]; [eexists _, _; split; [reflexivity | split; reflexivity]|].
    inversion IHargs as [|? ? H0 Hm]; subst.
    destruct (show_head_of_raw 10 a0 H0) as (t & r & E & G).
    destruct (f =? "index")%string.
    + exists t, (r ++ TLB :: sep_toks more ++ [TRB]%list). rewrite E. split; [reflexivity | assumption].
    + destruct ((f =? "T")%string && (length more =? 0))%bool.
      * exists t, (r ++ [TDotT]%list). rewrite E. split; [reflexivity | assumption].
      * eexists _, _. split; [reflexivity | split; reflexivity].
Qed.

(* ---- the statement proved by induction ---- *)

Definition SP (a : aexpr) : Prop :=
  (forall c d rest res, c <= d -> d <= 10 -> stops (Nat.max d (level a) + 1) rest ->
     Ploop c a rest res -> Pexpr c (show d a ++ rest) res) /\
  (forall rest res, nolp rest -> Ppost a rest res -> Pprefix (show 10 a ++ rest) res).

Lemma stops_nopostfix c rest : stops c rest -> nopostfix rest /\ nolp rest.
Proof.
  destruct rest as [|t r]; simpl; [tauto|]. intros [H _]. destruct t; simpl in *; try discriminate; tauto.
Qed.

Lemma stops_8_7 rest : stops 8 rest -> stops 7 rest.
Proof.
  destruct rest as [|t r]; simpl; [trivial|]. intros [H1 H2]. split; [assumption|].
  destruct t; simpl in *; trivial; lia.
Qed.

Lemma level_le_10 a : level a <= 10.
Proof. destruct a as [| | |[] ? ?|]; simpl; lia. Qed.

Lemma SP_of_atom a :
  level a = 10 ->
  (forall rest res, nolp rest -> Ppost a rest res -> Pprefix (raw a ++ rest) res) -> SP a.
Proof.
  intros Hl Hat. split.
  - intros c d rest res Hcd Hd Hst Hloop.
    unfold show, wrap. rewrite Hl.
    assert (E : (10 <? d) = false) by (apply Nat.ltb_ge; assumption). rewrite E.
    destruct (stops_nopostfix _ _ Hst) as [Hnp Hnl].
    eapply R_expr; [|exact Hloop].
    apply Hat; [assumption|]. apply R_post_stop. assumption.
  - intros rest res Hnl Hpost. unfold show, wrap. rewrite Hl. simpl. apply Hat; assumption.
Qed.

Lemma SP_of_raw a :
  level a < 10 -> 1 <= level a ->
  (forall c rest res, c <= level a -> stops (level a + 1) rest -> Ploop c a rest res ->
     Pexpr c (raw a ++ rest) res) -> SP a.
Proof.
  intros Hl Hl1 HB.
  assert (Hparen : forall rest res, Ppost a rest res -> Pprefix (TLP :: raw a ++ TRP :: rest) res).
  { intros rest res Hpost.
    eapply R_paren; [|exact Hpost].
    destruct (raw_head a) as (t & r & E & [G1 G2]).
    apply (R_args_items2 false _ t (r ++ TRP :: rest)); [rewrite E; reflexivity | assumption |].
    apply (R_items_last false).
    apply HB; [lia | simpl; split; [reflexivity|trivial] |].
    apply R_loop_stop. simpl. split; [reflexivity|trivial]. }
  split.
  - intros c d rest res Hcd Hd Hst Hloop.
    unfold show, wrap. destruct (level a <? d) eqn:E.
    + simpl. rewrite <- app_assoc. simpl.
      destruct (stops_nopostfix _ _ Hst) as [Hnp Hnl].
      eapply R_expr; [|exact Hloop]. apply Hparen. apply R_post_stop. assumption.
    + apply Nat.ltb_ge in E. apply HB; [lia | | assumption].
      replace (Nat.max d (level a)) with (level a) in Hst by lia. assumption.
  - intros rest res Hnl Hpost. unfold show, wrap.
    assert (E : (level a <? 10) = true) by (apply Nat.ltb_lt; assumption). rewrite E.
    simpl. rewrite <- app_assoc. simpl. apply Hparen. assumption.
Qed.

Lemma SP_items sq rest : forall l, l <> [] -> Forall SP l ->
  Pitems sq (sep_toks l ++ close_tok sq :: rest) (l, rest).
Proof.
  induction l as [|x r IH]; intros Hne HF; [congruence|].
  inversion HF as [|? ? Hx Hr]; subst.
  assert (Hshow0 : show 0 x = raw x) by reflexivity.
  destruct r as [|y r'].
  - simpl. apply R_items_last. rewrite <- Hshow0.
    apply (proj1 Hx 0 0); [lia | lia | destruct sq; simpl; (split; [reflexivity|trivial]) |].
    apply R_loop_stop. destruct sq; simpl; (split; [reflexivity|trivial]).
  - change (sep_toks (x :: y :: r')) with (raw x ++ TComma :: sep_toks (y :: r')).
    rewrite <- app_assoc. simpl.
    eapply R_items_more.
    + rewrite <- Hshow0.
      apply (proj1 Hx 0 0); [lia | lia | simpl; (split; [reflexivity|trivial]) |].
      apply R_loop_stop. simpl; (split; [reflexivity|trivial]).
    + apply IH; [discriminate | assumption].
Qed.

Lemma SP_args sq rest l : Forall SP l -> Pargs sq (sep_toks l ++ close_tok sq :: rest) (l, rest).
Proof.
  intros HF. destruct l as [|x r].
  - simpl. apply R_args_empty.
  - pose proof (SP_items sq rest (x :: r) ltac:(discriminate) HF) as Hi.
    assert (Hh : exists t q, sep_toks (x :: r) = t :: q /\ good_head t).
    { destruct (raw_head x) as (t & q & E & G). destruct r as [|y r'].
      - exists t, q. split; assumption.
      - exists t, (q ++ TComma :: sep_toks (y :: r')).
        change (sep_toks (x :: y :: r')) with (raw x ++ TComma :: sep_toks (y :: r')). rewrite E.
        split; [reflexivity|assumption]. }
    destruct Hh as (t & q & E & [G1 G2]).
    apply (R_args_items2 sq _ t (q ++ close_tok sq :: rest)); [rewrite E; reflexivity | destruct sq; assumption | assumption].
Qed.

Lemma SP_all : forall a, SP a.
Proof.
  induction a as [m e|s|x IHx|o x y IHx IHy|f args IHargs] using aexpr_ind2.
  - apply SP_of_atom; [reflexivity|]. intros rest res Hnl Hp. simpl. apply R_num. assumption.
  - apply SP_of_atom; [reflexivity|]. intros rest res Hnl Hp. simpl. apply R_var; assumption.
  - (* ANeg *)
    apply SP_of_raw; [simpl; lia | simpl; lia |].
    intros c rest res Hc Hst Hloop. simpl in Hc, Hst.
    change (raw (ANeg x)) with (TMinus :: show 7 x). simpl.
    eapply R_expr; [|exact Hloop]. apply R_neg.
    apply (proj1 IHx 7 7); [lia | lia | |].
    + eapply stops_mono; [exact Hst | lia].
    + apply R_loop_stop. apply stops_8_7. assumption.
  - (* ABin *)
    assert (Hlev : level (ABin o x y) <= lbp_of o /\ level (ABin o x y) <= right_ctx o /\
                   lbp_of o <= left_ctx o /\ left_ctx o <= 10 /\ 1 <= level (ABin o x y) /\
                   level (ABin o x y) < 10 /\ right_ctx o <= 10)
      by (destruct o; simpl; lia).
    destruct Hlev as (L1 & L2 & L3 & L4 & L5 & L6 & L7).
    apply SP_of_raw; [assumption | assumption |].
    intros c rest res Hc Hst Hloop.
    change (raw (ABin o x y)) with (show (left_ctx o) x ++ tok_of o :: show (right_ctx o) y).
    rewrite <- app_assoc. simpl.
    apply (proj1 IHx c (left_ctx o)); [lia | assumption | |].
    + simpl. split; [destruct o; reflexivity|].
      replace (binop_of (tok_of o)) with (Some (o, lbp_of o, right_ctx o)) by (destruct o; reflexivity).
      lia.
    + eapply R_loop_step; [lia | | exact Hloop].
      apply (proj1 IHy (right_ctx o) (right_ctx o)); [lia | assumption | |].
      * eapply stops_mono; [exact Hst | lia].
      * apply R_loop_stop.
        destruct o; simpl in *; try assumption. apply stops_8_7. assumption.
  - (* ACall *)
    apply SP_of_atom; [reflexivity|]. intros rest res Hnl Hp.
    rewrite raw_call.
    destruct (f =? "list")%string eqn:E1.
    { apply String.eqb_eq in E1. subst f. simpl. rewrite <- app_assoc. simpl.
      eapply R_list; [|exact Hp]. apply (SP_args true). assumption. }
    destruct ((f =? "tuple")%string && negb (length args =? 1))%bool eqn:E2.
    { apply andb_true_iff in E2. destruct E2 as [E2 E3]. apply String.eqb_eq in E2. subst f.
      apply negb_true_iff, Nat.eqb_neq in E3.
      simpl. rewrite <- app_assoc. simpl.
      eapply R_tuple; [|exact E3|exact Hp]. apply (SP_args false). assumption. }
    assert (Hord : Pprefix ((TId f :: TLP :: sep_toks args ++ [TRP]%list) ++ rest) res).
    { simpl. rewrite <- app_assoc. simpl. eapply R_call; [|exact Hp]. apply (SP_args false). assumption. }
    destruct args as [|a0 more]; [exact Hord|].
    inversion IHargs as [|? ? H0 Hm]; subst.
    destruct (f =? "index")%string eqn:E3.
    { apply String.eqb_eq in E3. subst f. rewrite <- app_assoc. simpl. rewrite <- app_assoc. simpl.
      apply (proj2 H0); [exact I|].
      eapply R_post_index; [|exact Hp]. apply (SP_args true). assumption. }
    destruct ((f =? "T")%string && (length more =? 0))%bool eqn:E4; [|exact Hord].
    apply andb_true_iff in E4. destruct E4 as [E4 E5]. apply String.eqb_eq in E4. subst f.
    apply Nat.eqb_eq in E5. destruct more; [|discriminate].
    rewrite <- app_assoc. simpl.
    apply (proj2 H0); [exact I|]. apply R_post_T. assumption.
Qed.

Theorem parse_show_toks_lemma : forall a, parse_toks (show 0 a) = Some a.
Proof.
  intros a.
  destruct (proj1 (SP_all a) 0 0 [] (a, []) ltac:(lia) ltac:(lia) I (R_loop_stop 0 a [] I)) as [n Hn].
  rewrite app_nil_r in Hn.
  set (m := Nat.max n (fuel_of (show 0 a))).
  rewrite (parse_toks_fuel_irrelevant (show 0 a) m ltac:(unfold m; lia)).
  rewrite (parse_fuel_monotone_lemma n m 0 _ _ Hn (ok_not_oof _) ltac:(unfold m; lia)).
  reflexivity.
Qed.

(* ================================================================================================ *)
(* Part 4.  The lexer never runs out of fuel                                                         *)
(* ================================================================================================ *)

Lemma span_length f s : String.length (snd (span f s)) <= String.length s.
Proof.
  induction s as [|c r IH]; simpl; [lia|].
  destruct (f c); simpl; [|lia].
  destruct (span f r) as [a b]. simpl in *. lia.
Qed.

Lemma span_length_first f c r : f c = true -> String.length (snd (span f (String c r))) <= String.length r.
Proof.
  intros H. simpl. rewrite H. pose proof (span_length f r) as L. destruct (span f r) as [a b]. simpl in *. lia.
Qed.

Lemma strip_prefix_length p : forall s rest, strip_prefix p s = Some rest ->
  String.length rest + String.length p = String.length s.
Proof.
  induction p as [|a p IH]; intros s rest H; simpl in *.
  - inversion H; subst. lia.
  - destruct s as [|b s']; [discriminate|]. destruct (Ascii.eqb a b); [|discriminate].
    apply IH in H. simpl. lia.
Qed.

Lemma match_name_length names s : forall best nm rest,
  (forall b r, best = Some (b, r) -> String.length r < String.length s) ->
  match_name names s best = Some (nm, rest) -> String.length rest < String.length s.
Proof.
  induction names as [|n more IH]; intros best nm rest Hb H; simpl in H.
  - apply (Hb nm rest H).
  - apply IH in H; [assumption|].
    intros b r Hbr.
    destruct (strip_prefix n s) as [rest0|] eqn:E; [|apply (Hb b r Hbr)].
    apply strip_prefix_length in E.
    destruct best as [[b0 r0]|].
    + destruct (String.length b0 <? String.length n) eqn:E2.
      * inversion Hbr; subst. apply Nat.ltb_lt in E2. lia.
      * apply (Hb b r Hbr).
    + destruct (0 <? String.length n) eqn:E2; [|discriminate].
      inversion Hbr; subst. apply Nat.ltb_lt in E2. lia.
Qed.

Lemma lex_frac_length r1 : String.length (snd (lex_frac r1)) <= String.length r1.
Proof.
  unfold lex_frac. destruct r1 as [|c r]; simpl; [lia|].
  destruct (Ascii.eqb c "."); simpl; [|lia].
  destruct r as [|c0 r0]; simpl; [lia|].
  destruct (is_digit c0) eqn:E; simpl; [|lia].
  pose proof (span_length_first is_digit c0 r0 E) as L. simpl in L. rewrite E in L.
  destruct (span is_digit r0); simpl in *. lia.
Qed.

Lemma lex_digits1_length r v q : lex_digits1 r = Some (v, q) -> String.length q <= String.length r.
Proof.
  unfold lex_digits1. pose proof (span_length is_digit r) as L.
  destruct (span is_digit r) as [d r']. simpl in L.
  destruct (0 <? String.length d); [|discriminate]. intros H; inversion H; subst. assumption.
Qed.

Lemma lex_exp_length r x q : lex_exp r = Some (x, q) -> String.length q <= String.length r.
Proof.
  unfold lex_exp. destruct r as [|c r']; [discriminate|].
  destruct (Ascii.eqb c "-").
  { destruct (lex_digits1 r') as [[v q0]|] eqn:E; [|discriminate].
    intros H; inversion H; subst. apply lex_digits1_length in E. simpl. lia. }
  destruct (Ascii.eqb c "+").
  { destruct (lex_digits1 r') as [[v q0]|] eqn:E; [|discriminate].
    intros H; inversion H; subst. apply lex_digits1_length in E. simpl. lia. }
  destruct (lex_digits1 (String c r')) as [[v q0]|] eqn:E; [|discriminate].
  intros H; inversion H; subst. apply lex_digits1_length in E. assumption.
Qed.

Lemma lex_number_length c r t rest :
  is_digit c = true -> lex_number (String c r) = Some (t, rest) -> String.length rest <= String.length r.
Proof.
  intros Hc H. unfold lex_number in H.
  pose proof (span_length_first is_digit c r Hc) as L1.
  destruct (span is_digit (String c r)) as [ip r1]. simpl in L1.
  pose proof (lex_frac_length r1) as L2.
  destruct (lex_frac r1) as [fp r2]. simpl in L2.
  destruct r2 as [|c2 r3].
  - inversion H; subst. simpl in *. lia.
  - destruct (Ascii.eqb c2 "e" || Ascii.eqb c2 "E")%bool.
    + destruct (lex_exp r3) as [[x r']|] eqn:E; [|discriminate].
      inversion H; subst. apply lex_exp_length in E. simpl in *. lia.
    + destruct (is_idchar c2); [discriminate|]. inversion H; subst. simpl in *. lia.
Qed.

Lemma dot_t_length s rest : dot_t s = Some rest -> String.length rest < String.length s.
Proof.
  unfold dot_t. destruct s as [|c [|c1 r']]; try discriminate.
  destruct (Ascii.eqb c "." && Ascii.eqb c1 "T")%bool; [|discriminate].
  destruct r' as [|c2 r'']; [intros H; inversion H; subst; simpl; lia|].
  destruct (is_idchar c2); [discriminate|]. intros H; inversion H; subst. simpl. lia.
Qed.

Lemma lcons_not_oof t r : r <> LOof -> lcons t r <> LOof.
Proof. destruct r; simpl; congruence. Qed.

Lemma lex_enough : forall n names s, String.length s < n -> lex_fuel n names s <> LOof.
Proof.
  induction n as [|n IH]; intros names s Hn; [lia|].
  simpl. destruct s as [|c r]; [discriminate|]. simpl in Hn.
  destruct (is_space c); [apply IH; lia|].
  destruct (match_name names (String c r) None) as [[nm rest]|] eqn:Em.
  { apply lcons_not_oof. apply IH.
    apply match_name_length in Em; [simpl in Em; lia | intros; discriminate]. }
  destruct (is_digit c) eqn:Ed.
  { destruct (lex_number (String c r)) as [[t rest]|] eqn:El; [|discriminate].
    apply lcons_not_oof, IH. apply (lex_number_length c r t rest Ed) in El. lia. }
  destruct (is_alpha c) eqn:Ea.
  { assert (Hi : is_idchar c = true) by (unfold is_idchar; rewrite Ea; reflexivity).
    pose proof (span_length_first is_idchar c r Hi) as L.
    destruct (span is_idchar (String c r)) as [id rest]. simpl in L.
    apply lcons_not_oof, IH. lia. }
  destruct (sym_token c); [apply lcons_not_oof, IH; lia|].
  destruct (dot_t (String c r)) as [rest|] eqn:Edt; [|discriminate].
  apply dot_t_length in Edt. simpl in Edt. apply lcons_not_oof, IH. lia.
Qed.

Lemma lex_total_lemma : forall names s, lex_fuel (S (String.length s)) names s <> LOof.
Proof. intros. apply lex_enough. lia. Qed.

(* ================================================================================================ *)
(* Part 6.  From strings to trees: lexing a spelled token list gives the tokens back                  *)
(* ================================================================================================ *)

(* a spelling of a token: numbers by their digit string, identifiers by their characters *)
Inductive ptok : Type := PNum (d : string) | PId (s : string) | PSym (t : token).

Definition tok_of_ptok (p : ptok) : token :=
  match p with PNum d => TNum (digits_val 0 d) 0 | PId s => TId s | PSym t => t end.

Definition sym_str (t : token) : string :=
  match t with
  | TPlus => "+" | TMinus => "-" | TStar => "*" | TSlash => "/" | TCaret => "^" | TEq => "="
  | TLP => "(" | TRP => ")" | TLB => "[" | TRB => "]" | TComma => "," | TDotT => ".T"
  | _ => ""
  end%string.

Definition spell (p : ptok) : string :=
  match p with PNum d => d | PId s => s | PSym t => sym_str t end.

Fixpoint all_chars (f : ascii -> bool) (s : string) : bool :=
  match s with EmptyString => true | String c r => f c && all_chars f r end.

Definition is_sym (t : token) : bool :=
  match t with TNum _ _ | TId _ => false | _ => true end.

Definition wf_ptok (p : ptok) : bool :=
  match p with
  | PNum d => match d with EmptyString => false | _ => all_chars is_digit d end
  | PId s => match s with String c r => is_alpha c && all_chars is_idchar r | EmptyString => false end
  | PSym t => is_sym t
  end.

(* tokens separated by single blanks *)
Fixpoint render (l : list ptok) : string :=
  match l with
  | [] => EmptyString
  | p :: r => (spell p ++ String " " (render r))%string
  end.

Lemma span_app f d c rest :
  all_chars f d = true -> f c = false -> span f (d ++ String c rest)%string = (d, String c rest).
Proof.
  induction d as [|a d IH]; simpl; intros Hd Hc.
  - rewrite Hc. reflexivity.
  - apply andb_true_iff in Hd. destruct Hd as [Ha Hd]. rewrite Ha. rewrite (IH Hd Hc). reflexivity.
Qed.

Lemma alpha_char c : is_alpha c = true -> is_digit c = false /\ is_space c = false /\ is_idchar c = true.
Proof.
  destruct c as [b0 b1 b2 b3 b4 b5 b6 b7].
  destruct b0, b1, b2, b3, b4, b5, b6, b7; simpl; intros H; try discriminate H; repeat split; reflexivity.
Qed.

Lemma digit_char c : is_digit c = true -> is_space c = false /\ is_idchar c = true.
Proof.
  destruct c as [b0 b1 b2 b3 b4 b5 b6 b7].
  destruct b0, b1, b2, b3, b4, b5, b6, b7; simpl; intros H; try discriminate H; repeat split; reflexivity.
Qed.

Lemma length_app_s (a b : string) : String.length (a ++ b)%string = String.length a + String.length b.
Proof. induction a as [|c a IH]; simpl; [reflexivity | rewrite IH; reflexivity]. Qed.

Lemma digits_val_nil acc : digits_val acc EmptyString = acc.
Proof. reflexivity. Qed.

Lemma lex_number_spelled d rest :
  all_chars is_digit d = true -> d <> EmptyString ->
  lex_number (d ++ String " " rest)%string = Some (TNum (digits_val 0 d) 0, String " " rest).
Proof.
  intros Hd Hne. unfold lex_number.
  rewrite (span_app is_digit d " "%char rest Hd eq_refl).
  simpl. reflexivity.
Qed.

Lemma lex_spelled : forall l n, forallb wf_ptok l = true -> String.length (render l) < n ->
  lex_fuel n [] (render l) = LOk (map tok_of_ptok l).
Proof.
  induction l as [|p r IH]; intros n Hwf Hn.
  - destruct n; [simpl in Hn; lia | reflexivity].
  - simpl in Hwf. apply andb_true_iff in Hwf. destruct Hwf as [Hp Hr].
    simpl render in *. rewrite length_app_s in Hn. simpl in Hn.
    destruct n as [|n]; [lia|].
    (* after the token: one blank, then the rest *)
    assert (Hblank : forall m, String.length (render r) + 1 < m ->
              lex_fuel m [] (String " " (render r)) = LOk (map tok_of_ptok r)).
    { intros m Hm. destruct m as [|m]; [lia|]. simpl. apply IH; [assumption | lia]. }
    destruct p as [d|s|t]; simpl in Hp; simpl spell in *.
    + (* number *)
      destruct d as [|c d']; [discriminate|].
      assert (Hall : all_chars is_digit (String c d') = true) by exact Hp.
      simpl in Hp. apply andb_true_iff in Hp. destruct Hp as [Hc Hd'].
      destruct (digit_char c Hc) as [Hsp _].
      change ((String c d' ++ String " " (render r))%string) with (String c (d' ++ String " " (render r))%string).
      cbn [lex_fuel]. rewrite Hsp. cbn [match_name]. rewrite Hc.
      change (String c (d' ++ String " " (render r))%string) with ((String c d' ++ String " " (render r))%string).
      rewrite (lex_number_spelled (String c d') (render r) Hall ltac:(discriminate)).
      rewrite Hblank; [reflexivity | simpl in Hn; lia].
    + (* identifier *)
      destruct s as [|c s']; [discriminate|].
      apply andb_true_iff in Hp. destruct Hp as [Hc Hs'].
      destruct (alpha_char c Hc) as (Hdg & Hsp & Hid).
      change ((String c s' ++ String " " (render r))%string) with (String c (s' ++ String " " (render r))%string).
      cbn [lex_fuel]. rewrite Hsp. cbn [match_name]. rewrite Hdg, Hc.
      change (String c (s' ++ String " " (render r))%string) with ((String c s' ++ String " " (render r))%string).
      assert (Hall : all_chars is_idchar (String c s') = true) by (simpl; rewrite Hid, Hs'; reflexivity).
      rewrite (span_app is_idchar (String c s') " "%char (render r) Hall eq_refl).
      rewrite Hblank; [reflexivity | simpl in Hn; lia].
    + (* symbol *)
      destruct t; try discriminate Hp; simpl sym_str in *; simpl in Hn;
        cbn [lex_fuel append]; simpl; rewrite Hblank; try reflexivity; lia.
Qed.

Lemma lex_render_lemma : forall l, forallb wf_ptok l = true -> lex [] (render l) = Some (map tok_of_ptok l).
Proof.
  intros l H. unfold lex. rewrite (lex_spelled l _ H (Nat.lt_succ_diag_r _)). reflexivity.
Qed.

(* string level: every spelling of the canonical token list of a parses back to a *)
Theorem parse_show_spelled_lemma : forall a l,
  forallb wf_ptok l = true -> map tok_of_ptok l = show 0 a -> parse_code [] (render l) = Some a.
Proof.
  intros a l Hwf Hl. unfold parse_code. rewrite (lex_render_lemma l Hwf). rewrite Hl.
  apply parse_show_toks_lemma.
Qed.

Local Open Scope string_scope.

Example ex_spelled :
  let a := ABin ODiv (AVar "a") (ABin OMul (AVar "b_1") (ABin OPow (ANeg (AVar "c")) (ANum 12 0))) in
  let l := [PId "a"; PSym TSlash; PSym TLP; PId "b_1"; PSym TStar; PSym TLP; PSym TMinus; PId "c"; PSym TRP;
            PSym TCaret; PNum "12"; PSym TRP] in
  forallb wf_ptok l = true /\ map tok_of_ptok l = show 0 a /\ render l = "a / ( b_1 * ( - c ) ^ 12 ) " /\
  parse_code [] (render l) = Some a.
Proof. vm_compute. repeat split; reflexivity. Qed.
Local Close Scope string_scope.

(* ================================================================================================ *)
(* Part 5.  Non-vacuity: the reader on concrete strings                                              *)
(* ================================================================================================ *)
Local Open Scope string_scope.

Example ex_left_assoc_sub :
  parse_code [] "a - b - c" = Some (ABin OSub (ABin OSub (AVar "a") (AVar "b")) (AVar "c")).
Proof. vm_compute. reflexivity. Qed.

Example ex_left_assoc_div :
  parse_code [] "a / b / c" = Some (ABin ODiv (ABin ODiv (AVar "a") (AVar "b")) (AVar "c")).
Proof. vm_compute. reflexivity. Qed.

Example ex_div_mul :
  parse_code [] "a / b * c" = Some (ABin OMul (ABin ODiv (AVar "a") (AVar "b")) (AVar "c")).
Proof. vm_compute. reflexivity. Qed.

Example ex_pow_right_assoc :
  parse_code [] "a^b^c" = Some (ABin OPow (AVar "a") (ABin OPow (AVar "b") (AVar "c"))).
Proof. vm_compute. reflexivity. Qed.

Example ex_neg_pow :
  parse_code [] "-a^2" = Some (ANeg (ABin OPow (AVar "a") (ANum 2 0))).
Proof. vm_compute. reflexivity. Qed.

Example ex_pow_neg_exponent :
  parse_code [] "2^-x * y" = Some (ABin OMul (ABin OPow (ANum 2 0) (ANeg (AVar "x"))) (AVar "y")).
Proof. vm_compute. reflexivity. Qed.

Example ex_neg_mul :
  parse_code [] "-a * b" = Some (ABin OMul (ANeg (AVar "a")) (AVar "b")).
Proof. vm_compute. reflexivity. Qed.

Example ex_call_decimal :
  parse_code ["1 Gyr"] "log(t / 1 Gyr, 10) + 2.50e-3" =
  Some (ABin OAdd (ACall "log" [ABin ODiv (AVar "t") (AVar "1 Gyr"); ANum 10 0]) (ANum 250 (-5))).
Proof. vm_compute. reflexivity. Qed.

Example ex_no_implicit_product : parse_code [] "2 x" = None.
Proof. vm_compute. reflexivity. Qed.

Example ex_unbalanced : parse_code [] "(a + b" = None.
Proof. vm_compute. reflexivity. Qed.

Example ex_show_minimal :
  show 0 (ABin ODiv (AVar "a") (ABin OMul (AVar "b") (ABin OPow (ANeg (AVar "c")) (ANum 2 0)))) =
  [TId "a"; TSlash; TLP; TId "b"; TStar; TLP; TMinus; TId "c"; TRP; TCaret; TNum 2 0; TRP].
Proof. vm_compute. reflexivity. Qed.
