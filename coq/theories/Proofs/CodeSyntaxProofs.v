(* Lemmas about Model/CodeSyntax.v and the tactic used by the generated per-formula obligations of C17/C18. *)
From Coq Require Import String Ascii List ZArith NArith Bool Arith Lia Reals Lra Psatz Field Nsatz.
From VP Require Import Base.RTac Model.CodeSyntax.
Import ListNotations.

(* ================================================================================================ *)
(* Part 1.  Tactic for  `reading of the rendering = reading of the original`  over R                  *)
(* ================================================================================================ *)
Local Open Scope R_scope.

Lemma rd_ln_neq (x : R) : 0 < x -> x <> 1 -> ln x <> 0.
Proof.
  intros Hx H1 H0. apply H1. rewrite <- (exp_ln x Hx). rewrite H0. apply exp_0.
Qed.

Lemma rd_ln_lit_neq (x : R) : 1 < x -> ln x <> 0.
Proof.
  intros H. apply rd_ln_neq; lra.
Qed.

Lemma rd_exp_opp (a b : R) : a = - b -> exp a = / exp b.
Proof. intros ->. apply exp_Ropp. Qed.

Lemma rd_rpower_opp (a b x y : R) : a = b -> x = - y -> Rpower a x = / Rpower b y.
Proof. intros -> ->. apply Rpower_Ropp. Qed.

Lemma rd_phi_cons (x y : R) (l m : list R) : x = y -> l = m -> x :: l = y :: m.
Proof. intros -> ->. reflexivity. Qed.

Lemma rd_rpower_inv (a z : R) : 0 < a -> Rpower (/ a) z = / Rpower a z.
Proof.
  intros Ha. unfold Rpower. rewrite ln_Rinv by assumption.
  replace (z * - ln a) with (- (z * ln a)) by ring. apply exp_Ropp.
Qed.

Lemma rd_rpower_mul (a b z : R) : 0 < a -> 0 < b -> Rpower (a * b) z = Rpower a z * Rpower b z.
Proof. intros. symmetry. apply Rpower_mult_distr; assumption. Qed.

Lemma rd_rpower_pow (a z : R) (n : nat) : 0 < a -> Rpower (a ^ n) z = Rpower a (INR n * z).
Proof.
  intros Ha. rewrite <- (Rpower_pow n a Ha). apply Rpower_mult.
Qed.

Lemma rd_sqrt_mul (a b : R) : 0 <= a -> 0 <= b -> sqrt (a * b) = sqrt a * sqrt b.
Proof. apply sqrt_mult. Qed.

(* positivity from hypotheses *)
Ltac rd_pos := first [ assumption | lra | (apply Rlt_le; assumption) | (apply Rinv_0_lt_compat; assumption)
                     | (apply Rmult_lt_0_compat; rd_pos) | (apply pow_lt; rd_pos) | (apply sqrt_lt_R0; rd_pos)
                     | apply exp_pos | (unfold Rpower; apply exp_pos) | apply PI_RGT_0 | nra ].

(* push inverses inward (all unconditional in Coq 8.16) and split powers/roots of products of positive factors,
   so that both readings reach the same multiplicative normal form *)
Ltac rd_norm :=
  unfold Rdiv;
  repeat first
  [ rewrite Rinv_mult
  | rewrite Rinv_inv
  | rewrite Rinv_opp
  | rewrite <- pow_inv
  | rewrite Rinv_1
  | rewrite sqrt_inv
  | match goal with
    | |- context [Rpower (?a * ?b) ?z] => rewrite (rd_rpower_mul a b z) by rd_pos
    | |- context [Rpower (/ ?a) ?z] => rewrite (rd_rpower_inv a z) by rd_pos
    | |- context [sqrt (?a * ?b)] => rewrite (rd_sqrt_mul a b) by (first [ assumption | lra | (apply Rlt_le; rd_pos) ])
    end ].

(* non-zero side conditions: from a hypothesis about a ring-equal term, else the shared portfolio *)
Ltac rd_nz1 :=
  first
  [ assumption
  | apply Rgt_not_eq; assumption
  | apply Rlt_not_eq; assumption
  | apply rd_ln_lit_neq; lra
  | match goal with
    | H : ?t <> 0 |- ?u <> 0 =>
        let E := fresh "rdE" in intro E; apply H;
        first [ lra | (replace t with u by (timeout 5 ring); exact E) ]
    | H : 0 < ?t |- ?u <> 0 => apply Rgt_not_eq; first [ lra | (replace u with t by (timeout 5 ring); exact H) ]
    end
  | vp_nz1
  | match goal with
    | H : ?t <> 0 |- ?u <> 0 =>
        let E := fresh "rdE" in intro E; apply H;
        timeout 10 (field_simplify_eq; [ first [ lra | nra | (rewrite <- E; ring) | (ring_simplify; ring_simplify in E; exact E) ] | repeat split; vp_nz1 ])
    end ].

Ltac rd_side := repeat split; rd_nz1.

(* equality of two arguments: syntactic, ring, field *)
Ltac rd_arg :=
  first
  [ reflexivity
  | solve [ timeout 10 ring ]
  | solve [ timeout 20 (field; rd_side) ] ].

Ltac rd_replace a b tac :=
  let H := fresh "rdH" in assert (H : a = b) by tac; rewrite H; clear H.

Ltac rd_list :=
  lazymatch goal with
  | |- @nil R = @nil R => reflexivity
  | |- _ :: _ = _ :: _ => apply rd_phi_cons; [ rd_arg_deep | rd_list ]
  end
with rd_arg_deep := first [ rd_arg | (rd_norm; rd_arg) | (rd_norm; rd_cong; rd_arg) ]

(* make equal-valued applications of the same head syntactically equal (congruence modulo ring/field) *)
with rd_cong1 f :=
  repeat match goal with
  | |- context [f ?a] =>
      match goal with
      | |- context [f ?b] =>
          tryif constr_eq a b then fail else
          rd_replace (f a) (f b) ltac:(apply (f_equal f); rd_arg)
      end
  end
with rd_cong_exp :=
  repeat match goal with
  | |- context [exp ?a] =>
      match goal with
      | |- context [exp ?b] =>
          tryif constr_eq a b then fail else
          first [ rd_replace (exp a) (exp b) ltac:(apply (f_equal exp); rd_arg)
                | rd_replace (exp a) (/ exp b) ltac:(apply rd_exp_opp; rd_arg) ]
      end
  end
with rd_cong_rpower :=
  repeat match goal with
  | |- context [Rpower ?a ?x] =>
      match goal with
      | |- context [Rpower ?b ?y] =>
          tryif (constr_eq a b; constr_eq x y) then fail else
          first [ rd_replace (Rpower a x) (Rpower b y) ltac:(apply f_equal2; rd_arg)
                | rd_replace (Rpower a x) (/ Rpower b y) ltac:(apply rd_rpower_opp; rd_arg) ]
      end
  end
with rd_cong_phi :=
  repeat match goal with
  | |- context [?phi ?h ?l] =>
      lazymatch type of phi with string -> list R -> R => idtac end;
      match goal with
      | |- context [phi h ?m] =>
          tryif constr_eq l m then fail else
          rd_replace (phi h l) (phi h m) ltac:(apply (f_equal (phi h)); rd_list)
      end
  end
with rd_cong_round :=
  rd_cong1 Rinv; rd_cong1 sqrt; rd_cong1 ln; rd_cong1 sin; rd_cong1 cos; rd_cong1 tan; rd_cong1 asin; rd_cong1 acos;
  rd_cong1 atan; rd_cong1 sinh; rd_cong1 cosh; rd_cong1 tanh; rd_cong1 Rabs; rd_cong_exp; rd_cong_rpower; rd_cong_phi
with rd_cong := rd_cong_round; rd_cong_round; rd_cong1 Rinv.

(* one scripted step  FROM = TO  (the pairing is proposed by the harness, the equality is proved here) *)
Ltac rd_eq :=
  first
  [ reflexivity
  | (apply rd_exp_opp; rd_arg)
  | (apply rd_rpower_opp; rd_arg)
  | (apply f_equal2; rd_arg)
  | (apply f_equal; first [ rd_arg | rd_list ])
  | rd_arg ].

Ltac rd_ring_arg := first [ reflexivity | solve [ timeout 10 ring ] ].

Ltac rd_cong_inv :=
  repeat match goal with
  | |- context [/ ?a] =>
      match goal with
      | |- context [/ ?b] =>
          tryif constr_eq a b then fail else
          rd_replace (/ a) (/ b) ltac:(apply (f_equal Rinv); rd_ring_arg)
      end
  end.

Ltac rd_final :=
  first
  [ reflexivity
  | solve [ timeout 20 ring ]
  | solve [ timeout 30 (field; rd_side) ]
  | solve [ timeout 30 (field_simplify_eq; [ ring | rd_side ]) ] ].

Ltac rd_last :=
  first
  [ solve [ vp_abs_sqrt; first [ timeout 20 ring | timeout 30 (field; rd_side) | timeout 20 nsatz ] ]
  | solve [ timeout 20 nra ] ].

Ltac rd_solve :=
  first [ reflexivity
        | solve [ timeout 20 ring ]
        | solve [ rd_norm; first [ reflexivity | solve [ timeout 20 ring ] | solve [ rd_cong_inv; timeout 20 ring ] ] ]
        | solve [ timeout 30 (field; rd_side) ]
        | solve [ rd_norm; rd_cong; rd_final ]
        | solve [ rd_cong; rd_final ]
        | rd_last ].

