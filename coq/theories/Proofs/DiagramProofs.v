(* C06, last clause: the commuting diagram between the two models.

     infer_e : sexpr -> eres   (Model/CollectE.v, symbolic dimension inference)
     collect : qexpr -> cres   (Model/CollectQ.v, quantity construction)

   "whenever inference succeeds, replacing the symbols by non-zero quantities of their declared dimensions
    yields (function arguments being dimensionless) a quantity of that same dimension".

   Inst e q        : q is e with every dimensioned symbol replaced by a non-zero quantity of its dimension
   scopeb e        : the syntactic scope of the theorem (see /verif/design_notes/C06_diagram.md)
   Fin q           : (from CollectQGlobal) every sub-expression of q has a finite value, leaf dimensions are
                     9-vectors, Min/Max have no literal Float(0.0) operand
   infer_then_collect :
     scopeb e = true -> Inst e q -> Fin q -> infer_e e = Ok (rv, d) ->
     exists v d', collect q = Ok (v, d') /\ v = value q /\ wf_dim d /\ wf_dim d' /\
                  (is_any v = true \/ deq d' d). *)
From Coq Require Import List QArith ZArith Bool NArith Lia Permutation Qround Qpower Qabs.
From VP Require Import Base.Util Base.Dim Base.Val Model.CollectQ Model.CollectE
  Proofs.DimProofs Proofs.CollectQProofs Proofs.CollectEProofs Proofs.CollectQGlobal.
Import ListNotations.

(* ================================================================================================ *)
(* Definitions                                                                                       *)
(* ================================================================================================ *)

(* q instantiates e: every SDimSym d becomes a quantity of dimension d with ANY non-zero rational scale
   (each occurrence its own); everything else is kept.  SPlain and SDeriv have no instance. *)
Inductive Inst : sexpr -> qexpr -> Prop :=
| I_num v : is_number v = true -> Inst (SNum v) (QNum v)
| I_qty v d : Inst (SQty v d) (QQty v d)
| I_sym d x : qzero x = false -> Inst (SDimSym d) (QQty (VQ x) d)
| I_mul l l' : Forall2 Inst l l' -> Inst (SMul l) (QMul l')
| I_pow b x b' x' : Inst b b' -> Inst x x' -> Inst (SPow b x) (QPow b' x')
| I_add l l' : Forall2 Inst l l' -> Inst (SAdd l) (QAdd l')
| I_abs a a' : Inst a a' -> Inst (SAbs a) (QAbs a')
| I_min l l' : Forall2 Inst l l' -> Inst (SMin l) (QMin l')
| I_max l l' : Forall2 Inst l l' -> Inst (SMax l) (QMax l')
| I_fun d ov l l' : Forall2 Inst l l' -> Inst (SFun d l) (QFun ov l').

Definition nonempty {A} (l : list A) : bool := match l with [] => false | _ => true end.

(* the inferred dimension of an (inferable) expression is dimensionless *)
Definition infers_dimensionless (a : sexpr) : bool :=
  match infer_e a with Ok (_, ad) => dimensionless ad | Err _ => false end.

(* the returned expression of the inference is not literally 0 / +-oo / nan *)
Definition not_literally_any (a : sexpr) : bool :=
  match infer_e a with Ok (rv, _) => negb (is_any rv) | Err _ => true end.

(* the scope of the theorem *)
Fixpoint scopeb (e : sexpr) : bool :=
  match e with
  | SNum _ => true
  | SQty _ d => wf_dimb d
  | SDimSym d => wf_dimb d
  | SPlain => false
  | SMul l => nonempty l && forallb scopeb l
  | SPow b x => scopeb b && match x with SNum (VQ _) => true | _ => false end
                && not_literally_any (SPow b x)
  | SAdd l => nonempty l && forallb scopeb l && not_literally_any (SAdd l)
  | SAbs a => scopeb a
  | SMin l => nonempty l && forallb scopeb l
  | SMax l => nonempty l && forallb scopeb l
  | SFun d l => wf_dimb d && dimensionless d && forallb scopeb l && forallb infers_dimensionless l
  | SDeriv _ _ _ => false
  end.

Lemma wf_dimb_wf d : wf_dimb d = true -> wf_dim d.
Proof. unfold wf_dimb, wf_dim. apply Nat.eqb_eq. Qed.

(* ================================================================================================ *)
(* Values in the finite fragment                                                                     *)
(* ================================================================================================ *)
Lemma qzero_mul_false x y : qzero x = false -> qzero y = false -> qzero (x * y) = false.
Proof.
  unfold qzero. intros Hx Hy. destruct (Qeq_bool (x * y) 0) eqn:E; [|reflexivity].
  apply Qeq_bool_iff in E. apply Qmult_integral in E as [E|E]; apply Qeq_bool_iff in E; congruence.
Qed.

Lemma vmul_nonany a b : finite_val a = true -> finite_val b = true ->
  is_any a = false -> is_any b = false -> is_any (vmul a b) = false.
Proof.
  destruct a as [x| | | | | | |], b as [y| | | | | | |]; intros Fa Fb Ha Hb;
    try discriminate Fa; try discriminate Fb; try discriminate Ha; try discriminate Hb; try reflexivity.
  - change (qzero (Qred (x * y)) = false). rewrite Qred_zero. apply qzero_mul_false; assumption.
  - change (qzero x = false) in Ha. cbn [vmul]. rewrite Ha. reflexivity.
  - change (qzero y = false) in Hb. cbn [vmul]. rewrite Hb. reflexivity.
Qed.

Lemma fold_vmul_finite vs : forall a, finite_val a = true -> Forall (fun v => finite_val v = true) vs ->
  finite_val (fold_left vmul vs a) = true.
Proof.
  induction vs as [|v r IH]; intros a Fa Fv; cbn [fold_left]; [exact Fa|].
  inversion Fv; subst. apply IH; [apply vmul_finite; assumption | assumption].
Qed.

(* a zero anywhere makes the product zero *)
Lemma fold_vmul_any vs : forall a, finite_val a = true -> Forall (fun v => finite_val v = true) vs ->
  (is_any a = true \/ Exists (fun v => is_any v = true) vs) -> is_any (fold_left vmul vs a) = true.
Proof.
  induction vs as [|v r IH]; intros a Fa Fv H; cbn [fold_left].
  - destruct H as [H|H]; [exact H | inversion H].
  - inversion Fv as [|? ? Fv0 Fr]; subst. apply IH; [apply vmul_finite; assumption | exact Fr |].
    destruct H as [H|H].
    + left. apply vmul_any_absorbs; assumption.
    + inversion H as [? ? H0|? ? H0]; subst; [left; apply vmul_any_absorbs_r; assumption | right; exact H0].
Qed.

(* no zero: the product is not zero *)
Lemma fold_vmul_nonany vs : forall a, finite_val a = true -> Forall (fun v => finite_val v = true) vs ->
  is_any a = false -> Forall (fun v => is_any v = false) vs -> is_any (fold_left vmul vs a) = false.
Proof.
  induction vs as [|v r IH]; intros a Fa Fv Ha Hv; cbn [fold_left]; [exact Ha|].
  inversion Fv; subst. inversion Hv; subst.
  apply IH; [apply vmul_finite; assumption | assumption | apply vmul_nonany; assumption | assumption].
Qed.

(* the returned expression of a product is literally zero only if a factor is *)
Lemma smul_any a b : is_any (smul a b) = true -> is_any a = true \/ is_any b = true.
Proof.
  destruct a as [x| | | | | | |], b as [y| | | | | | |]; cbn [smul]; intros H;
    try discriminate H;
    try (destruct (qzero x) eqn:E; [left; exact E | discriminate H]);
    try (destruct (qzero y) eqn:E; [right; exact E | discriminate H]).
  change (qzero (Qred (x * y)) = true) in H. rewrite Qred_zero in H.
  destruct (qzero x) eqn:Ex; [left; exact Ex|].
  destruct (qzero y) eqn:Ey; [right; exact Ey|]. rewrite (qzero_mul_false x y Ex Ey) in H. discriminate H.
Qed.

Lemma fold_smul_any vs : forall a, is_any (fold_left smul vs a) = true ->
  is_any a = true \/ Exists (fun v => is_any v = true) vs.
Proof.
  induction vs as [|v r IH]; intros a H; cbn [fold_left] in H; [left; exact H|].
  destruct (IH _ H) as [H1|H1]; [|right; right; exact H1].
  destruct (smul_any _ _ H1) as [H2|H2]; [left; exact H2 | right; left; exact H2].
Qed.

(* ================================================================================================ *)
(* The invariant and the relation between classified children and collected children                 *)
(* ================================================================================================ *)
Definition entry_of (c : cls) : val * dim :=
  match c with CNum v => (v, dzero) | CQty v d => (v, d) | CSymb r => r end.

(* c : how the inference sees a child; t : what the quantity construction collects for its instance *)
Definition crel (c : cls) (t : val * dim) : Prop :=
  finite_val (fst t) = true /\ wf_dim (snd t) /\ wf_dim (snd (entry_of c)) /\
  (is_any (fst t) = true \/ deq (snd t) (snd (entry_of c))) /\
  (is_any (fst (entry_of c)) = true -> is_any (fst t) = true) /\
  match c with CSymb _ => True | _ => fst (entry_of c) = fst t end.

Definition diag (q : qexpr) : Prop :=
  forall e rv d, Inst e q -> scopeb e = true -> Fin q -> infer_e e = Ok (rv, d) ->
    wf_dim d /\
    exists v d', collect q = Ok (v, d') /\ wf_dim d' /\
                 (is_any v = true \/ deq d' d) /\ (is_any rv = true -> is_any v = true).

Definition head_cls (c : sexpr -> eres) (a : sexpr) : result cls :=
  match a with
  | SQty v d => Ok (CQty v d)
  | SNum v => if is_number v then Ok (CNum v) else match c a with Ok x => Ok (CSymb x) | Err k => Err k end
  | _ => match c a with Ok x => Ok (CSymb x) | Err k => Err k end
  end.

Lemma classify_cons c a r :
  classify c (a :: r) =
  match head_cls c a with
  | Err k => Err k
  | Ok x => match classify c r with Err k => Err k | Ok xs => Ok (x :: xs) end
  end.
Proof. reflexivity. Qed.

Lemma diag_symb a a' x : diag a' -> Inst a a' -> scopeb a = true -> Fin a' ->
  infer_e a = Ok x -> exists t, collect a' = Ok t /\ crel (CSymb x) t.
Proof.
  intros Hd Hi Hs HF Hx. destruct x as [rv d].
  destruct (Hd a rv d Hi Hs HF Hx) as [Wd [v [d' [Hc [Wd' [Hdd Hany]]]]]].
  exists (v, d'). split; [exact Hc|]. unfold crel. cbn [fst snd entry_of].
  repeat split; auto. rewrite (collect_value a' v d' Hc). apply Fin_finite. exact HF.
Qed.

Lemma head_cls_rel a a' x : diag a' -> Inst a a' -> scopeb a = true -> Fin a' ->
  head_cls infer_e a = Ok x -> exists t, collect a' = Ok t /\ crel x t.
Proof.
  intros Hd Hi Hs HF Hx.
  assert (Hgen : forall y, infer_e a = Ok y -> exists t, collect a' = Ok t /\ crel (CSymb y) t).
  { intros y Hy. eapply diag_symb; eassumption. }
  destruct Hi as [v Hn|v d|d x0 Hx0|l l' Hl|b e b' e' Hb He|l l' Hl|a0 a0' Ha|l l' Hl|l l' Hl|d ov l l' Hl];
    cbn [head_cls] in Hx.
  - rewrite Hn in Hx. inversion Hx; subst x. exists (v, dzero). cbn [collect]. rewrite Hn. split; [reflexivity|].
    inversion HF; subst. unfold crel. cbn [fst snd entry_of].
    repeat split; auto using dzero_wf. right. apply deq_refl.
  - inversion Hx; subst x. exists (v, d). split; [reflexivity|]. inversion HF; subst.
    unfold crel. cbn [fst snd entry_of]. repeat split; auto. right. apply deq_refl.
  - destruct (infer_e (SDimSym d)) as [y|k] eqn:E; [|discriminate]. inversion Hx; subst x. apply Hgen. reflexivity.
  - destruct (infer_e (SMul l)) as [y|k] eqn:E; [|discriminate]. inversion Hx; subst x. apply Hgen. reflexivity.
  - destruct (infer_e (SPow b e)) as [y|k] eqn:E; [|discriminate]. inversion Hx; subst x. apply Hgen. reflexivity.
  - destruct (infer_e (SAdd l)) as [y|k] eqn:E; [|discriminate]. inversion Hx; subst x. apply Hgen. reflexivity.
  - destruct (infer_e (SAbs a0)) as [y|k] eqn:E; [|discriminate]. inversion Hx; subst x. apply Hgen. reflexivity.
  - destruct (infer_e (SMin l)) as [y|k] eqn:E; [|discriminate]. inversion Hx; subst x. apply Hgen. reflexivity.
  - destruct (infer_e (SMax l)) as [y|k] eqn:E; [|discriminate]. inversion Hx; subst x. apply Hgen. reflexivity.
  - destruct (infer_e (SFun d l)) as [y|k] eqn:E; [|discriminate]. inversion Hx; subst x. apply Hgen. reflexivity.
Qed.

Lemma children_rel l' : Forall diag l' ->
  forall l cs, Forall2 Inst l l' -> forallb scopeb l = true -> Forall Fin l' ->
    classify infer_e l = Ok cs -> exists ts, map_res collect l' = Ok ts /\ Forall2 crel cs ts.
Proof.
  induction 1 as [|a' r' Ha Hr IH]; intros l cs Hi Hs HF Hc; inversion Hi as [|a ? r ? Hia Hir]; subst.
  - cbn in Hc. inversion Hc; subst. exists []. split; [reflexivity | constructor].
  - rewrite classify_cons in Hc. cbn [forallb] in Hs. apply andb_true_iff in Hs as [Hsa Hsr].
    inversion HF as [|? ? Fa Fr]; subst.
    destruct (head_cls infer_e a) as [x|k] eqn:Ex; [|discriminate].
    destruct (classify infer_e r) as [xs|k] eqn:Er; [|discriminate]. inversion Hc; subst cs.
    destruct (head_cls_rel a a' x Ha Hia Hsa Fa Ex) as [t [Ht Hrel]].
    destruct (IH r xs Hir Hsr Fr Er) as [ts [Hts Hrels]].
    exists (t :: ts). split; [cbn [map_res]; rewrite Ht, Hts; reflexivity | constructor; assumption].
Qed.

(* ================================================================================================ *)
(* Sums, Min, Max: the two models agree through the order-free characterisations                      *)
(* ================================================================================================ *)
Lemma group_perm cs : Permutation (map entry_of cs) (group_entries cs).
Proof.
  unfold group_entries. induction cs as [|c r IH]; [constructor|].
  cbn [map flat_map]. destruct c as [v|v d|x]; cbn [entry_of app].
  - apply perm_skip. exact IH.
  - eapply perm_trans; [apply perm_skip; exact IH|]. apply Permutation_middle.
  - eapply perm_trans; [apply perm_skip; exact IH|].
    rewrite !app_assoc. apply Permutation_middle.
Qed.

Lemma Forall2_in_r {A B} (R : A -> B -> Prop) l l' : Forall2 R l l' ->
  forall y, In y l' -> exists x, In x l /\ R x y.
Proof.
  induction 1 as [|x y0 l l' Hxy _ IH]; intros y Hy; [destruct Hy|].
  destruct Hy as [<-|Hy]; [exists x; split; [left; reflexivity | exact Hxy]|].
  destruct (IH y Hy) as [x' [Hi Hr]]. exists x'. split; [right; exact Hi | exact Hr].
Qed.

Lemma Forall2_in_l {A B} (R : A -> B -> Prop) l l' : Forall2 R l l' ->
  forall x, In x l -> exists y, In y l' /\ R x y.
Proof.
  induction 1 as [|x0 y l l' Hxy _ IH]; intros x Hx; [destruct Hx|].
  destruct Hx as [<-|Hx]; [exists y; split; [left; reflexivity | exact Hxy]|].
  destruct (IH x Hx) as [y' [Hi Hr]]. exists y'. split; [right; exact Hi | exact Hr].
Qed.

(* a collected term that is not of any dimension: the inference's entry is not either, same dimension *)
Lemma crel_nonany c t : crel c t -> is_any (fst t) = false ->
  is_any (fst (entry_of c)) = false /\ deq (snd t) (snd (entry_of c)).
Proof.
  intros [_ [_ [_ [Hd [Ha _]]]]] Hn. split.
  - destruct (is_any (fst (entry_of c))); [rewrite (Ha eq_refl) in Hn; discriminate | reflexivity].
  - destruct Hd as [Hd|Hd]; [congruence | exact Hd].
Qed.

Lemma sd_diagram cs ts d : Forall2 crel cs ts -> unique_dim cs = Ok d ->
  pairwise_equiv ts /\ wf_dim d /\ wf_dim (pick_dim ts) /\
  (Forall (fun t => is_any (fst t) = true) ts \/ deq (pick_dim ts) d).
Proof.
  intros Hrel Hu. unfold unique_dim in Hu.
  pose proof (unique_dim_of_terms _ _ Hu) as Hterms.
  apply unique_dim_ok_iff in Hu as [Hp Hd].
  assert (Hin : forall c, In c cs -> In (entry_of c) (group_entries cs)).
  { intros c Hc. eapply Permutation_in; [apply group_perm | apply in_map; exact Hc]. }
  assert (Wts : Forall (fun t => wf_dim (snd t)) ts).
  { apply Forall_forall. intros t Ht. destruct (Forall2_in_r _ _ _ Hrel t Ht) as [c [_ Hc]]. apply Hc. }
  split; [|split; [|split; [apply pick_dim_wf; exact Wts|]]].
  - intros t1 t2 H1 H2 N1 N2. unfold nonany in N1, N2.
    destruct (Forall2_in_r _ _ _ Hrel t1 H1) as [c1 [Hc1 R1]].
    destruct (Forall2_in_r _ _ _ Hrel t2 H2) as [c2 [Hc2 R2]].
    destruct (crel_nonany c1 t1 R1 N1) as [M1 D1]. destruct (crel_nonany c2 t2 R2 N2) as [M2 D2].
    pose proof (Hp _ _ (Hin c1 Hc1) (Hin c2 Hc2) M1 M2) as E. unfold equivalent_dims in *.
    apply deqb_deq in E. apply deqb_deq.
    eapply deq_trans; [exact D1|]. eapply deq_trans; [exact E|]. apply deq_sym. exact D2.
  - subst d. destruct (first_nonany (group_entries cs)) as [d0|] eqn:E; [|exact dzero_wf].
    destruct (first_nonany_in _ _ E) as [v0 [Hi _]].
    apply Permutation_in with (l' := map entry_of cs) in Hi; [|apply Permutation_sym, group_perm].
    apply in_map_iff in Hi as [c [Hc Hcin]]. destruct (Forall2_in_l _ _ _ Hrel c Hcin) as [t [_ R]].
    destruct R as [_ [_ [W _]]]. rewrite Hc in W. exact W.
  - unfold pick_dim. destruct (first_nonany ts) as [d1|] eqn:E.
    + right. destruct (first_nonany_in _ _ E) as [v1 [Hi Hn]].
      destruct (Forall2_in_r _ _ _ Hrel _ Hi) as [c [Hc R]].
      destruct (crel_nonany c _ R Hn) as [M D]. cbn [snd] in D.
      pose proof (Hterms _ (Hin c Hc) M) as Eq. unfold equivalent_dims in Eq. apply deqb_deq in Eq.
      eapply deq_trans; [exact D | apply deq_sym; exact Eq].
    + left. apply Forall_forall. intros t Ht. apply (first_nonany_none ts E t Ht).
Qed.
